"""Per-property configuration of bin/check (units to build and run, evidence metadata)."""

TB = ["Go toolchain go1.26.8 and runtime (incl. testing/synctest, race detector)", "pgregory.net/rapid v1.3.0",
      "harness code under /verif/harness (generators, fake networks, reference models)"]

PROPS = {}


def prop(pid, level, rule, assumptions, units, exhaustive_core=False, text="", note="", technique="", design="", pending=""):
    PROPS[pid] = dict(level=level, rule=rule, assumptions=TB + assumptions, units=units, exhaustive_core=exhaustive_core,
                      text=text, note=note, technique=technique, design=design)


# properties without a registered check yet: id -> reason (goes to MANIFEST.not_applicable)
PENDING = {}


def _load():
    import glob, importlib.util, os, sys
    sys.modules.setdefault("props", sys.modules[__name__])
    d = os.path.join(os.path.dirname(os.path.abspath(__file__)), "propdefs")
    for f in sorted(glob.glob(os.path.join(d, "C*.py"))):
        spec = importlib.util.spec_from_file_location("propdefs_" + os.path.basename(f)[:-3], f)
        m = importlib.util.module_from_spec(spec)
        spec.loader.exec_module(m)


_load()
