"""Per-property configuration of bin/check (units to build and run, evidence metadata)."""

TB = ["Go toolchain go1.26.8 and runtime (incl. testing/synctest, race detector)", "pgregory.net/rapid v1.3.0",
      "harness code under /verif/harness (generators, fake networks, reference models)"]

PROPS = {}


def prop(pid, level, rule, assumptions, units, exhaustive_core=False, text="", note="", technique="", design="", pending=""):
    PROPS[pid] = dict(level=level, rule=rule, assumptions=TB + assumptions, units=units, exhaustive_core=exhaustive_core,
                      text=text, note=note, technique=technique, design=design)


# properties without a registered check yet: id -> reason (goes to MANIFEST.not_applicable)
PENDING = {}


prop("C14", "exploration",
     "rapid draws histories of 1..3000 counter probes (<2^63): absolute edge counters, top±delta, last±delta, revisits; each "
     "probe is check-and-mark or check-only; plus every check-and-mark history of length<=3 over a 40-value edge alphabet "
     "followed by re-probes (exhaustive sub-space). Oracle: set+max model from the statement, compared at every step. "
     "Non-trivial = history that contains a probe of an already accepted counter AND a forward jump into another 64-block "
     "(random part), or any enumerated history; distinct by hash of the whole history.",
     ["counters stay below 2^63 as the property states", "Mark is only called after a successful Check (as readPacketLocked does)"],
     [dict(name="rapid", pkg="transport", run="^TestVerifC14Random$", shards=dict(quick=8, thorough=16), thorough_scale=100),
      dict(name="enum", pkg="transport", run="^TestVerifC14Exhaustive$", shards=dict(quick=4, thorough=4))],
     exhaustive_core=True,
     text="Model-based search: the real SlidingWindow is compared step by step with a set+max model over generated histories "
          "(edge-biased, up to 3000 probes) and over an exhaustively enumerated short-history sub-space. Absence is not shown; "
          "a counter-example would need a history shape outside the generated families.",
     note="trusts the set+max model (10 lines, written from the statement) and rapid; counters < 2^63",
     technique="property-based testing (rapid) against a reference model + bounded exhaustive enumeration",
     design="DESIGN.md section 4, C14")

prop("C20", "exploration",
     "exhaustive: every pattern over {a,b,*} of length 0..6 x every input over {a,b} of length 0..7 (thorough: 0..8 / 0..9); "
     "random pairs over {a,b,c,.,-,*} up to length 40, half built by instantiating the pattern's stars and then perturbed; "
     "host-block lists and vhost lists over the same pattern space. Oracle: dynamic-programming glob reference (star = any "
     "string, everything else literal), cross-checked against path.Match at start-up; MatchHost must merge exactly the "
     "matching blocks in order, VirtualHosts.Match must return the first matching entry. Non-trivial = pattern with both a "
     "star and a literal, or empty input with a non-empty pattern; distinct by (pattern,input) / list hash.",
     ["matching is byte-wise, case-sensitive (as the package documents by its commented-out fold option)"],
     [dict(name="glob", pkg="pkg/glob", run="^TestVerifC20", shards=dict(quick=8, thorough=16), thorough_scale=20),
      dict(name="config", pkg="config", run="^TestVerifC20", shards=dict(quick=2, thorough=8), thorough_scale=20),
      dict(name="hopserver", pkg="hopserver", run="^TestVerifC20", shards=dict(quick=2, thorough=8), thorough_scale=20)],
     exhaustive_core=True,
     text="The real Glob is compared with a dynamic-programming reference on every pattern/input pair of a small alphabet up to "
          "length 6/7 (exhaustive) and on random longer pairs built to match or nearly match; MatchHost and VirtualHosts.Match "
          "are compared with the reference applied to generated block / vhost lists. Panics are caught and reported.",
     note="trusts the DP reference (cross-checked against path.Match at start-up) and rapid",
     technique="property-based testing (rapid) + exhaustive small-alphabet enumeration against a reference matcher",
     design="DESIGN.md section 4, C20")

prop("C13", "exploration",
     "rapid draws programs: initialisation (InitializeEmpty / Initialize with key 1..135 bytes, id filling up to the 136-byte "
     "limit, counter 0..300 bytes; empty key = hash mode) followed by 1..40 operations allowed by the mode's contract with operand "
     "lengths biased to {0,1,135,136,137,271,272,273,408,1000}; at a drawn point the object is cloned and the clone plays the peer "
     "(decrypts what the original encrypts and vice versa, otherwise the same calls). Oracle: every output equals an independent "
     "Cyclist reference (Xoodyak-spec style, byte-array Keccak-p[1600,12]) anchored to the repository's XKCP transcript and to "
     "stdlib SHA3-256; peer outputs equal; in-place equals out-of-place. Plus every operand length 0..410 for each operation "
     "(exhaustive sub-space). Run on the assembly permutation and on the generic one (-tags appengine). Non-trivial = program with "
     "an empty or >=136-byte operand, or >=3 operations of >=2 kinds; distinct by hash of the program.",
     ["operations documented to panic in the wrong mode are not called", "len(key)+len(id)+1 <= 136 (the documented absorbKey buffer)",
      "the reference implementation is mine; its anchors are cyclist/testdata/xkcp.txt and crypto/sha3"],
     [dict(name="asm", pkg="cyclist", run="^TestVerifC13", shards=dict(quick=8, thorough=16), thorough_scale=100),
      dict(name="generic", pkg="cyclist", tags=("appengine",), run="^TestVerifC13", shards=dict(quick=8, thorough=16), thorough_scale=100)],
     exhaustive_core=True,
     text="Differential search: generated duplex programs are run on the real Cyclist (both permutation builds) and on an independent "
          "reference written from the specification and anchored to published vectors; every output, and the synchrony of a cloned "
          "peer, is compared. Single-operation programs are enumerated for every operand length across three rate blocks.",
     note="trusts the reference (anchored to XKCP transcript + SHA3-256 of the standard library) and rapid",
     technique="property-based differential testing (rapid) against an independent reference + bounded enumeration",
     design="DESIGN.md section 4, C13")

prop("C12", "exploration",
     "rapid draws sessions: key length 1..199 (every length, edge-biased) and key bytes; 1..6 messages sealed by one instance and "
     "opened by another, plaintext/associated-data lengths from {0,1,7,8,31,32,33,199,200,201,399,...,1601} and random, 5% up to "
     "66000 bytes; each message in a drawn buffer layout (dst nil / in place / appended into a live buffer / ad and plaintext "
     "sharing a backing array); up to 8 tampered variants per session (bit flip in body, tag or ad; truncation; extension), each "
     "presented to a clone of the opener's state. Oracles: Open(Seal(P,A),A)=P; ciphertext and tag byte-equal to an independent "
     "Farfalle/Kravatte-SANSE reference (whole-message, byte-array Keccak-p[1600,6], anchored to the repository's XKCP vectors and "
     "SHA3-256); every tampered variant rejected; caller buffers outside the result untouched. Exhaustive sub-spaces: all 19900 "
     "(key length, key byte) pairs must change the output; every single-bit flip of tag, body and ad for 16 short shapes. Raw deck "
     "function: arbitrary chunking of inputs/outputs equals the reference. Non-trivial = crosses a 200-byte block, or key length "
     "!= 16, or multi-message session, or aliased layout; distinct by case hash.",
     ["key lengths 1..199 as the property states (0 and >=200 are rejected / out of contract)",
      "dst overlaps plaintext exactly or not at all (cipher.AEAD contract); associated data never overlaps dst",
      "the reference implementation is mine; its anchors are kravatte/testdata/xkcp.txt, xkcp-sanse.txt and crypto/sha3"],
     [dict(name="sessions", pkg="kravatte", run="^TestVerifC12(Sessions|Deck)$", shards=dict(quick=12, thorough=16), thorough_scale=50),
      dict(name="sweeps", pkg="kravatte", run="^TestVerifC12(TamperSweep|KeySweep)$", shards=dict(quick=8, thorough=8))],
     exhaustive_core=True,
     text="Differential and metamorphic search: generated SANSE sessions run on the real AEAD and on an independent reference "
          "anchored to published vectors; round trip, byte equality with the reference, rejection of every tampered variant and "
          "buffer hygiene are checked per message. Key-byte sensitivity is enumerated exhaustively for all key lengths; bit-flip "
          "rejection exhaustively for short shapes.",
     note="trusts the reference (anchored to XKCP vectors + SHA3-256 of the standard library), rapid; assembly permutation only "
          "(the tree has no pure-Go 6-round permutation)",
     technique="property-based differential + metamorphic testing (rapid) with exhaustive key-byte and bit-flip sweeps",
     design="DESIGN.md section 4, C12")
