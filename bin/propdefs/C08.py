from props import prop

prop("C08", "exploration",
     "rapid draws, per direction, a fault schedule (i.i.d. loss 0/1/10/30/60 %, duplication, base delay, jitter up to 700 ms = "
     "reordering, loss bursts, 0-2 total outages of 0.1-120 s starting in the first 8 s, heal time after which the direction is "
     "faithful) and a sequence of 0-8 writes per side (sizes around the 32768-byte frame limit, up to 10 frames, with pauses); two "
     "real muxers over vlib/memconn inside a synctest bubble; one side closes after writing and reading everything, the other "
     "reads to end-of-stream. Oracle: every Read returns the next bytes of the peer's written stream (payload = keyed function "
     "of the offset); end-of-stream only after all bytes; all written bytes readable and the tube closed within 10 virtual "
     "minutes after the heal time. Non-trivial = a fault hit at least one packet or an outage longer than the initial RTO; "
     "distinct by case hash. Reassembly core (exhaustive sub-space): receiver.receive driven directly with every arrival sequence of "
     "length<=5 (thorough 6) over {frames 1..n, FIN, stale frame, frame beyond the window}, n=1..3, six window bases incl. the 2^32 "
     "wrap; buffer must equal the contiguous prefix, FIN only after all earlier frames.",
     ["muxer data timeout 0 (a configured timeout legitimately tears the session down)", "network heals: every direction is faithful from its heal time on",
      "'eventually' = within 10 virtual minutes after healing (largest protocol timer is 10 s)"],
     [dict(name="core", pkg="tubes", run="^TestVerifC08Core$", shards=dict(quick=8, thorough=16)),
      dict(name="streams", pkg="tubes", run="^TestVerifC08Streams$", shards=dict(quick=16, thorough=16), thorough_scale=30, timeout=dict(quick=900, thorough=7200))],
     text="Generated fault schedules and write sequences are run against two real muxers under a virtual clock; the bytes read are "
          "compared continuously with the bytes written, and completion is demanded within a generous virtual bound after the "
          "network has healed.",
     note="trusts testing/synctest's virtual clock, the memconn fake network and rapid; liveness is decided as a virtual-time bound",
     technique="property-based testing (rapid) of fault schedules under a virtual clock with a prefix/completeness oracle + exhaustive bounded enumeration of the reassembly core",
     design="DESIGN.md section 4, C08", exhaustive_core=True)
