from props import prop

prop("C08", "exploration",
     "rapid draws, per direction, a fault schedule (i.i.d. loss 0/1/10/30/60 %, duplication, base delay, jitter up to 700 ms = "
     "reordering, loss bursts, 0-2 total outages of 0.1-120 s starting in the first 8 s, heal time after which the direction is "
     "faithful) and a sequence of 0-8 writes per side (sizes around the 32768-byte frame limit, up to 10 frames, with pauses); two "
     "real muxers over vlib/memconn inside a synctest bubble; one side closes after writing and reading everything, the other "
     "reads to end-of-stream. Oracle: every Read returns the next bytes of the peer's written stream (payload = keyed function "
     "of the offset); end-of-stream only after all bytes; all written bytes readable and the tube closed within 10 virtual "
     "minutes after the heal time. One case in eight comes from the SMALL-WRITES regime (long-lived interactive tube): one side makes "
     "40-600 writes that all stay below a drawn size cap (16/200/1000/1400/4096 bytes, every write is one frame) with pauses of 0-40 ms, "
     "the other side none, the same kind, or an ordinary write sequence; the link loses nothing and never heals: the direction that "
     "carries the acknowledgements duplicates 30/60/100 % of the packets for the whole life of the tube, the data direction 0/30/100 %, "
     "both with delay 0-150 ms and jitter up to 80 ms; the same scenario and oracle apply (nothing is lost, so completeness is demanded "
     "within the 10 virtual minutes). Root-cause attribution by history: when the network log shows that a side was delivered a run of "
     ">= 95 consecutive acknowledgements repeating one number (the sender's documented give-up limit is 100), an early end-of-stream / "
     "failing Write / stall in that case gets the one signature tube-torn-down:more-than-100-consecutive-duplicate-acks; without such a "
     "run the symptom-shaped signatures stay. Non-trivial = a fault hit at least one packet or an outage longer than the initial RTO; "
     "distinct by case hash. Reassembly core (exhaustive sub-space): receiver.receive driven directly with every arrival sequence of "
     "length<=5 (thorough 6) over {frames 1..n, FIN, stale frame, frame beyond the window}, n=1..3, six window bases incl. the 2^32 "
     "wrap; buffer must equal the contiguous prefix, FIN only after all earlier frames.",
     ["muxer data timeout 0 (a configured timeout legitimately tears the session down)", "network heals: every direction is faithful from its heal time on",
      "'eventually' = within 10 virtual minutes after healing (largest protocol timer is 10 s)"],
     [dict(name="core", pkg="tubes", run="^TestVerifC08Core$", shards=dict(quick=8, thorough=16)),
      dict(name="streams", pkg="tubes", run="^TestVerifC08Streams$", shards=dict(quick=16, thorough=16), thorough_scale=30, timeout=dict(quick=900, thorough=7200))],
     text="Generated fault schedules and write sequences are run against two real muxers under a virtual clock; the bytes read are "
          "compared continuously with the bytes written, and completion is demanded within a generous virtual bound after the "
          "network has healed.",
     note="trusts testing/synctest's virtual clock, the memconn fake network and rapid; liveness is decided as a virtual-time bound",
     technique="property-based testing (rapid) of fault schedules under a virtual clock with a prefix/completeness oracle + exhaustive bounded enumeration of the reassembly core",
     design="DESIGN.md section 4, C08", exhaustive_core=True)
