from props import prop

prop("C16", "exploration",
     "rapid draws concurrent programs: 1-3 tubes (reliable/unreliable, opened from either side) - established before the program starts or, "
     "in one case in three, LATE: opened 0-1500 ms after the program began, on the network with its faults already armed, while both "
     "applications keep accepting, so that Close / Stop / the forced close behind Stop meet tubes whose initiation is still under way on "
     "one or both ends or never completes (operations on an end that does not exist yet wait up to 2 virtual s for it, else are skipped; "
     "late tubes get identifiers no other tube of the case has - reuse of identifiers is C09's subject; such cases draw half of their "
     "yields from the initiation / forced-close path: Reliable.initiate after sending and before starting the sender, Muxer.Stop after "
     "publishing 'stopping' and in its force timer, receiver dispatch, with delays around the documented timers 333 ms / 1 s) -, 2-6 goroutines of "
     "1-5 operations over both ends (Write, Read, Close, WaitForClose, SetDeadline, Muxer.Stop, Close+WaitForClose) with "
     "inter-operation delays; write sizes 1 B - 200 KB and ZERO-LENGTH writes (empty and nil slice; on unreliable tubes through Write or "
     "WriteMsgUDP); in one case in four 1-4 REPLAYED INITIATION DATAGRAMS: late / duplicated copies of REQ and RESP datagrams that "
     "really crossed the case's network (recorded per direction from the start), delivered once more to the side they were addressed "
     "to, at a drawn time of the program or at a drawn phase of a Muxer.Stop (enter / stopping / tubesClosed / queuesClosed - weighted: "
     "queues closed while the receiver still reads - / force timer; the Stop goroutine then pauses 0-400 ms at that lock-free point), "
     "half of these cases with a slow reaper (closed tubes stay listed 5 ms - 1.2 s longer), both applications accepting; "
     "a preload (per tube end 0-20 writes of 1 B - 32 KiB made before the program starts and left unread by the "
     "peer, so that Close/Stop meet tubes with buffered, not yet read data); a loss pattern (0/10/50/100 %, healing at a drawn time, or a network that goes dead for good at a "
     "drawn moment), optionally the underlying connection failing (write errors or closed underneath) at a drawn moment, a muxer "
     "data timeout in {0, 2 s, 30 s}, and a yield schedule (virtual delays at the verif-tagged yield points in Muxer.Stop / "
     "receiver / reaper, Reliable.Close / enterClosedState / receive / send loop / initiate, Unreliable.Close / receive / sender). Runs "
     "inside a synctest bubble. Oracle: when both ends have closed and the network delivers, WaitForClose returns within 30 "
     "virtual s without any Stop; three concurrent Stop calls per muxer return within 20 virtual s with equal results; 30 s "
     "after both muxers stopped no call is still blocked; every write after a local Close has returned fails whatever its length, and after "
     "shutdown Write (and WriteMsgUDP on unreliable tubes) of nil, empty and 16 bytes fails and Read reaches end-of-stream; reads return only "
     "what the peer wrote; after shutdown each end must return exactly what sits unread in its buffer (white box: buffered bytes of a "
     "reliable tube, the receive queue of an unreliable tube copied out and put back: exactly those messages, in that order), then "
     "end-of-stream, and nothing after end-of-stream; inside a program, a Read on an unreliable end whose local Close/Stop has "
     "returned must not report end-of-stream while its receive queue is non-empty and must not return a message after an earlier "
     "such Read reported end-of-stream; no panic; no goroutine left (bubble exit). Non-trivial = lifecycle operations (Close/Stop) in >=2 "
     "goroutines, or lifecycle under loss>=50 % / dead network; distinct by case hash.",
     ["between two instrumented points the Go scheduler decides the interleaving", "a datagram network may deliver a copy of any datagram it carried once more, at any later time", "transport writes never stall inside the bubble (a virtual-time stall of the muxer sender freezes the clock behind lifecycle mutexes); the window 'queues closed, receiver still reading' is opened by the yield at Muxer.Stop.queuesClosed instead",
      "a one-sided close on a dead network without data timeout and without Stop is not required to finish; every program ends with Stop on both muxers",
      "bounds are virtual (synctest): 30 s / 10 s are far above the documented timers (muxerTimeout 1 s, drain 1 s, last-ack 4*RTT)"],
     [dict(name="programs", pkg="tubes", run="^TestVerifC16Programs$", shards=dict(quick=16, thorough=16), thorough_scale=50, timeout=dict(quick=900, thorough=7200)),
      dict(name="race", pkg="tubes", race=True, run="^TestVerifC16Programs$", shards=dict(quick=16, thorough=16), thorough_scale=20, env=dict(VERIF_SCALE_MULT="0.15"), timeout=dict(quick=900, thorough=7200))],
     text="Generated concurrent shutdown programs run against two real muxers under a virtual clock with the harness owning the "
          "interleaving at instrumented yield points; termination, idempotence, post-close behaviour, absence of panics and of "
          "leaked goroutines are checked, and the same programs run under the race detector.",
     note="trusts testing/synctest (virtual clock, leak/deadlock detection), the race detector, memconn, rapid; interleavings are "
          "explored by perturbation at named yield points, not exhaustively",
     technique="property-based testing (rapid) of concurrent programs with schedule perturbation under a virtual clock + race detector",
     design="DESIGN.md section 4, C16")
