from props import prop

prop("C15", "exploration",
     "honest client and server (real transport code over vlib/simnet inside a synctest bubble) complete a handshake (discoverable "
     "or hidden, drawn); rapid then draws a script of 5..40 steps, each one of: genuine packet from the peer's current address; "
     "roam (the peer's socket is rebound to a new port and/or IP from a pool incl. IPv6, then a genuine packet); silent move "
     "(rebind, nothing sent); and, injected from a THIRD address (a fixed attacker address, an address the peer used earlier, the "
     "peer's IP with another port, the peer's port on another IP, or a drawn one - never the peer's current address): forged packet "
     "with the live session id (random body/tag, counter next+{-1000..600} or 2^62 ahead, Transport or Control type); one-byte xor "
     "of a genuine packet in a drawn region (type - incl. turning it into Control or a handshake type -, reserved, session id, "
     "counter, body, tag), made either from an already delivered packet or from a packet taken off the wire before delivery; replay "
     "of a delivered packet (recent or up to 1200 back); a genuine packet held back on the wire while 449..514 later packets are "
     "delivered (so it lies below the 448-counter replay window) and then released from the third address; truncated copy (48..len-1 "
     "bytes, or below 8 bytes); REFLECTION (~ 1 step in 9, both sides): a session datagram that the endpoint under test ITSELF put on "
     "the wire (any one from the wire log; the newest ones preferred, else up to 1200 back) is delivered back to that same endpoint "
     "from a third address or (1 in 4) from the peer's current address - incl. an address the peer silently moved to -, after the "
     "endpoint has first written 1..30 more messages (so that it has sent more than it has received and the reflected counter is ahead "
     "of its receive window: label adv:reflection:counter-ahead-of-everything-the-endpoint-received, ~ 4 cases in 10) or after the peer "
     "has first sent 1..12 more genuine packets (counter already seen / unseen inside the window); class 'reflection' in the address "
     "and delivery clauses (redirected-by:reflection, accepted:reflection). The undelivered original of a flip may be an empty message "
     "(1 in 6: every flip outside the header then lands in the tag). Side 0 examines the server's view of the client address (client roams), side 1 the client's view of "
     "the server address (server socket moves; the attacker writes to the client). Slow application: the endpoint under test "
     "gets a drawn receive queue length (package default, or 1, 2, 3, 5 packets: ServerConfig.MaxBufferedPacketsPerConnection / "
     "ClientConfig.MaxBufferedPackets) and every step may make its application stop or resume calling ReadMsg; genuine, roam and "
     "silent-move steps may be preceded by 1..6 extra genuine packets from the peer's old address, so that roams and adversarial "
     "datagrams arrive while the queue is full and the endpoint drops payloads (labels roam-arrives-at-full-queue ~ 1 case in 4, "
     "adversarial-datagram-arrives-at-full-queue, genuine-packet-dropped-at-full-queue). Writes under way while the peer moves (step roam-while-write-blocked, ~ 1 step in 12, both sides): the endpoint's socket "
     "stops taking datagrams (simnet write gate = full send buffer); one WriteMsg of the endpoint blocks INSIDE the socket (sealed, "
     "destination already handed over), 1..3 further concurrent writers queue up behind it (the harness waits until every goroutine "
     "is blocked - durably or on the handle's write mutex: vlib.BubbleQuiet, a goroutine-dump poll, since synctest.Wait cannot return "
     "while a mutex is awaited); then the peer moves, its genuine packet is delivered and processed, and only then does the socket "
     "drain. Judged: every datagram whose socket write BEGAN after the genuine packet from the new address had been processed goes to "
     "the new address (roaming-not-followed:write-queued-behind-a-blocked-socket-write); the datagram(s) already inside the socket "
     "may keep the old destination (label blocked-write-keeps-its-old-destination(allowed)); one datagram per write; all writes return. "
     "Lock-step: after the deliveries of every step all "
     "goroutines settle (synctest.Wait), the endpoint under test writes one message (WriteMsg) and the datagrams it put on the wire "
     "are read from the wire log. Oracle (harness-side model): addr := source of the last delivered datagram that was genuine, "
     "unmodified and fresh; every session datagram the endpoint emits goes to addr at that moment (redirected-by:<class>, "
     "roaming-not-followed) - the model does not look at the queue: a genuine fresh packet moves addr whether or not its payload "
     "could be handed to the application; exactly one datagram per write; plus the session stays usable: every genuine packet (also "
     "the first one after a move) reaches the endpoint's application, no adversarial one does, and what the endpoint writes reaches "
     "the peer whenever the peer is where its last genuine packet came from. The delivery clause follows a harness-side model of the "
     "receive queue (a reader waiting in ReadMsg takes the message; else it is queued while there is room; else it is dropped and not "
     "expected; a resuming application receives exactly what was queued, checked also after the script if it ended without a reader). Non-trivial = script with >= 1 genuine address change AND >= 1 "
     "adversarial datagram from a third address; distinct by hash of the whole script.",
     ["the AEAD, the KEM and the handshake are not attacked by search: adversarial datagrams are structural (no key knowledge)",
      "truncated copies of 8..47 bytes are excluded by construction while the pinned tree still panics on them "
      "(makeslice in handleSessionMessage, a C10 defect that kills the process); a probe at the start of the test calls "
      "handleSessionMessage directly with such datagrams and enables the class automatically once they are survivable "
      "(label excluded-by-construction:... shows the state)",
      "a genuine packet that an on-path attacker delays and re-sends from its own address while it is still INSIDE the replay "
      "window is not generated: by the statement such a packet is authentic and fresh, so the model would demand a redirect to "
      "the attacker; asserting that would punish stricter implementations (e.g. 'move only on the newest counter')",
      "stale = more than 448 counters behind the newest accepted packet (transport/replay.go: 'receive window of 448'); the "
      "exact window edge is C14's subject and is not probed here",
      "sockets are unconnected: the client accepts datagrams from any source address, as transport.Client does over a UDPLike",
      "a slow application is modelled as a reader that finishes the ReadMsg call it is in (that call takes the next message) and "
      "then stays away until it resumes; with a short queue the harness lets all goroutines settle after every genuine packet, so "
      "that a reading application empties the queue before the next packet (otherwise overflow would depend on the scheduler)",
      "datagrams the endpoint emits that are not session packets (a handshake reply to a type-flipped copy) are outside the "
      "oracle; they are counted under the label endpoint-emitted-a-non-session-datagram"],
     [dict(name="roaming", pkg="transport", run="^TestVerifC15Roaming$", shards=dict(quick=12, thorough=16), thorough_scale=40)],
     text="Model-based search over address histories: generated interleavings of genuine packets from a moving peer with forged, "
          "bit-flipped, replayed, stale, truncated and reflected (the endpoint's own packets sent back to it while their counter is "
          "fresh in its receive window) datagrams from third addresses, run in lock-step against a live session; the "
          "destination of every datagram the endpoint emits is compared with a one-variable model (source of the last genuine, "
          "unmodified, fresh delivery). Both directions (server tracking the client, client tracking the server), both handshake "
          "modes, receive queues from the package default down to one packet with an application that stops and resumes reading "
          "(packets whose payload is dropped at a full queue still move the address); roams that arrive while one write of the endpoint is "
          "blocked in the socket and further writers are queued behind it (the queued writes must follow the move). Absence is not shown; a counter-example would need an adversarial datagram shape outside the generated classes.",
     note="trusts synctest (Wait = all goroutines settled), simnet (wire log, injection with arbitrary source address, Rebind), the "
          "white-box read of the session id, the goroutine dump (wait states) for quiescence while writers wait for a mutex; cryptographic primitives are treated as ideal",
     technique="property-based model checking of address tracking (rapid scripts, simulated datagram network in lock-step, wire-log oracle)",
     design="DESIGN.md section 4, C15")
