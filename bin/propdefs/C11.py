from props import prop

prop("C11", "exploration",
     "muxer half: a real muxer M and an honest peer muxer P over vlib/memconn (faithful) inside a synctest bubble carry an honest "
     "reliable control tube; rapid draws 1..300 raw frames injected into the P->M stream: every flag combination, any tube id "
     "(never the control tube's own (reliability,id)), length field in {actual, actual+-1, 0, 1, 0x7FFF, 0x8000, 0xFFF3, 0xFFF4, "
     "0xFFFF}, datagrams truncated to 0..11 bytes, ack/frame numbers in {0,1,2,3,small,1000,2^31,2^31+1,2^32-2,2^32-1}, REQ/RESP "
     "layouts with any tube type, with gaps and optionally interleaved honest traffic, and (one case in three) further frames - biased to REQ - injected WHILE the muxer is stopping and the peer withholds its answers - for good (Stop ends through its forced close) or, "
     "in six of ten such cases, until a drawn moment 60-900 ms after Stop began, when the peer completes the close handshake of every "
     "tube that was open when Stop began and of none it requested afterwards (Stop ends gracefully, before the forced close). "
     "One case in four: THE APPLICATION DOES NOT READ - before the drawn frames the peer opens 1-2 further tubes (unreliable or reliable) "
     "which the application accepts and then neither reads nor closes, and fills each up to the bound the implementation has for unread "
     "input, +-1 and beyond: the receive queue of an unreliable tube (maxBufferedPackets messages of 0-1200 bytes), the reassembly window "
     "of a reliable tube (maxWindowSize out-of-order frames behind a missing first frame) or an in-order backlog of that many frames; then "
     "the drawn frames follow (also those injected while stopping), each aimed at one of these tubes with probability 1/2, all other fields as drawn. "
     "One case in five: FLOOD OF OPEN REQUESTS - the peer requests a tube for every identifier of the local side's parity, of its own parity or "
     "for all 256 (unreliable, reliable or both classes; all but 0-5 of each parity; before or after the drawn frames; the application keeps "
     "these tubes or closes each at once): nothing ties a request's identifier to the requester's parity, so the peer can occupy the identifiers "
     "the local side creates from. In these cases and in a quarter of the others the LOCAL APPLICATION then CREATES 1-3 tubes of each class: every "
     "Create returns within 10 virtual seconds a tube of the local parity or an error (ErrOutOfTubes). A bubble that freezes in a case with local "
     "creates (a Create spinning under the muxer lock blocks nothing durably, so no virtual bound can elapse) is decided by repeating fixture, "
     "junk, local creates (45 s each) and Stop (60 s) with real timers outside the bubble: signature ...:confirmed-in-real-time. "
     "One case in four: AN ESTABLISHED TUBE WITH HISTORY IS UNDER ATTACK - before the junk the honest peer opens a second reliable tube, the local "
     "application sends 5-80 frames on it (mostly more than 20, the point from which the sender counts duplicate acknowledgements) which the peer "
     "reads and acknowledges; then the peer's acknowledgements for this tube are withheld (dropped by the fake network while the junk lasts) and "
     "0-12 further frames are written, which stay outstanding. Spread over the drawn frames, 1-6 RUNS OF 1-8 ACKNOWLEDGEMENT FRAMES repeat the last "
     "acknowledgement number the local sender really received (duplicates) or a neighbour (+-1, +-2), with and without payload and RTR, numbered "
     "with the frame number the tube expects next (+0/1/5); the drawn frames and all other dimensions stay as they are. The peer owns this tube and "
     "may ruin it: no new clause, the usual ones apply (labels history:ack>20:1-3-outstanding etc. show the coverage). "
     "Oracle: no panic, also not in a timer/sender goroutine during the 3 virtual minutes the case keeps running after Stop; the "
     "control tube moves fresh data both ways during and after the junk; Muxer.Stop returns within 10 virtual seconds; when Stop has "
     "returned no tube that is still registered or was ever handed out by Accept is open (white box: closed channel), and Accept has "
     "handed out no tube requested after the harness saw the muxer in the stopping state; no goroutine is left. "
     "Non-trivial = sequence with at least one internally inconsistent frame; distinct by case hash. Decoder half: random byte "
     "strings and mutations of valid encodings (every length/enum field set to {0,1,actual+-1,0xFF,0xFFFF,large}, every "
     "truncation) into common.ReadString, codex.GetCmd/readSize/getStatus, portforwarding.readPacket, the authgrants readers and "
     "userauth.GetInitMsg (over a real reliable tube); oracle: value or error, no panic, returns on a closed stream, bytes "
     "allocated during the call <= 256 KiB + 16 x len(input). portforwarding.readPacket: a nil error comes with a usable value (non-nil "
     "address whose Network/String do not panic - what its caller does with it); the sweep covers network types 0-6, 9, 255. The same control "
     "messages (forwarding type biased to local/remote and their neighbours, network type to 1-3 and the values next to them) are also written "
     "into a real reliable tube of a muxer pair and handed to the REAL CALLER portforwarding.StartPFServer with a stub Forward: no panic, returns "
     "once the peer closed, allocation <= 8 MiB + 16 x len(input); the Authorize hook (absent in some cases) refuses remote forwardings always and "
     "local ones when the harness refuses everything or the bytes name a non-loopback IP literal, so the check only ever dials the local machine. Every decoder input is presented twice: in one piece, and under a "
     "drawn delivery pattern (vlib/wire Delivery: one byte per Read, segments or per-call limits of drawn sizes, (0, nil) results "
     "never twice in a row, end-of-stream returned together with the last bytes; enumerated sweeps derive the pattern from the "
     "input bytes); the same oracles hold under every delivery. For the two readers that need a real tube the pattern becomes up "
     "to 24 separate writes, each delivered and read before the next (and, for GetInitMsg, reading only after the peer's close). "
     "Non-trivial there = input whose length fields disagree with its size.",
     ["junk never addresses the honest control tube's own (reliability, id): an authenticated peer can always disturb a tube it owns",
      "the application keeps calling Accept (as hopserver's session loop does)",
      "StartPFServer is driven with remote forwardings refused and local ones permitted only towards the local machine (judged on the bytes sent)",
      "a tube the application holds without reading is still closed by Muxer.Stop; nothing is claimed about the content such a tube would deliver",
      "32-bit length fields are capped at 32 MiB in the decoder harness (a literal 0xFFFFFFFF made unfixed GetCmd allocate 24 GB and get the test process killed)"],
     [dict(name="muxer", pkg="tubes", run="^TestVerifC11Muxer$", shards=dict(quick=16, thorough=16), thorough_scale=40, timeout=dict(quick=900, thorough=7200)),
      dict(name="dec-common", pkg="common", run="^TestVerifC11Dec", shards=dict(quick=4, thorough=8), thorough_scale=100),
      dict(name="dec-codex", pkg="codex", run="^TestVerifC11Dec", shards=dict(quick=8, thorough=8), thorough_scale=50),
      dict(name="dec-portforwarding", pkg="portforwarding", run="^TestVerifC11Dec", shards=dict(quick=8, thorough=16), thorough_scale=100),
      dict(name="dec-authgrants", pkg="authgrants", run="^TestVerifC11Dec", shards=dict(quick=8, thorough=16), thorough_scale=100),
      dict(name="dec-userauth", pkg="userauth", run="^TestVerifC11Dec", shards=dict(quick=8, thorough=16), thorough_scale=30)],
     text="Generated hostile frame sequences are injected into a real muxer next to honest traffic under a virtual clock; liveness of "
          "the other tube, clean stop and absence of panics/leaks are checked. Decoder half: arbitrary and mutated byte strings into "
          "every application-protocol decoder with a panic and allocation oracle, each input both in one piece and under a "
          "generated delivery pattern (short reads, zero-byte reads, end-of-stream with the last bytes).",
     note="trusts testing/synctest, memconn, rapid; memory oracle is per call (TotalAlloc delta), not long-run growth",
     technique="property-based testing / structured fuzzing (rapid) of frame sequences and decoder inputs with crash, liveness and allocation oracles",
     design="DESIGN.md section 4, C11")
