from props import prop

prop("C01", "fault_enumeration",
     "the counterpart is the real endpoint code configured with an inconsistent identity, described by attributes: chain "
     "(trusted / under an untrusted root / self-signed / unrelated intermediate presented / no intermediate presented), validity "
     "(valid / expired / not yet valid), certificate type (leaf / intermediate-typed presented as leaf), name (expected label / other "
     "label / same label other type), holds the certified private key or not (impostor), certified key in the judge's authorized-key "
     "set or not; the judging side's policy: trust store with/without the root, authorized keys allowed, InsecureSkipVerify, expected "
     "name (zero / matching / same label other type / other label), additional-verify callback (none / accepting / rejecting), and nil "
     "ClientVerify on the server. Enumerated: 2 modes x 2 directions x 27 counterpart kinds (each attribute deviating alone, plus "
     "combinations) x 96 policies; plus rapid-drawn arbitrary attribute/policy combinations. Runs over vlib/simnet inside a synctest "
     "bubble. Oracle (implication only): Client.Handshake()==nil => the server identity satisfies the client's policy and holds the "
     "certified key; discoverable: Accept offers a connection => the client identity satisfies the server's policy and holds its key; "
     "both modes: Handle.ReadMsg delivers data => same. Honest valid identities must be served (sanity). Non-trivial = counterpart is "
     "not the honest valid identity; distinct by (mode, direction, identity, policy).",
     ["ML-KEM, X25519, Ed25519 and the duplex are not attacked by search; impostors are structural (valid certificate, other key)",
      "the policy predicate models the documented VerifyConfig semantics (authorized keys: leaf format + key in set; InsecureSkipVerify skips all chain and name checks; nil ClientVerify = no verification)",
      "in-flight garbage in MAC/tag fields and transplants are covered by C02's sweep"],
     [dict(name="matrix", pkg="transport", run="^TestVerifC01Matrix$", shards=dict(quick=16, thorough=16), timeout=dict(quick=900, thorough=3600)),
      dict(name="random", pkg="transport", run="^TestVerifC01Random$", shards=dict(quick=8, thorough=16), thorough_scale=60)],
     exhaustive_core=True,
     text="Enumerated matrix of counterpart kinds x verification policies x modes x directions run through the real handshake code, "
          "judged by a policy predicate over how each identity was constructed; rapid adds arbitrary attribute combinations.",
     note="trusts synctest, simnet, the policy predicate (written from config.go's documentation) and the certs issuing API used to build identities",
     technique="enumerated configuration/fault matrix + property-based sampling (rapid) against a policy predicate",
     design="DESIGN.md section 4, C01")
