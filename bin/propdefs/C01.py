from props import prop

prop("C01", "fault_enumeration",
     "the counterpart is the real endpoint code configured with an inconsistent identity, described by attributes: chain "
     "(trusted / under an untrusted root / self-signed / unrelated intermediate presented / no intermediate presented), validity "
     "(valid / expired / not yet valid), certificate type (leaf / intermediate-typed presented as leaf), names on the leaf (expected label / "
     "other label / same label other type / several names with the expected one last / several names without it / only the explicitly "
     "empty raw name / no name / only the empty DNS name / expected label plus empty raw name), holds the certified private key or not "
     "(impostor), certified key in the judge's authorized-key set or not; 'bait' chains: a hand-made (unsigned, or signed by the "
     "presented certificate's key) certificate whose Parent names whatever certificate sits in the intermediate slot - the untrusted "
     "root, the untrusted intermediate, an untrusted leaf, the TRUSTED root, the trusted intermediate; 'hand-signed world' chains: a root, "
     "an intermediate and the leaf written and properly signed BY HAND (the issuing API clamps a certificate to its parent's lifetime; the "
     "holder of an expired CA key is not bound by that), so that each element has its own validity window (valid / expired / not yet valid at "
     "the judge's clock) - a leaf that outlives its intermediate, an intermediate that outlives its root - with the root in the judge's store "
     "and the intermediate presented in the handshake, held in the judge's store and not presented, or both (reference: acceptable under the "
     "store iff all three windows contain the judge's clock; the all-valid variants are sanity controls that must be served); 'low-order "
     "certified key': a leaf (any chain kind; CA-issued in the matrix) naming one of the 14 encodings of the small-order Curve25519 points "
     "(0, 1, the two order-8 points, p-1, p, p+1, each with and without the ignored top bit; a self-test checks each against x/crypto's "
     "X25519), presented by a counterpart - real Client, real Server (through the certificate callbacks) or puppet - whose static key is a "
     "keys.Exchangable that agrees on 32 zero bytes with everybody, which is the best anybody can do for a point without a private key "
     "(reference: never acceptable, under any policy: possession cannot be proved); the judging side's policy: trust "
     "store with/without the root, authorized keys allowed, InsecureSkipVerify, expected name (zero / matching / same label other type / "
     "other label / certs.RawStringName(\"\") / certs.DNSName(\"\") / certs.Name{Label: []byte{}} / a label that is one of several on "
     "some leaves), additional-verify callback (none / accepting / rejecting), and nil ClientVerify on the server. The reference name "
     "decision: no name given, or some name on the leaf has the same type and label bytes. Enumerated: 2 modes x 2 directions x 83 "
     "counterpart kinds (each attribute deviating alone, plus combinations; 12 of them hand-signed chains, 16 low-order keys) x 128 policies (the degenerate expected names are not "
     "crossed with the callback); plus rapid-drawn arbitrary attribute/policy combinations. Runs over vlib/simnet inside a synctest "
     "bubble. Oracle (implication only): Client.Handshake()==nil => the server identity satisfies the client's policy and holds the "
     "certified key; discoverable: Accept offers a connection => the client identity satisfies the server's policy and holds its key; "
     "both modes: Handle.ReadMsg delivers data (ANY message, an empty one too) => same. Honest valid identities must be served (sanity). Non-trivial = counterpart is "
     "not the honest valid identity; distinct by (mode, direction, identity, policy). "
     "Family 'real clock' (rapid): VerifyConfig.CurrentTime is left zero on both sides, so validity is judged against the clock - the "
     "bubble's virtual clock; per case a fresh certificate world (root, intermediate, server leaf, 1-3 client leaves, some with their "
     "key in the server's authorized-key set) whose validity windows [start+a s, start+a+d s) begin and end while the case runs; ONE "
     "long-running server; a generated sequence of 1-6 handshakes (which client, preceded by a sleep of 0-70 virtual s; handshakes "
     "happen on half seconds, window edges on whole seconds), both modes, server policy CA store with/without authorized keys. "
     "Oracle per handshake, evaluated at its own virtual instant t: Handshake()==nil => server leaf valid at t; discoverable: Accept "
     "offers => client leaf valid at t (or authorized key); both modes: data delivered => same; sanity: both valid at t => "
     "handshake, accept and delivery succeed. Non-trivial = >=2 handshakes and some certificate invalid at one of them; the label "
     "'validity-of-one-identity-differs-between-handshakes' counts the cases where the same certificate is judged on both sides of "
     "a window edge. Family 'interrupted' (rapid): 1-6 goroutines enter ONE Client concurrently through Handshake / WriteMsg / Write "
     "/ ReadMsg / Read (all run the handshake first) with generated start delays; the server is absent (nothing reaches it), silent "
     "(no answer reaches the client), stops answering after its first handshake message, or is honest behind a one-way latency of "
     "0-200 ms; HSTimeout 0 / 50 ms / 2 s; 1-3 concurrent Close calls at a generated virtual time (0-3 s) or only after all callers "
     "returned; yield schedule (Gosched or virtual sleeps) at the verif-tagged points in Client.Handshake (elected, beforeOpen, "
     "beforeDone) and Client.Close (elected, connClosed, beforePublish). Oracle: ANY of these calls returning nil => the server's "
     "proving message (ServerAuth / ServerResponseHidden) had been delivered to the client's socket when the call returned (network "
     "log); no call panics; after Handshake()==nil a WriteMsg does not panic; sanity: honest reachable server, no early Close => the "
     "handshakers and writers succeed. Non-trivial = >=2 callers and Close at a generated time. "
     "Family 'long-lived verifier' (rapid): a SEQUENCE of 2-4 handshakes by generated near-valid identities (chains under the untrusted "
     "root and baits pointing at it are frequent) against ONE verifier: one Server with one ClientVerify, or one VerifyConfig value "
     "copied into successive Clients that each face their own server (the copies share the store's map and the key set); both modes. "
     "Oracle per handshake: the implications above with the reference decision for THAT identity alone - verification must not depend "
     "on what earlier peers presented; an honest valid identity is served wherever it stands. Non-trivial = >=2 handshakes, one of them "
     "by an unacceptable identity; labels count 'untrusted chain after a bait handshake'. "
     "Family 'certificate lookups fail' (rapid, server judges): the server is configured with ServerConfig.GetCertificate/GetCertList "
     "callbacks over a host table (as hopserver does) that FAIL at generated call numbers of the server's life, from a generated call "
     "number on, or for the host name the list advertises (pair disagrees), or because the client asks for an unknown host; 1-4 "
     "handshakes on one server by the real Client or by a PUPPET: a harness-side client that writes the handshake with the package's "
     "own message writers, presents a chain (mostly the victim's valid chain without its key), and then sends data sealed under EVERY "
     "key set it can compute (transcript after each of its own messages, after the server's answer without the static DH, after the "
     "answer processed with the key it holds) and then FORGED transport packets for that session ID sealed under no key at all (seeded random "
     "payload of 0 / 1 / 17 / 64 bytes and random tag, counter next in line and far ahead); it learns the session ID from the handshake answer, from the greeting the server "
     "application writes on an offered connection, or is told it; one puppet identity in five (of the classic-impostor kind) names a low-order key. In discoverable mode one step in three is a puppet that sends SEVERAL ClientAuth messages on its ONE pending handshake: first 1-3 "
     "messages for generated BAIT identities (any chain kind, mostly one nobody signed - hand-made, self-signed, under the untrusted root - and "
     "mostly carrying the expected name; chain encrypted under the running transcript with the correct tag, final MAC random bytes: nobody holds "
     "a bait's key, so a bait message cannot complete a handshake by itself; a message refused while the certificates are verified leaves both "
     "transcripts in step), then the ClientAuth of the identity it really has (near-valid, mostly holding its key, mostly short of the policy in "
     "one attribute - another name, expired, other chain), then data under every key set as before, the transcripts after the bait messages included; judged by "
     "the reference decision for its OWN identity alone (the honest-is-served clause is not applied to such a step; labels count the acceptable "
     "ones served after refused baits). The same baited puppet steps occur in the 'long-lived verifier' family (server judges, discoverable). Oracle unchanged (discoverable: Accept offers => acceptable and key "
     "held; both modes: data delivered => same); an honest peer (real or puppet) under which no lookup failed is served. Non-trivial = "
     "a lookup failed or a puppet took part, and some identity is unacceptable.",
     ["ML-KEM, X25519, Ed25519 and the duplex are not attacked by search; impostors are structural (valid certificate, other key)",
      "the policy predicate models the documented VerifyConfig semantics (authorized keys: leaf format + key in set; InsecureSkipVerify skips all chain and name checks; nil ClientVerify = no verification)",
      "in-flight garbage in MAC/tag fields and transplants are covered by C02's sweep",
      "an expected name is 'given' unless it is the zero value certs.Name{} (nil label, type 0): VerifyConfig.Name is 'compared to the certificate when non-empty', VerifyOptions.Name 'if it is non-zero', and certs.Name.IsZero states that a zero-length non-nil label 'does not count as zero. It's an explicitly empty, raw name' - so certs.RawStringName(\"\") and certs.DNSName(\"\") are names the leaf must carry (the unchanged tree behaves that way)",
      "session IDs are public (they travel in the clear in every packet), so the puppet may be told the ID of the session the server created for its address",
      "a failing GetCertificate/GetCertList callback is a legal server configuration (hopserver's own callbacks return errors for unknown hosts)"],
     [dict(name="matrix", pkg="transport", run="^TestVerifC01Matrix$", shards=dict(quick=16, thorough=16), timeout=dict(quick=900, thorough=3600)),
      dict(name="random", pkg="transport", run="^TestVerifC01Random$", shards=dict(quick=8, thorough=16), thorough_scale=60),
      dict(name="realclock", pkg="transport", run="^TestVerifC01RealClock$", shards=dict(quick=16, thorough=16), thorough_scale=20),
      dict(name="interrupted", pkg="transport", run="^TestVerifC01Interrupted$", shards=dict(quick=16, thorough=16), thorough_scale=20),
      dict(name="sequence", pkg="transport", run="^TestVerifC01Sequence$", shards=dict(quick=16, thorough=16), thorough_scale=20),
      dict(name="lookupfaults", pkg="transport", run="^TestVerifC01LookupFaults$", shards=dict(quick=16, thorough=16), thorough_scale=20)],
     exhaustive_core=True,
     text="Enumerated matrix of counterpart kinds x verification policies x modes x directions run through the real handshake code, "
          "judged by a policy predicate over how each identity was constructed; rapid adds arbitrary attribute combinations, sequences "
          "of handshakes under the (virtual) real clock with certificates that become valid and expire while one server runs, "
          "concurrent callers on one client whose handshake is interrupted by Close against an absent, silent or late server, sequences "
          "of handshakes (including bait chains) against one long-lived verifier judged by the decision for each identity alone, and a "
          "server whose certificate callbacks fail, attacked by a puppet that sends data under every key set its transcript yields.",
     note="trusts synctest, simnet, the policy predicate (written from config.go's documentation) and the certs issuing API used to build identities",
     technique="enumerated configuration/fault matrix + property-based sampling (rapid) against a policy predicate",
     design="DESIGN.md section 4, C01")
