from props import prop

prop("C01", "fault_enumeration",
     "the counterpart is the real endpoint code configured with an inconsistent identity, described by attributes: chain "
     "(trusted / under an untrusted root / self-signed / unrelated intermediate presented / no intermediate presented), validity "
     "(valid / expired / not yet valid), certificate type (leaf / intermediate-typed presented as leaf), name (expected label / other "
     "label / same label other type), holds the certified private key or not (impostor), certified key in the judge's authorized-key "
     "set or not; the judging side's policy: trust store with/without the root, authorized keys allowed, InsecureSkipVerify, expected "
     "name (zero / matching / same label other type / other label), additional-verify callback (none / accepting / rejecting), and nil "
     "ClientVerify on the server. Enumerated: 2 modes x 2 directions x 27 counterpart kinds (each attribute deviating alone, plus "
     "combinations) x 96 policies; plus rapid-drawn arbitrary attribute/policy combinations. Runs over vlib/simnet inside a synctest "
     "bubble. Oracle (implication only): Client.Handshake()==nil => the server identity satisfies the client's policy and holds the "
     "certified key; discoverable: Accept offers a connection => the client identity satisfies the server's policy and holds its key; "
     "both modes: Handle.ReadMsg delivers data => same. Honest valid identities must be served (sanity). Non-trivial = counterpart is "
     "not the honest valid identity; distinct by (mode, direction, identity, policy). "
     "Family 'real clock' (rapid): VerifyConfig.CurrentTime is left zero on both sides, so validity is judged against the clock - the "
     "bubble's virtual clock; per case a fresh certificate world (root, intermediate, server leaf, 1-3 client leaves, some with their "
     "key in the server's authorized-key set) whose validity windows [start+a s, start+a+d s) begin and end while the case runs; ONE "
     "long-running server; a generated sequence of 1-6 handshakes (which client, preceded by a sleep of 0-70 virtual s; handshakes "
     "happen on half seconds, window edges on whole seconds), both modes, server policy CA store with/without authorized keys. "
     "Oracle per handshake, evaluated at its own virtual instant t: Handshake()==nil => server leaf valid at t; discoverable: Accept "
     "offers => client leaf valid at t (or authorized key); both modes: data delivered => same; sanity: both valid at t => "
     "handshake, accept and delivery succeed. Non-trivial = >=2 handshakes and some certificate invalid at one of them; the label "
     "'validity-of-one-identity-differs-between-handshakes' counts the cases where the same certificate is judged on both sides of "
     "a window edge. Family 'interrupted' (rapid): 1-6 goroutines enter ONE Client concurrently through Handshake / WriteMsg / Write "
     "/ ReadMsg / Read (all run the handshake first) with generated start delays; the server is absent (nothing reaches it), silent "
     "(no answer reaches the client), stops answering after its first handshake message, or is honest behind a one-way latency of "
     "0-200 ms; HSTimeout 0 / 50 ms / 2 s; 1-3 concurrent Close calls at a generated virtual time (0-3 s) or only after all callers "
     "returned; yield schedule (Gosched or virtual sleeps) at the verif-tagged points in Client.Handshake (elected, beforeOpen, "
     "beforeDone) and Client.Close (elected, connClosed, beforePublish). Oracle: ANY of these calls returning nil => the server's "
     "proving message (ServerAuth / ServerResponseHidden) had been delivered to the client's socket when the call returned (network "
     "log); no call panics; after Handshake()==nil a WriteMsg does not panic; sanity: honest reachable server, no early Close => the "
     "handshakers and writers succeed. Non-trivial = >=2 callers and Close at a generated time.",
     ["ML-KEM, X25519, Ed25519 and the duplex are not attacked by search; impostors are structural (valid certificate, other key)",
      "the policy predicate models the documented VerifyConfig semantics (authorized keys: leaf format + key in set; InsecureSkipVerify skips all chain and name checks; nil ClientVerify = no verification)",
      "in-flight garbage in MAC/tag fields and transplants are covered by C02's sweep"],
     [dict(name="matrix", pkg="transport", run="^TestVerifC01Matrix$", shards=dict(quick=16, thorough=16), timeout=dict(quick=900, thorough=3600)),
      dict(name="random", pkg="transport", run="^TestVerifC01Random$", shards=dict(quick=8, thorough=16), thorough_scale=60),
      dict(name="realclock", pkg="transport", run="^TestVerifC01RealClock$", shards=dict(quick=16, thorough=16), thorough_scale=20),
      dict(name="interrupted", pkg="transport", run="^TestVerifC01Interrupted$", shards=dict(quick=16, thorough=16), thorough_scale=20)],
     exhaustive_core=True,
     text="Enumerated matrix of counterpart kinds x verification policies x modes x directions run through the real handshake code, "
          "judged by a policy predicate over how each identity was constructed; rapid adds arbitrary attribute combinations, sequences "
          "of handshakes under the (virtual) real clock with certificates that become valid and expire while one server runs, and "
          "concurrent callers on one client whose handshake is interrupted by Close against an absent, silent or late server.",
     note="trusts synctest, simnet, the policy predicate (written from config.go's documentation) and the certs issuing API used to build identities",
     technique="enumerated configuration/fault matrix + property-based sampling (rapid) against a policy predicate",
     design="DESIGN.md section 4, C01")
