from props import prop

prop("C19", "fault_enumeration",
     "real transport.Server (white-box, in-package) over vlib/simnet inside a synctest bubble; every case owns its server, network "
     "and clock. (a) Stateless: rapid draws floods of 1..2000 client hellos from 1..500 source addresses (125 IPs x 4 ports): hellos of "
     "real Clients whose handshake is stalled by dropping their ServerHello, fresh valid hellos written by the real "
     "writePQClientHello and injected from arbitrary sources, byte-identical replays from the same / another address, corrupt copies "
     "(xor anywhere / in the header, truncated, extended), optionally with an established session already in the tables. Oracle: the "
     "length of every map, slice and channel of the Server struct (reflection; handshakes, sessions, pendingConnections, ...) is the "
     "same after every 128 hellos, at the end and after the stalled clients gave up; Accept offers nothing. Non-trivial = at least one "
     "hello was answered by a ServerHello (so it really was a valid hello). (b) Cookie binding, ONE client acknowledgement presented "
     "per case: the base exchange (A, K) is made either by a real Client whose ClientAck is captured in the filter, or by the harness "
     "driving the real message functions (writePQClientHello / readPQServerHello / writePQClientAck); the acknowledgement is presented "
     "from {A, same IP other port, other IP same port, both different} x {K, KEM field overwritten by another valid key, other key "
     "with the MAC recomputed from K's shared secret, K ALTERED IN EXACTLY ONE REGION of its 800-byte encoding - one bit or one byte "
     "at a drawn offset (biased to 0,1,2,383..385,766..769,798,799), or 4..400 bytes at the start / in the middle / at the end / "
     "across byte 768, rewritten so that the key stays acceptable to the key parser (the 12-bit coefficients of the first 768 "
     "bytes stay below the modulus, the trailing 32-byte seed is free) - with the KEM field overwritten resp. with transcript and "
     "MACs recomputed for the altered key} x {cookie intact, one cookie byte xored (every byte, ciphertext and tag "
     "region), cookie of another exchange: other address+key / same address other key / same key other address} x presented 0..115 s "
     "or 121..300 s (one or two key rotations) after the ServerHello x AGE OF THE SERVER when the cookie is minted (just started, or "
     "130 / 250 / 370 s resp. a drawn instant inside its 1st..6th key period, never within 2 s of a rotation instant), so that "
     "cookies minted after the first rotation and presented after a later one occur x WHAT THE SERVER IS DOING AROUND THE ROTATION "
     "INSTANTS between minting and presentation (per instant: nothing; a valid client hello from another address arriving 1..2500 ms "
     "before the instant whose ServerHello takes a drawn time to leave the socket (simnet write gate) - either finishing before the "
     "instant or still in progress at it, i.e. the hello handler holds the cookie key locked when the rotation falls due; a burst "
     "of 1..16 hellos at the instant itself; both). For the harness-driven base every altered acknowledgement "
     "carries a MAC that is consistent with what it presents, so only the cookie's binding stands between it and acceptance. Oracle: "
     "a ServerAuth datagram leaves the server, or a handshake/session entry appears, ONLY for (A, K, intact cookie, cookie key "
     "unchanged since minting - compared white-box - AND no rotation instant, every 120 s counted from the start of Serve, between "
     "minting and presentation: a key that is still held although its period is over is no longer the current key; signature "
     "cookie-accepted:rotation-overdue; within 1 s of a rotation instant only the key comparison is used). Non-trivial = any presentation that differs; distinct by case. (c) Hidden "
     "server with 1, 2 or 3 certificates (GetCertificate/GetCertList closures modelled on hopserver.NewHopServer), optionally with a "
     "live hidden session; ONE probe class per case: junk (17 first bytes x 20 lengths, hidden-request-shaped junk), each / all of "
     "the five valid discoverable messages captured from an honest run against another instance, a ClientAck whose cookie is sealed "
     "under the hidden server's own cookie key, transport/control/unknown-type datagrams with unknown and live session ids, replayed "
     "and altered authentic datagrams of the live session, a real client's request built for another KEM key, a valid request "
     "xored (every field) / truncated / extended in flight, held for 0 s..1 h, answered and then replayed 0 s..1 h later from the "
     "same or another address, or written by a client whose clock is 1 s..1 year ahead (own bubble), or WRITTEN BY THE HARNESS (a copy of "
     "writePQClientRequestHidden on the real primitives, self-tested against the real server) with a chosen value in the 64-bit "
     "time stamp field: server clock +/- {0,1,4,5,6,7,3600} s, 0, 1, 2^31, 2^32, 2^62, 2^63-1, 2^63, 2^64-1 and neighbours, server "
     "clock +/- 2^b for b in 8..63 with offsets -6..+6 (among them 2^63+clock-1, 2^63+clock, 2^63+clock+6), random 64-bit values "
     "and random high halves riding on the clock, each optionally presented again after 1 s..1 h from the same or another address "
     "(presentations are aligned to 100 ms past a whole second of the server's clock), AND UNDER A CHOSEN 4-BYTE HEADER - the header "
     "is the first thing both sides absorb, so all tags and MACs are computed over the header as sent: version byte 0, 2, 3, 5, 9, "
     "0x11, 0x21, 0x41, 0x7f, 0x80, 0x81, 0xfe, 0xff (rapid: any value) instead of the protocol's 1, and/or a certificates-length "
     "field that is off by +-1, -2, +-16, 255, +-256, 0x7fff, 0x8000, 0xffff, down to 0 (rapid: any 16-bit offset), with or without "
     "padding the datagram to the announced size (the hidden request has no reserved bytes: bytes 2..3 frame the message); two "
     "thirds of these carry a time stamp inside the window. Every datagram that leaves the "
     "server's address is attributed to the step before it. Oracle: nothing leaves the server except at most one "
     "ServerResponseHidden, to the source, per valid request that is delivered within the documented freshness window of 5 s "
     "(a constant of the harness, NOT read from the code's HiddenModeTimestampExpiration, so the oracle does not move with the "
     "code under test) of its time stamp; delays >= 6 s and clocks >= 6 s ahead must stay unanswered; a chosen stamp is read as the unsigned 64-bit number of "
     "seconds it is on the wire: at least 6 s behind or at least 6 s ahead of the server's clock at the presentation (first or "
     "repeated) must stay unanswered, 0..5 s behind may be answered once; a request whose header announces a version other than the "
     "protocol's (handshake_spec.md: type | Protocol Version | Certs Len; 'Only one version is supported') or whose length field does "
     "not frame the message is not well-formed and must stay unanswered at every presentation whatever its time stamp (signatures "
     "hidden-server-answered:unsupported-version-request / misframed-request); the band in between and byte-identical replays inside "
     "the window are labelled and not judged. Each case ends with an honest request from a new address (a dead server would be "
     "trivially silent). Non-trivial = every probe except a fresh valid request; distinct by case.",
     ["ML-KEM, X25519, SHA-3, Kravatte-SANSE and the Cyclist duplex are treated as ideal; alterations are structural",
      "server HandshakeTimeout 5 s, client HSTimeout 2 s, cookie rotation every 2 min, all on the virtual clock",
      "a socket send that is in progress at a rotation instant sleeps virtually up to the instant and then stays blocked for 4 ms of "
      "REAL time with the virtual clock standing still (a virtual sleep across the instant would freeze the bubble: the rotation "
      "goroutine waits for a sync.Mutex, which is not a durable block); whether the rotation goroutine reaches the lock within "
      "those 4 ms is up to the Go scheduler - the verdict does not depend on it on a correct server",
      "the cookie key's period is taken from handshake_spec.md ('K_r is a key that is rotated every N minutes') with N = 2 as in "
      "Server.Serve: a cookie is 'minted under the current key' only until the next multiple of 120 s of serving time; a server that "
      "keeps a key beyond its period and still accepts its cookies is reported (cookie-accepted:rotation-overdue)",
      "the hidden-mode freshness window is 5 SECONDS, taken from the documentation (the comment of HiddenModeTimestampExpiration in "
      "transport/common.go: '5 sec'; handshake_spec.md: the time stamp is time.Now().Unix(), i.e. whole seconds) and defined in the "
      "harness as its own constant; the code's constant is not referenced, so a change of its value, unit or type is judged "
      "against the documented 5 s (with the one-second margin on either side) instead of shifting the oracle",
      "future-stamped requests less than 6 s ahead and delays between 5 s and 6 s are not judged (clock-skew tolerance / second "
      "granularity are not fixed by the statement)",
      "while the process-killing findings panic:transport.(*Server).readPQClientRequestHidden:slice-bounds (any hidden-typed "
      "datagram that fails the FIRST certificate of a several-certificate server) and "
      "panic:transport.(*Server).handleSessionMessage:makeslice (8..47-byte datagram with a live session id) are listed open, "
      "their trigger shapes are redirected (single certificate / length + 48) and counted as excluded_by_construction"],
     [dict(name="cookie", pkg="transport", run="^TestVerifC19Cookie(Sweep|Random)$", shards=dict(quick=8, thorough=16), thorough_scale=60),
      dict(name="hidden", pkg="transport", run="^TestVerifC19Hidden(Sweep|Random)$", shards=dict(quick=8, thorough=16), thorough_scale=60),
      dict(name="stateless", pkg="transport", run="^TestVerifC19Stateless$", shards=dict(quick=8, thorough=16), thorough_scale=40)],
     text="Fault enumeration and random search against a real server on a simulated network with a virtual clock: hello floods with a "
          "white-box footprint of all server tables; one client acknowledgement per case presented from another address, under "
          "another key, with an altered or foreign cookie, or after cookie-key rotation (cookies minted in the server's 1st..6th key "
          "period; keys that differ from the client's key in a single region - down to its last bit; the server busy answering "
          "hellos over a slow socket when a rotation falls due); one probe class per case against a hidden "
          "server (among them correctly keyed requests with boundary values of the 64-bit time stamp field and their late replays, and "
          "correctly keyed requests sent under another protocol version byte or a length field that does not frame them) "
          "with the wire log of the server's address as the observation point.",
     note="trusts synctest, vlib/simnet (wire log), the white-box read of Server.handshakes/sessions/cookieKey; the cryptographic "
          "primitives are treated as ideal",
     technique="enumerated presentations / probe classes + rapid random cases on a simulated datagram network (synctest virtual time)",
     design="DESIGN.md section 4, C19")
