from props import prop

prop("C02", "fault_enumeration",
     "honest client and server (real transport code, vlib/simnet, synctest bubble) run a handshake while the adversary alters "
     "exactly one handshake datagram (discoverable: ClientHello, ServerHello, ClientAck, ServerAuth, ClientAuth; hidden: "
     "ClientRequestHidden, ServerResponseHidden): xor mask at EVERY byte offset (quick: masks 0x01/0x80, plus 0xff near the edges; thorough: every single-bit mask and "
     "0xff), truncation to a length (quick: every 5th length plus edges; thorough: every length), truncation after the complete "
     "datagram was first sent to the server from a third address (primes its shared read buffer), removal of the last byte of a datagram whose "
     "last byte EQUALS what the receiver's buffer already holds at that offset (a receiver that parses past the received length is fooled exactly "
     "then; the client's buffer cannot be primed - it reads one datagram per step - and message bytes cannot be chosen, so the harness chooses the "
     "HANDSHAKE: for every message of both modes and both receivers up to 2400 successive handshakes of fresh clients run against one server, the "
     "harness keeps an image of the receiver's buffer (client: every datagram it wrote or read, from offset 0; server: every datagram it read), "
     "lets each handshake whose target datagram does not end in the residue complete unaltered - it must, with fresh keys - and truncates the first "
     "one that does: 1 in 256, a miss has probability 0.01 % and is labelled), extension by 1/16 bytes (informational only - the statement does not cover "
     "trailing additions), replacement by the same-numbered datagram of another handshake (same / other client identity), "
     "and - for every datagram that carries a session id (ServerAuth, ClientAuth, ServerResponseHidden) - the four id bytes overwritten with the id of "
     "ANOTHER session living on the same server (an established session of the same / another client, or a half-open handshake "
     "whose ClientAuth was lost; the id is read off the wire); plus rapid-drawn random alterations. Certificate policy is a dimension of its own: the "
     "datagrams that carry certificates (whose processing depends on the receiver's policy) are swept again (every offset x 0x01/0x80, edge "
     "truncations, transplants, session-id overwrites) with the receiving client set to skip-verify / authorized-keys and the receiving server to "
     "skip-verify / authorized-keys / no client verification (thorough: also authorized-keys-else-CA-store and CA-store+callback); the random unit "
     "draws both parties' policies in every case. Oracle: the party receiving the altered datagram does not complete (client: Handshake "
     "returns an error; server: no established session offered by Accept); whenever both sides complete: equal session id, equal "
     "directional keys, c2s != s2c, non-zero, and no key ever repeats within the process; an already completed other session keeps the keys both of its "
     "parties agreed on. A violation found under a non-default policy of the completing party is re-run under the default policies: the "
     "signature names the policy only if the default policy rejects the same alteration. Non-trivial = an altered run; distinct "
     "by (mode, message, kind, offset, mask, length, identity, policies). "
     "Send faults and retries are a dimension of their own (unit retry, enumerated completely): sequences of 2 and 3 handshake attempts of fresh clients "
     "against ONE server on an otherwise faithful network; in the first (and optionally the second) attempt exactly one handshake datagram of either party "
     "- every datagram of both modes - is not sent: the socket write returns an error (simnet write gate, ENOBUFS) or the datagram is lost; the next "
     "attempt is a completely new handshake from the SAME address (the server may still track the failed attempt) or another address, with the same or the "
     "other client identity, immediately / 2.5 s / 6 s after the previous attempt ended (client HSTimeout 2 s, server HandshakeTimeout 5 s: within and after "
     "the timeout). Attempts run one after the other to quiescence, so the sessions the server offers to Accept during attempt i are its completions of "
     "handshake i. Oracle: if the client of attempt i reports success, every session the server completed during that attempt holds the client's session "
     "id and directional keys; a matching pair exchanges one message each way through the public API (client WriteMsg -> handle ReadMsg and back); all keys "
     "of all completed sessions of the sequence are non-zero, direction-separated and never repeat; an unfaulted FIRST handshake completes on both sides "
     "(retries that the server refuses are only labelled). Non-trivial = a sequence in which a fault was applied and a retry ran.",
     ["ML-KEM, X25519, Ed25519 and the Cyclist duplex are not attacked by search; alterations are structural",
      "client HSTimeout 2 s / server HandshakeTimeout 5 s (virtual) turn a dropped continuation into an error"],
     [dict(name="sweep", pkg="transport", run="^TestVerifC02Sweep$", shards=dict(quick=16, thorough=16), timeout=dict(quick=900, thorough=7200)),
      dict(name="random", pkg="transport", run="^TestVerifC02Random$", shards=dict(quick=8, thorough=16), thorough_scale=600),
      dict(name="retry", pkg="transport", run="^TestVerifC02Retry$", shards=dict(quick=8, thorough=8))],
     exhaustive_core=True,
     text="Fault enumeration over the handshake wire: one altered datagram per run, enumerated over messages x offsets x masks / "
          "truncation lengths / transplants / session ids of other live sessions, under each certificate policy of the receiver, with white-box comparison of the session keys of every completed pair.",
     note="trusts synctest, simnet, the white-box read of SessionState; cryptographic primitives are treated as ideal",
     technique="enumerated fault injection on generated handshakes (one altered datagram per run) + rapid random alterations",
     design="DESIGN.md section 4, C02")
