from props import prop

prop("C20", "exploration",
     "exhaustive: every pattern over {a,b,*} of length 0..6 x every input over {a,b} of length 0..7 (thorough: 0..8 / 0..9); "
     "random pairs over {a,b,c,.,-,*} up to length 40, half built by instantiating the pattern's stars and then perturbed; "
     "host-block lists and vhost lists over the same pattern space; SEQUENCES of 1..6 lookups on ONE client configuration "
     "(Global + 0..5 blocks each setting a drawn subset of Hostname/User/Key/Cmd/Port/CAFiles/AutoSelfSign; built as a "
     "struct literal or rendered to TOML and read by LoadClientConfigFromFile from a map file system), hosts repeating "
     "now and then, the caller using each returned block as flags.mergeClientFlagsAndConfig does (assign address / "
     "command fields, MergeWith a second lookup, Unwrap). Oracle: dynamic-programming glob reference (star = any "
     "string, everything else literal), cross-checked against path.Match at start-up; MatchHost must merge exactly the "
     "matching blocks in order, VirtualHosts.Match must return the first matching entry; in a sequence every lookup must "
     "equal the model merge AND the same lookup on a newly built copy of the configuration, the configuration object "
     "must read the same as a never-used copy after every lookup and after the caller's use of the result, and a block "
     "handed out earlier and not touched by the caller must still read as when returned. Non-trivial (sequences) = >= 2 "
     "lookups with >= 2 different sets of applied blocks, one of which sets an option. Non-trivial (others) = pattern with both a "
     "star and a literal, or empty input with a non-empty pattern; distinct by (pattern,input) / list hash.",
     ["matching is byte-wise, case-sensitive (as the package documents by its commented-out fold option)"],
     [dict(name="glob", pkg="pkg/glob", run="^TestVerifC20", shards=dict(quick=8, thorough=16), thorough_scale=20),
      dict(name="config", pkg="config", run="^TestVerifC20", shards=dict(quick=2, thorough=8), thorough_scale=20),
      dict(name="hopserver", pkg="hopserver", run="^TestVerifC20", shards=dict(quick=2, thorough=8), thorough_scale=20)],
     exhaustive_core=True,
     text="The real Glob is compared with a dynamic-programming reference on every pattern/input pair of a small alphabet up to "
          "length 6/7 (exhaustive) and on random longer pairs built to match or nearly match; MatchHost and VirtualHosts.Match "
          "are compared with the reference applied to generated block / vhost lists; sequences of lookups on one configuration "
          "object (literal or parsed from TOML) must each equal the lookup on a new copy and leave the object unchanged. "
          "Panics are caught and reported.",
     note="trusts the DP reference (cross-checked against path.Match at start-up) and rapid",
     technique="property-based testing (rapid) + exhaustive small-alphabet enumeration against a reference matcher",
     design="DESIGN.md section 4, C20")
