from props import prop

prop("C20", "exploration",
     "exhaustive: every pattern over {a,b,*} of length 0..6 x every input over {a,b} of length 0..7 (thorough: 0..8 / 0..9); "
     "random pairs over {a,b,c,.,-,*} up to length 40, half built by instantiating the pattern's stars and then perturbed; "
     "host-block lists and vhost lists over the same pattern space, a host block having 1..3 patterns or - one time in five - NO "
     "pattern at all (nil list = [[Hosts]] table without a Patterns key, or empty list = 'Patterns = []') at any position, "
     "the empty string being a pattern like any other and the empty host being asked now and then (reference: a block applies "
     "iff at least one of its patterns matches; a block without patterns matches nothing); SEQUENCES of 1..6 lookups on ONE client configuration "
     "(Global + 0..5 blocks each setting a drawn subset of Hostname/User/Key/Cmd/Port/CAFiles/AutoSelfSign; built as a "
     "struct literal or rendered to TOML and read by LoadClientConfigFromFile from a map file system), hosts repeating "
     "now and then, the caller using each returned block as flags.mergeClientFlagsAndConfig does (assign address / "
     "command fields, MergeWith a second lookup, Unwrap). Oracle: dynamic-programming glob reference (star = any "
     "string, everything else literal), cross-checked against path.Match at start-up; MatchHost must merge exactly the "
     "matching blocks in order, VirtualHosts.Match must return the first matching entry; in a sequence every lookup must "
     "equal the model merge AND the same lookup on a newly built copy of the configuration, the configuration object "
     "must read the same as a never-used copy after every lookup and after the caller's use of the result, and a block "
     "handed out earlier and not touched by the caller must still read as when returned. SERVER CALLBACKS: a server built by the "
     "real hopserver.NewHopServer (real UDP socket on 127.0.0.1, Serve not started) from a generated configuration (0..5 Names "
     "blocks + optional server-level certificate = trailing '*' host, 0..2 HiddenModeVHostNames; patterns free over "
     "{a,b,*,.,1,f,6,NUL,0xff,0xc3,0x80,0x7f}, or cut out of a requested label, or cut out of a PRINTED form of a requested label: "
     "hex dump / dotted or colon address); the GetCertificate / GetCertList closures it installed are read out of the transport "
     "server (reflection) and called with 1..4 requested names: every type byte 0..255 (raw, DNS, IPv4, IPv6, unassigned), labels "
     "of arbitrary bytes (not UTF-8, NUL, '*'), nil / empty, 4 and 16 bytes long. Oracle: no panic; the certificate returned is that "
     "of the FIRST virtual host whose pattern glob-matches the label bytes (reference), none plus an error when no pattern matches; "
     "GetCertList returns the first matching host of every hidden-mode name in order (not judged when there are more names than "
     "hosts). Non-trivial (callbacks) = unassigned type, or the first match is not host 0, or a printed form of the label would "
     "select another host. Non-trivial (sequences) = >= 2 "
     "lookups with >= 2 different sets of applied blocks, one of which sets an option. Non-trivial (others) = pattern with both a "
     "star and a literal, or empty input with a non-empty pattern; distinct by (pattern,input) / list hash.",
     ["matching is byte-wise, case-sensitive (as the package documents by its commented-out fold option)",
      "the requested name is matched by its label bytes whatever its type byte says (VirtualHosts.Match: 'This only does raw string "
      "matching'); the server callbacks are reached through the unexported field transport.Server.config (white-box, reflection)"],
     [dict(name="glob", pkg="pkg/glob", run="^TestVerifC20", shards=dict(quick=8, thorough=16), thorough_scale=20),
      dict(name="config", pkg="config", run="^TestVerifC20", shards=dict(quick=2, thorough=8), thorough_scale=20),
      dict(name="hopserver", pkg="hopserver", run="^TestVerifC20", shards=dict(quick=2, thorough=8), thorough_scale=20)],
     exhaustive_core=True,
     text="The real Glob is compared with a dynamic-programming reference on every pattern/input pair of a small alphabet up to "
          "length 6/7 (exhaustive) and on random longer pairs built to match or nearly match; MatchHost and VirtualHosts.Match "
          "are compared with the reference applied to generated block / vhost lists; sequences of lookups on one configuration "
          "object (literal or parsed from TOML) must each equal the lookup on a new copy and leave the object unchanged; host "
          "blocks without patterns occur at every position; the certificate callbacks installed by the real NewHopServer are "
          "called with requested names of every type byte and arbitrary label bytes and must choose the first matching host. "
          "Panics are caught and reported.",
     note="trusts the DP reference (cross-checked against path.Match at start-up) and rapid",
     technique="property-based testing (rapid) + exhaustive small-alphabet enumeration against a reference matcher",
     design="DESIGN.md section 4, C20")
