from props import prop

prop("C14", "exploration",
     "rapid draws histories of 1..3000 counter probes (<2^63): absolute edge counters, top±delta, last±delta, revisits; each "
     "probe is check-and-mark or check-only; plus every check-and-mark history of length<=3 over a 40-value edge alphabet "
     "followed by re-probes (exhaustive sub-space). Oracle: set+max model from the statement, compared at every step. "
     "Non-trivial = history that contains a probe of an already accepted counter AND a forward jump into another 64-block "
     "(random part), or any enumerated history; distinct by hash of the whole history. Session unit: the same generated histories "
     "through the real SessionState.readPacketLocked - every probe is a sealed packet with that counter, genuine (check-and-mark) or "
     "with one ciphertext bit flipped (fails authentication); it is returned iff genuine and fresh by the reference filter over the "
     "counters of ACCEPTED packets only. Server unit: histories of 2..400 such probes (same probe generator) sent as datagrams to a "
     "real serving Server with an established session (real handshake over simnet in a synctest bubble, discoverable or hidden), "
     "each from a drawn SOURCE ADDRESS (handshake address, same host other port, two other hosts, same host in the other address "
     "byte form; the peer mostly stays and now and then moves or moves back; three address families), in bursts of 1..16 datagrams, "
     "through the real read loop and Server.handleSessionMessage; the application reads the Handle with ReadMsg. A probe is handed to "
     "the application (exactly once, with its own payload) iff it is genuine and fresh by the reference filter over the accepted "
     "counters, whatever address it or earlier packets came from. Non-trivial (server unit) = an already accepted counter is probed "
     "after a packet was accepted from a changed source address AND the history contains forged packets.",
     ["counters stay below 2^63 as the property states", "Mark is only called after a successful Check (as readPacketLocked does)"],
     [dict(name="rapid", pkg="transport", run="^TestVerifC14Random$", shards=dict(quick=8, thorough=16), thorough_scale=100),
      dict(name="enum", pkg="transport", run="^TestVerifC14Exhaustive$", shards=dict(quick=4, thorough=4)),
      dict(name="session", pkg="transport", run="^TestVerifC14Session$", shards=dict(quick=8, thorough=16), thorough_scale=50),
      dict(name="server", pkg="transport", run="^TestVerifC14Server$", shards=dict(quick=8, thorough=16), thorough_scale=25)],
     exhaustive_core=True,
     text="Model-based search: the real SlidingWindow is compared step by step with a set+max model over generated histories "
          "(edge-biased, up to 3000 probes) and over an exhaustively enumerated short-history sub-space. Absence is not shown; "
          "a counter-example would need a history shape outside the generated families.",
     note="trusts the set+max model (10 lines, written from the statement) and rapid; counters < 2^63",
     technique="property-based testing (rapid) against a reference model + bounded exhaustive enumeration",
     design="DESIGN.md section 4, C14")
