from props import prop

prop("C12", "exploration",
     "rapid draws sessions: key length 1..199 (every length, edge-biased) and key bytes; 1..6 messages sealed by one instance and "
     "opened by another, plaintext/associated-data lengths from {0,1,7,8,31,32,33,199,200,201,399,...,1601} and random, 5% up to "
     "66000 bytes; each message in a drawn buffer layout (dst nil / in place / appended into a live buffer / ad and plaintext "
     "sharing a backing array / in place behind a live prefix / the same with the prefix being the associated data, the record "
     "idiom of crypto/tls); up to 8 tampered variants per session (bit flip in body, tag or ad; truncation; extension), each "
     "presented to a clone of the opener's state IN A DRAWN BUFFER LAYOUT TOO (dst nil / appended behind a live prefix into spare "
     "capacity / in place behind a live prefix / prefix = associated data). Oracles: Open(Seal(P,A),A)=P; ciphertext and tag "
     "byte-equal to an independent Farfalle/Kravatte-SANSE reference (whole-message, byte-array Keccak-p[1600,6], anchored to the "
     "repository's XKCP vectors and SHA3-256); every tampered variant rejected; caller buffers outside the result untouched: after "
     "Seal and after a successful Open the plaintext/ciphertext/associated-data arguments that are not the destination, the live "
     "prefix dst[:len(dst)] and the bytes past the result are unchanged; after a REJECTED Open everything except the spare capacity "
     "dst[len(dst):cap(dst)] (which cipher.AEAD allows Open to overwrite even on failure) is unchanged - the live prefix, the "
     "associated data, a ciphertext in an array of its own, the bytes past the capacity. Exhaustive sub-spaces: all 19900 "
     "(key length, key byte) pairs must change the output - also when the byte is changed IN PLACE in the caller's key buffer and a "
     "new instance is made from that same buffer (it must seal like an instance made from a fresh copy of the changed key); every single-bit flip of tag, body and ad for 16 short shapes (layouts "
     "rotated over the bit index). One tamper in six is LIVE: the forged copy is presented to the "
     "session's own opener in place of the genuine message and to a reference instance alike, and the session goes on - every later "
     "message must be accepted or rejected as the specification's instance does (out of step after most rejections, still in step "
     "when nothing of the forged message entered the history). Raw deck "
     "function: arbitrary chunking of inputs/outputs equals the reference. Non-trivial = crosses a 200-byte block, or key length "
     "!= 16, or multi-message session, or aliased layout; distinct by case hash.",
     ["key lengths 1..199 as the property states (0 and >=200 are rejected / out of contract)",
      "dst overlaps plaintext exactly or not at all (cipher.AEAD contract); associated data never overlaps the area Seal/Open "
      "append to (it may be the live prefix dst[:len(dst)], as crypto/tls passes its record header)",
      "cipher.AEAD's 'even if the function fails, the contents of dst, up to its capacity, may be overwritten' is read as the "
      "spare capacity dst[len(dst):cap(dst)]: Open appends, the bytes already in dst belong to the caller",
      "the reference implementation is mine; its anchors are kravatte/testdata/xkcp.txt, xkcp-sanse.txt and crypto/sha3"],
     [dict(name="sessions", pkg="kravatte", run="^TestVerifC12(Sessions|Deck)$", shards=dict(quick=12, thorough=16), thorough_scale=50),
      dict(name="sweeps", pkg="kravatte", run="^TestVerifC12(TamperSweep|KeySweep)$", shards=dict(quick=8, thorough=8))],
     exhaustive_core=True,
     text="Differential and metamorphic search: generated SANSE sessions run on the real AEAD and on an independent reference "
          "anchored to published vectors; round trip, byte equality with the reference, rejection of every tampered variant and "
          "buffer hygiene are checked per message. Key-byte sensitivity is enumerated exhaustively for all key lengths; bit-flip "
          "rejection exhaustively for short shapes.",
     note="trusts the reference (anchored to XKCP vectors + SHA3-256 of the standard library), rapid; assembly permutation only "
          "(the tree has no pure-Go 6-round permutation)",
     technique="property-based differential + metamorphic testing (rapid) with exhaustive key-byte and bit-flip sweeps",
     design="DESIGN.md section 4, C12")
