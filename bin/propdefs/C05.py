from props import prop

prop("C05", "exploration",
     "Layer 1 (direct, in-package, no network). rapid draws a history of 1..24 operations on one HopServer (users: a per-history cast drawn from alice, bob, ghost = no passwd entry, "
     "and NEAR-COLLISIONS of these names - Alice, ALICE, 'alice ' (trailing blank), 'alice\\x00', Bob, sam / long-s 'am' (U+017F) - each a distinct "
     "account with its own home directory and file; two thirds of the histories play with two or three names of one such family, so that what "
     "is listed or granted for one name is asked for as the other; the model keys files and grants by the exact string; four fixed X25519 keys): write a user's authorized_keys file from a line grammar (canonical entry, "
     "entry with surrounding blanks, blank, whitespace, comment incl. commented-out entry, wrong prefix, truncated / over-long / "
     "non-base64 payload, 31- and 33-byte key, line > 64 KiB, trailing text, two entries on one line, arbitrary bytes, BOM, "
     "BUFFER-ALIGNED line = ONE physical line holding 2..3 valid entries of different fixture keys padded with blanks or tabs so that entry i "
     "starts exactly at byte i*P of the line, P in {4096, 8192, 65536, 512, 1024} (the sizes in which bufio readers / scanners hand out or "
     "grow their data; last piece padded to P or not) - the format is line based, one entry per physical line, so the reference parser reads "
     "it as one malformed entry that lists none of the embedded keys, and logins present each of them; LF or "
     "CRLF; with or without final newline), remove it, put a directory in its place, switch authgrants on/off, add a grant "
     "(user, key, type, times), log in (the decision sequence of hopSession.checkAuthorization executed with the real AuthorizeKey / "
     "AuthorizeKeyAuthGrant), or call AuthorizeKeyAuthGrant on its own. A third of the logins do not present a fixture key but a key "
     "DERIVED from a line of a file the history wrote earlier (mostly the user's own current or removed file, preferring its lines that "
     "are not canonical entries): the 32 bytes an over-lenient parser could read out of that line - payload taken after the first / "
     "the last occurrence of the prefix, after the prefix in any case with an optional dash, or as the longest run of base64 characters "
     "(no prefix); decoded as the leading base64 run without asking for padding or a whole quantum, with every non-base64 character "
     "skipped, or by the standard decoder with its error ignored; fitted to 32 bytes by zero-padding / cutting on the right or on the "
     "left (so: zero-padded truncated and 31-byte payloads, the first 32 of 33 or 64 bytes, the key of a commented-out, BOM-prefixed, "
     "wrong-prefix or trailing-text entry, the second key of a two-entry line); the derived key is judged like any other. "
     "Oracle after every step: granted => the key is a well-formed "
     "entry of THAT user's current file (reference parser over the file bytes, written from the documented text format) or "
     "authgrants are enabled and an unconsumed grant for exactly (user, key) is in the model; a grant login consumes the pair's "
     "grants, returns exactly those, and the key leaves the transport key set once no stored grant names it; converse only for a "
     "file consisting solely of canonical entries that lists the key, and for a stored grant with authgrants enabled; at the end "
     "the server's grant map is drained and compared with the model. Non-trivial = history containing a login where the file is "
     "missing / unreadable / empty / malformed / lists only other keys / belongs to no user, or a login after the pair's grant was "
     "consumed; distinct by hash of the whole history. Units e2e and concurrent are shared with C07: the real hopSession login over a "
     "simulated transport (login confirmed only with a file entry or a stored grant), and real goroutines racing "
     "AuthorizeKeyAuthGrant for one stored grant (an unconsumed grant admits one login, not two; also under the race detector) or storing "
     "grants for one pair at the same time (every stored grant comes out exactly once). Units concurrent-login (plain and under the race "
     "detector): 2..8 real goroutines (spin barrier, drawn Gosched counts) log in at the same time, 20..300 times each, as 2..4 DIFFERENT "
     "accounts (often near-collisions of one name) plus the ghost, whose files list different keys - half of the cases give every account a "
     "file of the same shape and length with its own keys, the others independent files from the line grammar or none; nothing changes and no "
     "grant exists while they run, and every decision is judged like in layer 1 (granted => well-formed entry of THAT user's file; refused "
     "=> not a canonical file listing the key), after a sequential pass over the same logins; non-trivial there = at least two goroutines and "
     "a login with a key that is listed for another account of the case only.",
     ["'login' is the decision sequence of checkAuthorization as read in hopserver/session.go, re-stated in the harness "
      "(verifAuthzLogin); the real hopSession over a transport is layer 2",
      "well-formed entry = optional surrounding white space + 'hop-dh-v1-' + padded standard base64 of exactly 32 bytes, one per "
      "line (DHPublicKey.String / ParseDHPublicKey / ParseAuthorizedKeys doc comments)",
      "home directories are /home/<user>; unreadable = directory in place of the file (fstest.MapFS has no permission bits)"],
     [dict(name="model", pkg="hopserver", run="^TestVerifC05Login$", shards=dict(quick=8, thorough=16), thorough_scale=100),
      dict(name="e2e", pkg="hopserver", run="^TestVerifC07EndToEnd$", shards=dict(quick=16, thorough=16), thorough_scale=20, timeout=dict(quick=900, thorough=3600)),
      dict(name="concurrent", pkg="hopserver", run="^TestVerifC07ConcurrentAdmission$", shards=dict(quick=8, thorough=16), thorough_scale=20),
      dict(name="concurrent-race", pkg="hopserver", race=True, run="^TestVerifC07ConcurrentAdmission$", shards=dict(quick=4, thorough=8), thorough_scale=10),
      dict(name="concurrent-login", pkg="hopserver", run="^TestVerifC05ConcurrentLogin$", shards=dict(quick=6, thorough=16), thorough_scale=20),
      dict(name="concurrent-login-race", pkg="hopserver", race=True, run="^TestVerifC05ConcurrentLogin$", shards=dict(quick=4, thorough=8), thorough_scale=10)],
     text="Model-based search: generated histories of authorized_keys edits, grant additions, authgrant switches and logins run on a "
          "real HopServer (in-memory file system, stubbed passwd lookup) and on a reference model written from the statement; every "
          "login decision is compared with 'listed or live grant'. Absence is not shown; layer 1 does not run the transport or the "
          "user-auth tube.",
     note="trusts the reference parser (30 lines, self-tested against DHPublicKey.String and every grammar production) and rapid; "
          "checkAuthorization's sequence is re-stated in the harness",
     technique="stateful property-based testing (rapid) against a reference model",
     design="DESIGN.md section 4, C05 (layer 1)")
