from props import prop

prop("C10", "fault_enumeration",
     "a real transport endpoint (vlib/simnet, synctest bubble) is put into a drawn state and configuration and receives a junk "
     "sequence; target server: idle / handshake in progress with the client's ClientAck or ClientAuth held back in the network / "
     "1-3 established sessions (some with the server-side handle already closed) / closing (Close racing the second half of the "
     "junk); target client: handshaking (every junk datagram meets its own fresh client whose 1st or 2nd reply from the server is "
     "held back; the junk arrives before or instead of it) / open session. Configurations: one certificate, or 2-3 virtual hosts "
     "through a GetCertificate + GetCertList pair that mirrors hopserver.NewHopServer's closures (first glob match wins, optional "
     "'*' fallback host, optional first host without KEM key), discoverable or hidden. Junk (1-200 datagrams, Net.Inject from the "
     "peer's own address or third addresses; against a client from the server's address or third addresses): random bytes of "
     "length 0..65535 biased to 0..60 and to the exact lengths of valid messages; every valid message of an honest discoverable "
     "and hidden run (captured once per process) and the most recent datagrams of THIS case's honest traffic (including the "
     "held-back message) with one header field mutated (type byte, bytes 1/2/3 = version/reserved, certificate-length field in "
     "{0,1,0xffff,len-1,len+1}, counter), bytes 4..8 replaced by a live / unknown session id, truncated to a drawn length or "
     "padded; the length field (bytes 2..3) set to a drawn value N AND the datagram resized so that field and real length AGREE "
     "(for every message type that carries a length field - ServerAuth, ClientAuth, ClientRequestHidden, ServerResponseHidden - "
     "on any template, the type byte optionally replaced by one of those; N, taken as the field value or as the length of the whole "
     "datagram, drawn around every size constant of the package: 0, 2^8, 2^14, 2^15, MaxPlaintextSize, MaxTotalPacketSize, 65507, "
     "65535 +-2, uniformly in 0..65535 and in MaxTotalPacketSize-4096..65535, or the message's own value -16..+2; exact or off by "
     "-1/+1/+17); bare public headers "
     "(type 0x10/0x80/other + live or unknown session id) with 0..64 body bytes; transport / control / unknown-type datagrams "
     "built by the real sealing code (SessionState.sealPacketLocked) under a key that needs no secret (all-zero, all-0xFF, the "
     "session id repeated, 00 01 02.., the protocol name, 16 public bytes of the most recent handshake datagram; a random key as "
     "control) with counter 0 / 1 / highest seen on the wire for that id +1 / that highest one again / random / 2^64-1 and 0..1400 "
     "plaintext bytes (a 1-byte control plaintext is a Close), naming an established, closed, PENDING (allocated by a ClientAck, "
     "handshake not finished) or unknown session id; and honest protocol "
     "speakers with hostile parameters: clients whose VerifyConfig.Name is empty / 252 / 253 bytes / unknown id type / glob "
     "metacharacters / other hosts, a white-box client that puts arbitrary bytes (block size, id type, label length, label) into "
     "the encrypted server-name field of a ClientAck with a valid cookie, hidden-mode clients configured with each of three "
     "certificates' KEM keys, and white-box peers that run the unauthenticated part of the key exchange and therefore CHOOSE THE "
     "PLAINTEXT of the encrypted certificate field with a correct tag (ClientAuth after an honest ClientHello/ClientAck against "
     "discoverable servers; hidden requests made with the public KEM key of each virtual host against every server): 0..63000 "
     "bytes of genuine certificate vectors / random bytes / random bytes in well-formed vectors, the first and the second 16-bit "
     "vector length prefix kept or set relative to the room that is left (fills it exactly, 1/2/3 bytes past it, room for an empty "
     "second vector, 0, 0xffff) - the vectors are split and handed to the certificate parser before the peer is authenticated. Oracle: the process survives (a panic in the Serve / listen / handshake goroutines kills it; the "
     "driver recovers the case from the current-*.json file); a handshaking client's Handshake returns; Server.Close returns; no "
     "goroutine is left after closing everything; afterwards an honest handshake from a FRESH address (aimed at a drawn virtual "
     "host) completes and carries one message each way; every session established before the junk and not closed by its owner "
     "still carries a message each way. The sweep enumerates every truncation length of each of the 10 captured messages x "
     "{original first byte, each other valid type byte} x {bytes 4..8 kept, live session id} against 7 server "
     "state/configuration pairs and 5 client states; then, against the same 12 scenarios, every message type with a length field "
     "(table message and the case's own most recent message of that type) x consistent resize to each of the 22 boundary values "
     "x {field value, datagram length} x {exact, -1, +1} and the message's own vector -2..+2 bytes (resized, and field alone; one "
     "case per datagram against a server with a handshake in progress), every chosen-plaintext certificate field {first prefix "
     "position x 9, second x 6} x {genuine, random} x {natural, 8, 300 bytes} as ClientAuth / hidden request, and every sealed shape {Transport, Control, 0x11} x 6 guessable keys x "
     "3 counters x {pending-or-first-live, second live, unknown id} x {1, 16} plaintext bytes. Unit 'stress' (REAL time, outside "
     "any bubble - inside a bubble a timer callback never overlaps packet processing): a real Server on simnet with 1-2 honest "
     "sessions, its HandshakeTimeout set to 1..10 ms (white-box, under the server's table lock; 3 s while honest handshakes run), "
     "1-3 goroutines that walk through ClientHello/ClientAck from ever new addresses and abandon the handshake (150-600 per case; "
     "each leaves a timeout callback behind) and 1-4 goroutines that stream transport / control / 0x11-typed datagrams (bodies "
     "0..100 bytes, every 32nd sealed under the all-zero key) naming established, pending (read from the ServerAuth) and unknown "
     "session ids, paced by the server socket's backlog, optionally with Server.Close in the middle; then the same oracle "
     "(honest handshake from a fresh address + a message each way, established sessions carry a message each way, Close "
     "returns). Slowness is never a violation there: a failed or unfinished oracle (or a receive loop seen waiting for a mutex "
     "twice in a row) only starts the PROOF - goroutine dumps over 8 s (longer than every timeout in the unit): the same "
     "goroutine of the receive loop / the caller of Close waits for a sync.Mutex/RWMutex at the same frames in every dump and no "
     "goroutine is runnable or sleeping inside the code under test in at least 2/3 of the dumps -> "
     "C10:endpoint-wedged:<mutex waiters>:real-time-stress; otherwise the case is inconclusive. "
     "Non-trivial = at least one structured (derived-from-valid or "
     "hostile-parameter) datagram aimed at a non-idle state (stress: >= 20 abandoned handshakes and >= 1000 session-typed "
     "datagrams); distinct by (target, state, configuration, set of datagram classes). "
     "The exhaustive flag refers to the sweep in the thorough tier only, and only when no datagram of it had to be excluded "
     "because of an open finding (quick: handshaking clients see server-sent messages with the types a client reads and only "
     "the first 64 bytes of client-sent messages). Trigger classes of process-killing findings "
     "that are listed open are excluded by construction and counted (excluded_by_construction / labels excluded:<sig>).",
     ["junk is never authentic for a live session: no datagram sealed with a live session's keys is injected (the only messages "
      "that may legitimately end a session); replays of already delivered genuine datagrams are included; datagrams sealed under "
      "keys that need no secret are junk (a session key equals one of them with negligible probability)",
      "stress unit: the wedge proof trusts the goroutine dump (wait reasons sync.Mutex.Lock / sync.RWMutex.RLock / .Lock; parser "
      "self-tested on a parked goroutine at the start of the test); changing HandshakeTimeout on a running server is a harness "
      "device (the field is only read under the table's write lock, where the harness writes it)",
      "the probe handshake comes from a fresh address (a half-open handshake legitimately blocks its own address until "
      "HandshakeTimeout) and the application keeps calling Accept (as hopserver does), so the pending-connections queue is never full",
      "a case lasts < 2 virtual minutes (no cookie-key rotation inside a handshake); client HSTimeout 2 s, server HandshakeTimeout 5 s",
      "the several-certificates configuration re-implements the two closures of hopserver.NewHopServer inside package transport "
      "(hopserver cannot be imported by an in-package test of transport) over the real pkg/glob matcher",
      "the valid-message table is captured from a server instance with the same certificates but its own cookie key and session ids; "
      "live values come from the case's own traffic"],
     [dict(name="random", pkg="transport", run="^TestVerifC10Random$", shards=dict(quick=16, thorough=16), thorough_scale=60, timeout=dict(quick=900, thorough=7200)),
      dict(name="sweep", pkg="transport", run="^TestVerifC10Sweep$", shards=dict(quick=16, thorough=16), timeout=dict(quick=900, thorough=7200)),
      dict(name="stress", pkg="transport", run="^TestVerifC10Stress$", shards=dict(quick=4, thorough=4), thorough_scale=20, timeout=dict(quick=900, thorough=3600)),
      dict(name="fuzz", kind="fuzz", pkg="transport", targets=["FuzzVerifC10ServerDatagram", "FuzzVerifC10ClientDatagram"], fuzztime=120, thorough_only=True)],
     exhaustive_core=True,
     text="Hostile-datagram search against real transport endpoints under a virtual clock: generated junk sequences (random, "
          "truncated / field-mutated valid messages, copied public headers, hostile server names, hidden requests for every "
          "certificate) hit servers and clients in every state and configuration; crash, liveness of established sessions and "
          "success of a later honest handshake are checked; plus an enumerated sweep of every truncation x type byte, of "
          "consistently resized length fields at every buffer-size boundary and of datagrams sealed under guessable keys; plus a "
          "real-time stress unit (abandoned handshakes with a millisecond handshake timeout racing session-typed datagrams) whose "
          "only verdict is a deadlock proven from goroutine dumps.",
     note="trusts testing/synctest, simnet, the re-implemented vhost closures and (stress unit) the runtime's goroutine dump; cryptography is not attacked (junk never carries a valid AEAD tag for a live session)",
     technique="structured fuzzing / property-based testing (rapid) of datagram sequences + enumerated truncation, type-byte, length-boundary and guessable-key sweep; generated real-time stress schedules with a deadlock-proof oracle; native fuzzing in the thorough tier",
     design="DESIGN.md section 4, C10")
