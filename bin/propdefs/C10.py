from props import prop

prop("C10", "fault_enumeration",
     "a real transport endpoint (vlib/simnet, synctest bubble) is put into a drawn state and configuration and receives a junk "
     "sequence; target server: idle / handshake in progress with the client's ClientAck or ClientAuth held back in the network / "
     "1-3 established sessions (some with the server-side handle already closed) / closing (Close racing the second half of the "
     "junk); target client: handshaking (every junk datagram meets its own fresh client whose 1st or 2nd reply from the server is "
     "held back; the junk arrives before or instead of it) / open session. Configurations: one certificate, or 2-3 virtual hosts "
     "through a GetCertificate + GetCertList pair that mirrors hopserver.NewHopServer's closures (first glob match wins, optional "
     "'*' fallback host, optional first host without KEM key), discoverable or hidden. Junk (1-200 datagrams, Net.Inject from the "
     "peer's own address or third addresses; against a client from the server's address or third addresses): random bytes of "
     "length 0..65535 biased to 0..60 and to the exact lengths of valid messages; every valid message of an honest discoverable "
     "and hidden run (captured once per process) and the most recent datagrams of THIS case's honest traffic (including the "
     "held-back message) with one header field mutated (type byte, bytes 1/2/3 = version/reserved, certificate-length field in "
     "{0,1,0xffff,len-1,len+1}, counter), bytes 4..8 replaced by a live / unknown session id, truncated to a drawn length or "
     "padded; bare public headers (type 0x10/0x80/other + live or unknown session id) with 0..64 body bytes; and honest protocol "
     "speakers with hostile parameters: clients whose VerifyConfig.Name is empty / 252 / 253 bytes / unknown id type / glob "
     "metacharacters / other hosts, a white-box client that puts arbitrary bytes (block size, id type, label length, label) into "
     "the encrypted server-name field of a ClientAck with a valid cookie, hidden-mode clients configured with each of three "
     "certificates' KEM keys. Oracle: the process survives (a panic in the Serve / listen / handshake goroutines kills it; the "
     "driver recovers the case from the current-*.json file); a handshaking client's Handshake returns; Server.Close returns; no "
     "goroutine is left after closing everything; afterwards an honest handshake from a FRESH address (aimed at a drawn virtual "
     "host) completes and carries one message each way; every session established before the junk and not closed by its owner "
     "still carries a message each way. The sweep enumerates every truncation length of each of the 10 captured messages x "
     "{original first byte, each other valid type byte} x {bytes 4..8 kept, live session id} against 7 server "
     "state/configuration pairs and 5 client states. Non-trivial = at least one structured (derived-from-valid or "
     "hostile-parameter) datagram aimed at a non-idle state; distinct by (target, state, configuration, set of datagram classes). "
     "The exhaustive flag refers to the sweep in the thorough tier only, and only when no datagram of it had to be excluded "
     "because of an open finding (quick: handshaking clients see server-sent messages with the types a client reads and only "
     "the first 64 bytes of client-sent messages). Trigger classes of process-killing findings "
     "that are listed open are excluded by construction and counted (excluded_by_construction / labels excluded:<sig>).",
     ["junk is never authentic for a live session: no datagram sealed with a live session's keys is injected (the only messages "
      "that may legitimately end a session); replays of already delivered genuine datagrams are included",
      "the probe handshake comes from a fresh address (a half-open handshake legitimately blocks its own address until "
      "HandshakeTimeout) and the application keeps calling Accept (as hopserver does), so the pending-connections queue is never full",
      "a case lasts < 2 virtual minutes (no cookie-key rotation inside a handshake); client HSTimeout 2 s, server HandshakeTimeout 5 s",
      "the several-certificates configuration re-implements the two closures of hopserver.NewHopServer inside package transport "
      "(hopserver cannot be imported by an in-package test of transport) over the real pkg/glob matcher",
      "the valid-message table is captured from a server instance with the same certificates but its own cookie key and session ids; "
      "live values come from the case's own traffic"],
     [dict(name="random", pkg="transport", run="^TestVerifC10Random$", shards=dict(quick=16, thorough=16), thorough_scale=60, timeout=dict(quick=900, thorough=7200)),
      dict(name="sweep", pkg="transport", run="^TestVerifC10Sweep$", shards=dict(quick=16, thorough=16), timeout=dict(quick=900, thorough=7200)),
      dict(name="fuzz", kind="fuzz", pkg="transport", targets=["FuzzVerifC10ServerDatagram", "FuzzVerifC10ClientDatagram"], fuzztime=120, thorough_only=True)],
     exhaustive_core=True,
     text="Hostile-datagram search against real transport endpoints under a virtual clock: generated junk sequences (random, "
          "truncated / field-mutated valid messages, copied public headers, hostile server names, hidden requests for every "
          "certificate) hit servers and clients in every state and configuration; crash, liveness of established sessions and "
          "success of a later honest handshake are checked; plus an enumerated sweep of every truncation x type byte.",
     note="trusts testing/synctest, simnet and the re-implemented vhost closures; cryptography is not attacked (junk never carries a valid AEAD tag for a live session)",
     technique="structured fuzzing / property-based testing (rapid) of datagram sequences + enumerated truncation and type-byte sweep; native fuzzing in the thorough tier",
     design="DESIGN.md section 4, C10")
