from props import prop

prop("C18", "exploration",
     "per codec, rapid draws values with field lengths from {0,1,252..257,511,512,65535,65536} and random, every enum byte "
     "0..255 (grant, id, certificate, network, forward types, flag bytes), whole-second times in [0,2^62]; (A) if the real "
     "encoder returns no error, the real decoder reads the bytes from a stream that continues with sentinel bytes and must "
     "succeed, equal the value on every wire field (times by Unix seconds; parse-time data such as Certificate.Fingerprint and "
     "retained raw bytes excluded) and consume exactly the encoded length; an encoder error is accepted only for a value that "
     "does not fit the format (label > 252 bytes, id chunk > 512, one-byte-length string > 255, two-byte-length field > 65535). "
     "Names (alone, in certificates' id chunks, in intents' TargetSNI and delegate certificates) are compared by type, label bytes AND "
     "IsZero(): generated labels are never nil, a zero-length one is the explicitly empty name that the documentation of Name.IsZero "
     "distinguishes from the zero Name (signature suffix :IsZero). Values own their memory: a parsed certificate's Marshal must equal "
     "its WriteTo, and after the caller overwrote every byte (and the spare capacity) of the result the certificate's retained raw "
     "bytes and fingerprint must be untouched and a second Marshal must give the same serialisation "
     "(C18:marshal-result-shares-memory:certs.Certificate:<what>); a parsed certificate with 1..8 fields changed afterwards (selection "
     "from the case seed: version, type, each time, key, parent, names, signature) must Marshal to bytes that decode to the CHANGED "
     "value (roundtrip-mismatch:certs.Certificate:modified-after-parse:<field>); a decoded tube frame must be unchanged after the "
     "datagram buffer it was decoded from has been overwritten - complemented, zeroed or filled with other bytes - as Muxer.readMsg "
     "does with its one reused read buffer (C18:decoded-value-aliases-input-buffer:tubes.frame; data frames in (A) and (B), initiate "
     "frames on the muxer's fromBytes->toBytes->fromInitiateBytes path), and the frame that was encoded must not follow changes to the "
     "bytes toBytes returned. "
     "(B) valid encodings are mutated (length fields set to 0/1/actual+-1/0xFF/0xFFFF, truncation, trailing bytes, spliced or "
     "deleted blocks, byte and bit edits); whenever the real decoder accepts the bytes as v and the encoder accepts v, decoding "
     "the re-encoding must give v again. Small finite sub-spaces are enumerated (all string lengths 0..600, all id types x label "
     "lengths 0..260, all grant types, all 256 flag / type bytes). (C) delivery dimension: every case of a codec whose decoder "
     "takes a reader (common.ReadString, certs Name / Certificate ReadFrom and ReadManyCertificatesPEM, the authgrants message and "
     "proxy readers, codex.GetCmd / readSize, portforwarding.readPacket) also draws a delivery pattern - whole buffer (1 in 8), "
     "one byte per Read (2 in 8), segments (a Read never crosses a cut) or per-call limits of 1..6 drawn sizes from "
     "{1,2,3,4,5,7,8,9,16,31..33,64,127,255..257,512,4096} and 1..600 (5 in 8); independently (1 in 2 each) end-of-stream is "
     "returned together with the last bytes (closed stream instead of the sentinel stream) and some Read calls first return "
     "(0, nil), never twice in a row. After the whole-buffer decode of (A) and of (B) the same bytes are decoded again from a "
     "stream delivering them that way: acceptance, every wire field (for certificates also the fingerprint and the retained raw "
     "bytes) and the number of bytes consumed must equal the whole-buffer outcome (signature "
     "C18:delivery-changes-decoding:<codec>:<rejected|accepted|field|consumed>). Enumerated sweeps take the pattern from a fixed "
     "table of 8 (the string sweep runs all 8 per length), native fuzz targets derive it from a hash of the input. User-"
     "authentication requests (real tube) realise the pattern as up to 24 separate writes, each delivered and read before the next, "
     "and as reading only after the peer's close was processed. Frame codecs (one datagram = one byte slice) and key parsers "
     "(strings / PEM blocks) have no reader and therefore no delivery dimension. (D) concurrent dimension of the frame codecs "
     "(the tubes encode and decode frames on many goroutines of one process at once): 2..8 goroutines each own 1..4 generated "
     "data / initiate frames (mostly 0..48 data bytes, one in four with the lengths of (A)) and, after a common start barrier, "
     "encode and decode THEIR OWN frames 100 / 400 / 1500 times; every decoded frame must equal the goroutine's own frame on "
     "every field; a deviating frame is round-tripped once more alone to tell a sequential defect (roundtrip-mismatch) from "
     "interference between encoders (signature C18:concurrent-encoders-interfere:<codec>:<field>); run plain and under the race "
     "detector; non-trivial = >= 2 goroutines with >= 2 distinct tube ids. Non-trivial (A) = some field at or just past a framing limit, "
     "or an enum value without a named constant; (B) = an accepted input that differs from its own re-encoding; distinct by case "
     "hash. The exhaustive flag refers to the enumerated sweeps only. User-authentication requests travel over a real reliable "
     "tube (muxer pair on an in-memory network inside a synctest bubble) because GetInitMsg demands one. Thorough tier adds native "
     "fuzzing of the decode-encode-decode oracle for certificates, grant messages, frames, execution and port-forward requests.",
     ["times are whole seconds in [0, 2^62] (certificate and intent times are documented as Unix seconds >= 1970)",
      "decoders are handed fresh zero values (ReadFrom appends to an existing IDChunk)",
      "frames carry at most MaxFrameDataLength bytes and dataLength == len(data), as every constructor in tubes does; the "
      "frame decoders are handed the bytes of one datagram (the frame, optionally followed by surplus bytes), as "
      "Muxer.readMsg does; initiate frames take the muxer's parse-as-data-frame-first path only in the form the tubes "
      "build them (no data, REQ or RESP set)",
      "port-forward addresses are the kinds ParseForward produces: TCP/UDP with an IP from net.ParseIP (or nil) and an integer "
      "port, Unix with net \"unix\"",
      "32-bit length fields (codex) are not probed at their 4 GiB limit; in the decode-encode-decode test of execution requests "
      "the two length fields are kept below 1 MiB (GetCmd allocates whatever they say: the C11 finding, checked there)",
      "frame decode-encode-decode inputs keep the length field within the datagram (beyond it is C11's subject)",
      "a user-authentication request is built with a 4-byte header of which GetInitMsg reads 2: the two surplus zero bytes the "
      "reader leaves unread are tolerated (both callers close the tube right after reading the name); anything else unread, or "
      "more consumed than encoded, is reported",
      "a nil result of the error-less encoders portforwarding.toBytes / userAuthInitMsg.toBytes counts as the encoder rejecting the value"],
     [dict(name="common", pkg="common", run="^TestVerifC18", shards=dict(quick=4, thorough=8), thorough_scale=100),
      dict(name="certs", pkg="certs", run="^TestVerifC18", shards=dict(quick=8, thorough=16), thorough_scale=100),
      dict(name="authgrants", pkg="authgrants", run="^TestVerifC18", shards=dict(quick=8, thorough=16), thorough_scale=100),
      dict(name="codex", pkg="codex", run="^TestVerifC18", shards=dict(quick=8, thorough=16), thorough_scale=100),
      dict(name="portforwarding", pkg="portforwarding", run="^TestVerifC18", shards=dict(quick=8, thorough=16), thorough_scale=100),
      dict(name="userauth", pkg="userauth", run="^TestVerifC18", shards=dict(quick=8, thorough=16), thorough_scale=30),
      dict(name="keys", pkg="keys", run="^TestVerifC18", shards=dict(quick=4, thorough=8), thorough_scale=50),
      dict(name="tubes", pkg="tubes", run="^TestVerifC18Frame(EncDec|FlagSweep|DecEncDec)$", shards=dict(quick=8, thorough=16), thorough_scale=100),
      dict(name="tubes-concurrent", pkg="tubes", run="^TestVerifC18FrameConcurrent$", shards=dict(quick=4, thorough=8), thorough_scale=20),
      dict(name="tubes-concurrent-race", pkg="tubes", race=True, run="^TestVerifC18FrameConcurrent$", shards=dict(quick=4, thorough=8), thorough_scale=10),
      dict(name="fuzz-certs", kind="fuzz", pkg="certs", targets=["FuzzVerifC18Certificate"], fuzztime=45, thorough_only=True),
      dict(name="fuzz-authgrants", kind="fuzz", pkg="authgrants", targets=["FuzzVerifC18AgMessage"], fuzztime=45, thorough_only=True),
      dict(name="fuzz-codex", kind="fuzz", pkg="codex", targets=["FuzzVerifC18ExecInit"], fuzztime=45, thorough_only=True),
      dict(name="fuzz-portforwarding", kind="fuzz", pkg="portforwarding", targets=["FuzzVerifC18PFPacket"], fuzztime=45, thorough_only=True),
      dict(name="fuzz-tubes", kind="fuzz", pkg="tubes", targets=["FuzzVerifC18Frame"], fuzztime=45, thorough_only=True),
      ],
     exhaustive_core=True,
     text="Round-trip search over every wire codec: generated values (edge-biased field lengths, all enum bytes) are encoded by "
          "the real encoder and decoded by the real decoder from a stream that continues with sentinel bytes, so that a wrapped "
          "length prefix shows up as a value or consumed-length mismatch; mutated encodings that the decoder accepts are "
          "re-encoded and decoded again and must be stable. Every decode from a reader is repeated with the same bytes delivered "
          "in generated pieces (one byte at a time, drawn chunk sizes, zero-byte reads, end-of-stream together with the last bytes) "
          "and must give the same value and consume the same number of bytes. Several goroutines encoding and decoding tube frames of "
          "their own at the same moment must each get their own frame back (also under the race detector).",
     note="trusts rapid and field-by-field comparison written from the struct definitions; 4 GiB fields not exercised; the "
          "interleavings of the concurrent frame test are those the Go scheduler produces, not enumerated",
     technique="property-based round-trip and decode-encode-decode testing (rapid) with small exhaustive sweeps; native fuzzing in the thorough tier",
     design="DESIGN.md section 4, C18")
