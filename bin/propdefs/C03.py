from props import prop

prop("C03", "fault_enumeration",
     "after an honest handshake (discoverable or hidden; optionally a second session of another client) 1-3 concurrent writers per "
     "end (Client and server Handle alike) issue 0-6 Write/WriteMsg calls - concurrent writers use Write too, single- and multi-packet; their calls start "
     "together, back to back or 1 ms apart, and a drawn yield schedule pauses the k-th arrival at the entry of the packet send path for 0-2500 us so "
     "that overlapping calls are common - with sizes from {0, 1, 23, 24, 25, 100, 1000, Max-1, Max, Max+1, 2Max, 2Max+1, 3.5Max} and random "
     "(Max = MaxPlaintextSize); every payload of 24 bytes or more embeds direction, writer, sequence and keyed bytes; the EMPTY message and messages "
     "shorter than 24 bytes carry no identification and are judged by multiset count per reader (an empty WriteMsg is a message: delivered once, "
     "never more often; a zero-length Write must return (0, nil) and MAY produce one empty message); long streams optionally make every 2nd/4th/7th message empty. The adversary script (rapid, "
     "1-10 actions addressed to the n-th transport datagram of a direction) can drop, duplicate x1-3, hold back and release later, "
     "deliver a bit-flipped copy before the original (flip in type / reserved / session id / counter / body / tag region), flip in "
     "flight, deliver a copy truncated to any length or extended, reflect a copy to its sender, inject a copy into the other "
     "session (with and without rewriting the session id), and send forged control / unknown-type / transport datagrams carrying "
     "the live session id from the peer's or a third address; and it can ALTER A CLEARTEXT HEADER FIELD of a copy (delivered before the "
     "original) or of the datagram in flight: the type byte is REPLACED by another defined message type (the other session type - "
     "Transport <-> Control, which passes every syntactic check of the receiver - most often, else one of the seven handshake types), "
     "or the type byte / the 3 reserved bytes / the session id / the counter are XORed with a drawn mask of any weight (uniform 64 bits, "
     "2-5 drawn bits, or the difference of two defined type values in a drawn byte position); one case in four runs on a faithful network. Message sizes also sit at and "
     "next to block boundaries of the AEAD (k*B-1, k*B, k*B+1 for every multiple up to ~4200 bytes and the last multiples below Max; B mostly the "
     "200-byte permutation width of Kravatte - the message as written is exactly the AEAD plaintext, the 16 header bytes are associated data - "
     "sometimes 8/16/32/64/136/168; also as the LAST packet of a multi-packet Write), and a flip draws its position from a coarse region or a "
     "fine one (last / first / j-th 200-byte block of the body counted from either end, last byte, first byte, anywhere in the datagram); one "
     "case in eight is a 'boundary' case (such sizes only, flips addressed to exactly those datagrams). One case in eight is an 'interrupted' "
     "case: faithful network, one writer per end issuing mostly multi-packet Writes (2-5 packets), and the SENDING side of one or both "
     "endpoints is disturbed: the socket refuses the k-th transport datagram the endpoint sends (ENOBUFS, once or from then on), or the "
     "endpoint's own connection is closed (Client.Close / Handle.Close / Server.Close) while its k-th datagram is inside the socket "
     "(the datagram waits for Close to return, for a bounded time, or not at all). Oracle: (1) every message "
     "a reader gets is byte-identical to an outstanding message written to it on that session and direction, each at most once; "
     "(2) afterwards a fresh probe still arrives both ways; (3) when every genuine datagram was delivered at least once (faithful or "
     "non-destructive script) every accepted write is delivered completely (multiset of packets-worth of bytes, so packets of concurrent multi-packet Writes may interleave), Write returns (len, nil), WriteMsg refuses oversize "
     "with ErrBufOverflow, and a single writer's order is preserved on a faithful network; (4) no payload marker, server/client name, "
     "static public key or certificate bytes occur in any datagram of the wire log, handshake included; (5) in interrupted cases the send log of the "
     "network is the ground truth: the count a Write returns equals the payload bytes of the transport datagrams the socket accepted between "
     "the start and the return of that call, error or not; a nil error implies the full length (Write) / exactly one datagram of that length "
     "(WriteMsg); calls on an undisturbed end must still succeed; every byte a call REPORTED as sent (the packets of buf[:n]) reaches the reader "
     "of an undisturbed peer (probes and full completeness are not demanded there: a refused datagram or a Close ends the session). "
     "Non-trivial = script with >=1 action, a write larger than one packet, or a sending-side fault; distinct by case hash.",
     ["the reader keeps up (receive queue capacity 10000 packets is never reached)", "cryptographic primitives are not attacked by search"],
     [dict(name="channel", pkg="transport", run="^TestVerifC03Channel$", shards=dict(quick=16, thorough=16), thorough_scale=200, timeout=dict(quick=900, thorough=7200))],
     text="Generated adversary scripts over the datagrams of established sessions, with keyed payloads so that any unauthentic, "
          "duplicated, cross-delivered or lost message is visible; completeness and exact write counts on faithful / "
          "non-destructive networks; substring search of the whole wire log for plaintext markers.",
     note="trusts synctest, simnet, rapid",
     technique="property-based fault injection (rapid adversary scripts) on real sessions with authenticity/completeness/confidentiality oracles",
     design="DESIGN.md section 4, C03")
