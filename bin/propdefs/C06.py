from props import prop

prop("C06", "exploration",
     "rapid draws histories on ONE delegate connection: 1..6 intent requests (1..3 targets that differ in host, port or user or "
     "not at all; grant types shell/command/acme/unknown values; reserved byte; times 0..2^63-1, the VALIDITY WINDOW in either order and in "
     "four cases of ten on purpose empty (start = expiry), inverted by 1 s .. a day or arbitrarily (both ends after everything the virtual "
     "clock reaches: a target only refuses an expiry in the past) or the project delegate's own now .. now + 1 min; SNI label 0..252 bytes of any id "
     "type, user 0..255, command 0..255, delegate certificates up to the 660-byte maximum; exact repetitions), a principal "
     "decision per request (approve / refuse with a 0..200-byte reason; the callback records what it was shown), a behaviour of "
     "the target-setup function per request (ok / fails before the handshake / fails after the callback accepted; it invokes the "
     "verification callback inside setup and fails if that fails, as hopclient.setupTargetClient does), a target behaviour per "
     "forwarded intent (scripted: confirm / deny(reason) / close / garbage+close / close mid-message; or the real "
     "StartTargetInstance with recording checkIntent/addAuthGrant stubs that accept / refuse / fail to store; an addAuthGrant that does not "
     "fail hands the intent to a REAL authgrants.AuthgrantMapSync and returns nil, as hopserver.HopServer.AddAuthGrant does behind its "
     "configuration checks, and after the history that store is drained the way a server does when the delegate turns up - "
     "RemoveAuthgrants(user, delegate key) for every request of the case), a TARGET ANSWER DELAY "
     "per request (in a third of the cases each target - scripted or real - takes a drawn 0, 1, 4, 6, 30 or 120 virtual seconds before "
     "it acts on that request's intent communication; the delegate waits as long as it takes for every answer it is owed; what a target "
     "does is attributed to the request that was in flight when the principal wrote the bytes it is acting on, so a late answer still "
     "belongs to its own request), and MALFORMED MESSAGES: optionally one after the last request and, in one case of eight, one IN PLACE "
     "of a request at any position (first / middle / last, alone or inside a send-ahead group) - a message the request format refuses, "
     "mostly partway through: start or expiry time beyond the signed 64-bit range, name block below its minimum size, id chunk above 512 "
     "bytes, unknown message types 9/255 with a whole body trailing, a confirmation, a denial or a complete intent communication where a "
     "request is expected (a truncated request followed by the delegate leaving only as trailer). How the delegate puts the requests on the wire is drawn too: strictly request / "
     "answer / request (as the project's own delegate does), or SEND-AHEAD - some or all requests are written right behind their "
     "predecessor before the outstanding answers are read (groups of 2..6) - and the byte stream may pause (everybody else runs until "
     "blocked) between two requests sent ahead or inside a request after a drawn number of bytes, so that what arrives coalesced varies "
     "from 'everything at once' over 'a request plus the head of the next' to 'one at a time'; inside a group the request in flight is "
     "the one the principal is working on (its first Read on the delegate connection after a Write starts the next one) and the j-th "
     "answer read belongs to the j-th request of the group. The real StartPrincipalInstance runs over buffered in-memory connections inside a synctest "
     "bubble; request bytes come from an encoder written from the wire layout, answers are parsed by the harness. Oracle per "
     "request: no byte is written on a target connection without an earlier accepting callback invocation for that request, none "
     "at all if the callback refused; forwarded bytes decode to the approved and to the requested intent field for field; the "
     "delegate reads exactly one answer before one virtual second of silence; a confirmation only if the target confirmed that "
     "request (real target: addAuthGrant ran and returned nil, AND the drain of the real grant store yields, under the request's user and "
     "delegate key, a grant equal to the request in type, start, expiry, delegate certificate and associated data - one stored grant answers "
     "for one confirmation). A malformed message is not a request: nothing is written on a target "
     "connection and no confirmation is read for it, and the delegate reads at most one answer to it; the requests behind a malformed "
     "message are not judged one by one (the statement is silent about them, the project's principal hangs up), only by count: at no time "
     "has the delegate read more answers than the number of messages it has completely written. Non-trivial = >=2 requests with at least one refusal and one "
     "approval, or a target/setup failure occurred; distinct by (variant, trailer, kind and position of the malformed message, per request: decision, target "
     "index, observed callback/setup/target events, target delay where the request reached a target); decisions and target failures count "
     "only for the requests in front of a malformed message. Every connection of a case hands its bytes to the reader in a drawn delivery pattern (whole, one byte per "
     "Read, keyed chunks of 1..7 bytes, optionally the last bytes together with io.EOF - all allowed by io.Reader and done by "
     "tubes). CONCURRENT INSTANCES (units concurrent-instances, also under the race detector): a principal process serves every delegate "
     "connection with an instance of its own at the same time (hopclient.HandleTubes), so 2..4 complete histories as above - each with "
     "its own delegate connection, callback, setup function, targets and store - run in ONE bubble; the virtual clock releases them "
     "together (equal start offsets: real parallelism) or 1..9 ns apart, and every Write the principal or the real target instance issues "
     "on a connection is held a keyed 0..HoldMax (0, 1, 3, 8, 20) virtual ns before the connection takes the bytes (a Write may take its "
     "time; meanwhile everybody else runs until blocked), so writes of one instance are pending while the others read, decide, serialise "
     "and write. Every instance is judged on its own by the oracle above (signature suffix :concurrent-instances); non-trivial there = at "
     "least two instances forwarded an intent; distinct by start offsets, holds and the per-instance keys. "
     "Transport part (unit approval-callback): the principal approves the FIRST intent of a delegate "
     "connection through the additional verify callback of its handshake with the target (hopclient.setupTargetClient); the whole "
     "matrix mode {discoverable, hidden} x InsecureSkipVerify x trust {store, authorized key, both, neither} x expected name "
     "{server's, none, other} x callback decision {approve, refuse, approve iff target key, refuse iff target key} (192 cases) plus "
     "rapid-drawn repetitions with three address families: a client handshake completes only if the callback was consulted, was "
     "shown the target's certificate and returned nil; non-trivial there = refusing callback or InsecureSkipVerify. "
     "Grant store (units grant-store, also under the race detector; the test is shared with C05 / C07 and runs its mode 'store' only "
     "here): what the real target turns into a confirmation is the nil return of its addAuthGrant callback, in a server "
     "hopserver.HopServer.AddAuthGrant. 2..6 real goroutines (spin barrier, drawn Gosched counts) store 1..3 grants each at the same "
     "time for ONE (user, delegate key) - or for 2..4 keys of that user - while 0..3 further goroutines log in as that pair; then the "
     "server map is drained. Every grant whose AddAuthGrant returned nil must come out of the store exactly once (handed to one "
     "admission or found by the drain): never lost, never twice; non-trivial there = at least two storing goroutines.",
     ["approval callback is never nil (nil is documented as accept-all)",
      "the statement sets no time limit for an answer: a principal may wait for a slow target or give up and deny; either way each request "
      "gets exactly one answer and a confirmation only if the target confirmed THAT request (a late answer of the target is not the answer to a later request)",
      "a message that the documented request format refuses (time >= 2^63 s, name block < 3 bytes, id chunk > 512 bytes, message type other "
      "than 1) is not a request: zero answers (hanging up) or one denial are both accepted for it",
      "well-formed requests are within the framing limits the encoder supports (names <= 252, strings <= 255, times >= 0); "
      "grant types 3 and 4 are excluded because their encoder is unimplemented (panics) - see C11/C18",
      "refusal reasons <= 200 bytes so that the principal's prefixed denial fits the one-byte string length (longer ones hit the C18 WriteString wrap)",
      "a delegate may write further complete requests before it has read the outstanding answers: the delegate connection is a reliable "
      "byte stream, the statement quantifies over all sequences of requests on one connection and neither it nor authgrant_spec.md ties "
      "writing a request to having read the previous answer (the principal 'keeps the AGT open in case the Delegate would like to send "
      "more Intent Requests'); every completely written request is a request and is owed exactly one answer, answers correspond to "
      "requests by order (they carry no tag); the principal handles one request at a time (as read in principal.go: it reads the "
      "delegate connection only to fetch a request and writes on it only to answer), which is what the attribution inside a group uses",
      "a target that misbehaves always ends by answering or closing (a target that stalls forever cannot be answered for)",
      "the target-setup model is hopclient.setupTargetClient as read in the source; a failed setup returns no connection",
      "'stored' is judged the way the grant is used: what hopserver hands the delegate's later connection is RemoveAuthgrants(user, delegate key) "
      "of the server's AuthgrantMapSync; the addAuthGrant model (store in the map, return nil) is hopserver.HopServer.AddAuthGrant as read in the "
      "source, whose other checks are configuration only; the statement sets no condition on the validity window of a grant that is confirmed",
      "a Write on a connection may block for any length of time before the bytes are taken (io.Writer only promises that the slice is not "
      "retained AFTER the call returns; a congested tube blocks its writers); principal instances of one process share nothing by design"],
     [dict(name="histories", pkg="authgrants", run="^TestVerifC06Histories$", shards=dict(quick=12, thorough=16), thorough_scale=25),
      # 2..4 principal instances of one process at the same time, writes held (also under the race detector)
      dict(name="concurrent-instances", pkg="authgrants", run="^TestVerifC06ConcurrentInstances$", shards=dict(quick=8, thorough=16), thorough_scale=20),
      dict(name="concurrent-instances-race", pkg="authgrants", race=True, run="^TestVerifC06ConcurrentInstances$", shards=dict(quick=8, thorough=8), thorough_scale=10),
      dict(name="approval-callback", pkg="transport", run="^TestVerifC06ApprovalCallback(Random)?$", shards=dict(quick=4, thorough=8), thorough_scale=20),
      # the grant store behind the target's addAuthGrant callback (hopserver.HopServer.AddAuthGrant): shared with C05 / C07, mode "store" only
      dict(name="grant-store", pkg="hopserver", run="^TestVerifC07ConcurrentAdmission$", shards=dict(quick=6, thorough=16), thorough_scale=20),
      dict(name="grant-store-race", pkg="hopserver", race=True, run="^TestVerifC07ConcurrentAdmission$", shards=dict(quick=4, thorough=8), thorough_scale=10)],
     text="History-invariant search: generated request/decision/target-behaviour scripts are run against the real principal "
          "(and optionally the real target instance) over in-memory connections under a virtual clock; every byte the principal "
          "writes towards a target, every callback invocation with its arguments and result, and every answer read by the "
          "delegate is recorded and judged against the four clauses of the statement.",
     note="trusts the harness's own intent encoder/decoder (self-tested, written from the wire layout), the setup-function model, "
          "testing/synctest and rapid",
     technique="property-based testing (rapid) of stateful histories with recorded-event invariants under a virtual clock",
     design="DESIGN.md section 4, C06")
