from props import prop

prop("C04", "exploration",
     "rapid draws certificate forests (1..3 roots, 0..4 intermediates, 1..4 leaves) from a forger that serialises with the real "
     "WriteTo and signs like certs/issue.go: types, parent link, signer key, validity window and names are mostly consistent, each "
     "inconsistency (wrong type incl. non-root trust anchor / leaf under root / intermediate under intermediate / leaf-typed CA / "
     "unknown type, wrong signer, unsigned, flipped signature bit, right signature but other fingerprint link, zero or junk parent, "
     "signature made before a field was changed, shared keys, not-yet-valid / expired / empty / inverted windows on a small "
     "boundary-aligned time pool) drawn with a per-case probability of 0/2/4/10 %. A case is a forest, a trust store (random subset "
     "of ALL its certificates) and a SEQUENCE of 3..10 steps against that one Store and the same Certificate objects: VerifyLeaf "
     "(leaf mostly a leaf-position certificate; presented intermediate nil / the named one / unrelated / a one-bit-mutated copy, "
     "as the forest's object or a separately parsed copy; requested name none / one of the leaf's / any of a 14-name pool with same "
     "label-other type, case variants, empty labels, nil label with non-zero type; clock T0, first and last instant of the common "
     "window, or a chain member's IssuedAt-1s / IssuedAt / IssuedAt+1ns / ExpiresAt-1s / ExpiresAt-1ns / ExpiresAt / ExpiresAt+1s, in "
     "three time zones), VerifyParent on (child, named parent) or random pairs, AddCertificate; one step in four is preceded by "
     "something a holder of PARSED certificates may do with them: marshal+scribble (Marshal a chain member - the forest's object or "
     "its separately parsed copy - and overwrite the returned bytes, all of them or one drawn bit: the serialisation is documented "
     "as newly allocated, so every later answer about that certificate and chains through it must be unchanged) or modify (parse a "
     "certificate afresh, change one field of the object - type, IssuedAt, ExpiresAt, a name added / dropped / replaced, public key, "
     "parent fingerprint, or a change that leaves the wire content as it was: sub-second shift of both times, every field assigned "
     "its own value - Marshal, ReadFrom; the resulting object becomes a new forest member whose ground truth is the CHANGED content "
     "under the signature the original already carried, and the following VerifyLeaf / VerifyParent / AddCertificate step uses it as "
     "leaf, child, presented or stored intermediate; the model therefore demands rejection wherever that signature matters unless "
     "nothing changed) - in one modify step out of four the changed certificate is read into a RE-USED value, see next - or re-read (a "
     "chain member - leaf, named intermediate or its root, the forest's object that the Store may hold or the separately parsed copy - "
     "is read with ReadFrom into a Certificate value that was a ReadFrom target before: either the existing object receives 0..3 "
     "earlier reads and then its own bytes again, or a new value receives 1..3 earlier reads and then the certificate and replaces the "
     "object in all later steps, an AddCertificate that follows hands it to the Store; earlier reads are another certificate of the "
     "forest, the same certificate, a read cut short at one of 17 offsets around the field boundaries - which fails -, or arbitrary "
     "bytes; readers are a bytes.Reader, a stream that continues behind the certificate, or one byte per Read call. ReadFrom "
     "'populates a certificate from serialized bytes', so the content read LAST decides: the read must succeed with the full length, "
     "the fingerprint must be SHA3-256 of those bytes, Marshal must give what a fresh value that read the same bytes gives - the "
     "signature names the field that first differs - and the model's answers are unchanged). Every VerifyLeaf answer must equal "
     "the stateless model written from the property statement (both directions), every VerifyParent answer the type-pairing / "
     "fingerprint / Ed25519 predicate. Second generator: chains made only by SelfSignRoot, IssueIntermediate / issue and IssueLeafAt "
     "(issuance instants and durations on and around the parent's bounds), verified in memory and after Marshal+ReadFrom at the "
     "bounds of all three windows, in half of the cases with the re-read going into a value that already read another chain member, "
     "the same bytes, a truncated read, arbitrary bytes or two of those (same clauses as above); in 5 of 8 cases one to three chain members in use are marshalled once more before the probes and "
     "that serialisation is overwritten by its caller. Enumerations: every single-bit flip and raw fixed-field overwrite of the leaf, intermediate and "
     "root bytes of verifying chains in 3..5 store/presentation layouts; every re-signed and stale-signed single-field substitution "
     "(type, issuer link / key, public key, names, each time bound) in place and side by side x 5 stores, judged by the model. "
     "Non-trivial = case with at least one full accept or near miss (exactly one clause of the predicate false); for the bit-flip "
     "enumeration a mutation that still parses; distinct by hash of the whole case.",
     ["certificate times are >= 1970 and whole seconds (the wire format); the verification time is never the zero time.Time "
      "(documented to mean 'use the wall clock')",
      "certificates handed to VerifyLeaf / VerifyParent / AddCertificate come from ReadFrom or from the issuing functions, as in "
      "every caller (transport handshake, PEM loaders); hand-assembled Certificate structs are out of scope",
      "a Certificate value may be the target of ReadFrom more than once (it is an io.ReaderFrom and nothing documents it as "
      "single-use); what it read last is what it stands for. Values are re-used through their pointer only - a Certificate copied "
      "by assignment and its source are never both read into afterwards",
      "validity is IssuedAt <= now < ExpiresAt (the bound the repository's own test pins: now == ExpiresAt is rejected)",
      "a presented intermediate whose fingerprint the leaf does not name is ignored (documented on VerifyOptions), so a mutated "
      "presented copy next to the genuine stored intermediate still verifies",
      "for a root-typed child VerifyParent is only required to accept a self-signed root with zero parent fingerprint and to "
      "reject non-root parents and bad signatures (the statement is silent on roots)",
      "ground truth of the forger is cross-checked against crypto/ed25519 and crypto/sha3 of the standard library at every use; "
      "forged bytes are self-tested to be identical to what the issuing functions emit"],
     [dict(name="forest", pkg="certs", run="^TestVerifC04(Forest|Issued)$", shards=dict(quick=12, thorough=16), thorough_scale=40),
      dict(name="enum", pkg="certs", run="^TestVerifC04(BitFlips|Substitutions)$", shards=dict(quick=8, thorough=16), thorough_scale=40)],
     exhaustive_core=True,
     text="Model-based search in both directions: forged certificate forests with drawn inconsistencies are queried through a "
          "sequence of VerifyLeaf / VerifyParent / AddCertificate calls on one Store and every answer is compared with a stateless "
          "validity predicate written from the statement; chains from the issuing functions must verify inside all three windows; "
          "all single-bit flips, raw field overwrites and properly signed single-field substitutions of verifying chains are "
          "enumerated. Absence is not shown; a counter-example would need a forest or query shape outside the generated families.",
     note="trusts the forger's ground truth and the 60-line predicate (cross-checked against crypto/ed25519, crypto/sha3 and the "
          "issuing functions' own output), rapid",
     technique="property-based testing (rapid) against a reference model + exhaustive bit-flip / field-substitution enumeration",
     design="DESIGN.md section 4, C04")
