from props import prop

prop("C17", "exploration",
     "queue half: rapid draws programs of 2-6 goroutines x 1-6 operations over one DeadlineChan[int] of capacity 0-4: Send(unique "
     "id), Recv, SetDeadline(past / zero / 1 ms / 50 ms / 5 s), Cancel, Close, with inter-operation delays and a yield schedule "
     "(virtual delays at the verif-tagged points in Recv - entry, after the non-blocking poll, after the closed check, before the "
     "wait - and at Send/Close entry). Runs inside a synctest bubble; a frozen bubble (mutex waiter) is re-run with real timers. "
     "After the program the harness calls Close and drains. Oracle: Close returns within 30 virtual s and every call is released "
     "30 s after it; each successfully sent id comes out exactly once (never twice, never lost, never invented); single sender => "
     "every receiver and the drain see increasing ids; a Recv that started after an item had been queued never reports "
     "end-of-stream while that item is still queued; errors are end-of-stream, timeout (errors.Is os.ErrDeadlineExceeded) or the "
     "Cancel error; no goroutine is left; also run under the race detector. Non-trivial = >=3 goroutines with at least one "
     "SetDeadline/Cancel/Close (transport half: or Roam, or a further client with a half-open handshake) racing; distinct by case hash. Transport half: programs of 2-6 goroutines x 1-5 operations over a "
     "real Client (Handshake, Read - with a 70000-byte buffer or one of 1..100 bytes -, ReadMsg, Write, WriteMsg, WriteMsgBurst, WriteMsgPaced, Roam, SetDeadline, SetReadDeadline, Close), the accepted Handle (same minus "
     "Handshake) and the Server (AcceptTimeout, Close) on vlib/simnet against an honest, a silent or a vanishing peer, both handshake "
     "modes, HSTimeout / HSDeadline set or not, fault 'Close of the underlying socket reports an error' on the server's and/or the "
     "client's socket (vlib/simnet FailClose: the socket is closed all the same) in half of the cases, with a yield schedule at the verif-tagged points in Client.Close/Handshake, "
     "Server.Close/Serve, Handle.send and DeadlineChan.Recv. Oracle: with a handshake timeout or deadline a handshake against a peer "
     "that does not answer has returned after 15 virtual s; three concurrent Close calls per object return within 30 s, and ALL Close "
     "calls of one endpoint within the case (those of the program, concurrent with anything, and the three final ones, i.e. also repeated "
     "later calls) report the same result, whether the socket's close succeeded or failed (Client, Handle, Server); 30 s after client, handle and server were closed no call is blocked; read errors are end-of-stream or timeout errors; "
     "no goroutine is left. Roaming while writing (one case in three; the operations also occur in the other programs): operation "
     "Roam = the endpoint's socket is rebound to a new address (simnet Rebind) and the endpoint writes a message from there, 1-8 times "
     "with a pause of 37 us / 1.3 ms / 17 ms - Client: the client roams, the SERVER's receive loop takes up the new address; Handle: the "
     "server's socket moves, the CLIENT's receive loop takes it up -, operation WriteMsgBurst = 3-40 consecutive WriteMsg calls on the "
     "other endpoint, and a SLOW SOCKET on the writing side (simnet write gate: every session datagram stays 150 us / 2.5 ms / 30 ms of "
     "virtual time inside WriteMsgUDP, i.e. inside Handle.send past the session lock; the gate adds no synchronisation between the "
     "writer and the roaming goroutines, so the race detector sees the two accesses unordered), one side or both, next to 1-4 random "
     "goroutines (reads, deadlines, closes ...). Labels peer-roams-while-a-write-is-inside-the-socket:Client/:Handle (from the logged "
     "virtual intervals) ~ 8 % of the cases each, equally in the -race unit. With a slow socket the writers of one endpoint take turns on a "
     "channel semaphore (a writer waiting for the handle's write MUTEX would freeze the bubble's clock). "
     "Half-open handshakes on the server (one case in four; labels half-open-handshake:*): 1-3 FURTHER CLIENTS (own address and certificate) start, 0 / 1 / 20 / 400 ms "
     "into the case, a handshake that the network cuts short - discoverable mode: the client's ClientAuth or the server's ServerAuth is lost (simnet Filter), or the ClientAuth is LATE: delivered at the instant the server's "
     "timer fires or 1 / 50 ms after it, so that the receive loop looks up a handshake the timer is removing / has removed; hidden mode: "
     "the client's datagram comes from source port 0, so the server registers the handshake and its answer fails inside the socket (EINVAL) - which leaves an entry in the "
     "server's handshake table and one in its session table; the server's HandshakeTimeout is 50 ms / 300 ms / 2 s (virtual) and the further client stays until it has passed "
     "(or leaves at once: the server is then also closed while the timer is pending), so the timer the server armed fires on its own goroutine and removes the entries WHILE "
     "the program runs on the established session; in half of these cases one more goroutine does WriteMsgPaced on the client (2-16 WriteMsg calls 1 / 20 / 150 ms apart: the "
     "server's receive loop looks sessions up before, at and after the expiry). The further clients never look at the server's state and the labels are computed from the "
     "network log after everything has stopped, so the harness does not order the timer against the receive loop: an unsynchronised access of either to the tables is a "
     "report of the race detector (-race unit, ~17 % of its cases have a handshake that expires during the case) or the runtime's concurrent-map fatal error. Their Handshake "
     "and Close calls are subject to the termination oracle like all others. One other case in six has the short server timeout without further clients. "
     "One case in ten is the drain scenario: k messages delivered into the receive queue, then Close, then reads until end-of-stream. A "
     "quarter of them read with ReadMsg into a large buffer (all k messages, then end-of-stream); the others draw 1-5 messages of "
     "1..5000 bytes and a list of reader calls - Read or ReadMsg, buffer 1..9 bytes, just shorter than one of the messages, half of one, "
     "or large - of which a drawn number is made BEFORE Close (so Close also comes after a short Read took part of a message, or after "
     "ReadMsg answered ErrBufOverflow and kept the message buffered; labels drain:close-with-a-partly-read-message[-and-an-empty-queue]) "
     "and the rest after it, followed by large-buffer calls. Oracle: the bytes returned by all calls, in order, are exactly the bytes that "
     "were queued before Close and end-of-stream comes only after all of them (queued-data-lost-on-close, drain:bytes-differ); a ReadMsg "
     "starting at a message boundary returns exactly that message; ErrBufOverflow only when the buffer is shorter than what is left of "
     "the message; end-of-stream is repeated. Client and Handle alike. Also under the race detector.",
     ["between two instrumented points the Go scheduler decides the interleaving", "bounds are virtual (synctest)",
      "a data race between a write and the receive loop's address update is only visible to the race detector when the two accesses are "
      "not ordered through the harness: the roam is therefore timed by the virtual clock against a write parked inside the socket, never "
      "triggered by observing that write",
      "in cases with a slow socket concurrent writers of one endpoint are serialised by the harness (channel semaphore)"],
     [dict(name="queue", pkg="common", run="^TestVerifC17Queue$", shards=dict(quick=16, thorough=16), thorough_scale=100, timeout=dict(quick=900, thorough=7200)),
      dict(name="queue-race", pkg="common", race=True, run="^TestVerifC17Queue$", shards=dict(quick=16, thorough=16), thorough_scale=30, timeout=dict(quick=900, thorough=7200)),
      dict(name="transport", pkg="transport", run="^TestVerifC17Transport$", shards=dict(quick=16, thorough=16), thorough_scale=50, timeout=dict(quick=900, thorough=7200)),
      dict(name="transport-race", pkg="transport", race=True, run="^TestVerifC17Transport$", shards=dict(quick=16, thorough=16), thorough_scale=10, timeout=dict(quick=900, thorough=7200))],
     text="Generated concurrent programs over the deadline queue and over transport clients, handles and servers run under a virtual "
          "clock with schedule perturbation at instrumented points and under the race detector; termination of every call, "
          "idempotent close, exactly-once in-order delivery and drain-before-end-of-stream (also with read buffers shorter than the "
          "messages and Close in the middle of a message) are checked from the recorded history; a third of the transport programs let the "
          "peer roam while the application writes over a slow socket, so that the receive loop's address update meets in-flight writes; a quarter "
          "leave half-open handshakes of further clients on the server and let the server's handshake timer expire while the established session is in use.",
     note="trusts testing/synctest, the race detector, rapid; interleavings are explored by perturbation, not exhaustively",
     technique="property-based testing (rapid) of concurrent programs with schedule perturbation under a virtual clock + race detector; history oracle",
     design="DESIGN.md section 4, C17")
