from props import prop

prop("C17", "exploration",
     "queue half: rapid draws programs of 2-6 goroutines x 1-6 operations over one DeadlineChan[int] of capacity 0-4: Send(unique "
     "id), Recv, SetDeadline(past / zero / 1 ms / 50 ms / 5 s), Cancel, Close, with inter-operation delays and a yield schedule "
     "(virtual delays at the verif-tagged points in Recv - entry, after the non-blocking poll, after the closed check, before the "
     "wait - and at Send/Close entry). Runs inside a synctest bubble; a frozen bubble (mutex waiter) is re-run with real timers. "
     "After the program the harness calls Close and drains. Oracle: Close returns within 30 virtual s and every call is released "
     "30 s after it; each successfully sent id comes out exactly once (never twice, never lost, never invented); single sender => "
     "every receiver and the drain see increasing ids; a Recv that started after an item had been queued never reports "
     "end-of-stream while that item is still queued; errors are end-of-stream, timeout (errors.Is os.ErrDeadlineExceeded) or the "
     "Cancel error; no goroutine is left; also run under the race detector. Non-trivial = >=3 goroutines with at least one "
     "SetDeadline/Cancel/Close racing; distinct by case hash. Transport half: programs of 2-6 goroutines x 1-5 operations over a "
     "real Client (Handshake, Read, ReadMsg, Write, WriteMsg, SetDeadline, SetReadDeadline, Close), the accepted Handle (same minus "
     "Handshake) and the Server (AcceptTimeout, Close) on vlib/simnet against an honest, a silent or a vanishing peer, both handshake "
     "modes, HSTimeout / HSDeadline set or not, fault 'Close of the underlying socket reports an error' on the server's and/or the "
     "client's socket (vlib/simnet FailClose: the socket is closed all the same) in half of the cases, with a yield schedule at the verif-tagged points in Client.Close/Handshake, "
     "Server.Close/Serve, Handle.send and DeadlineChan.Recv. Oracle: with a handshake timeout or deadline a handshake against a peer "
     "that does not answer has returned after 15 virtual s; three concurrent Close calls per object return within 30 s, and ALL Close "
     "calls of one endpoint within the case (those of the program, concurrent with anything, and the three final ones, i.e. also repeated "
     "later calls) report the same result, whether the socket's close succeeded or failed (Client, Handle, Server); 30 s after client, handle and server were closed no call is blocked; read errors are end-of-stream or timeout errors; "
     "no goroutine is left; one case in ten is the drain scenario (k messages delivered into the receive queue, then Close: ReadMsg "
     "returns all k, then end-of-stream); also under the race detector.",
     ["between two instrumented points the Go scheduler decides the interleaving", "bounds are virtual (synctest)"],
     [dict(name="queue", pkg="common", run="^TestVerifC17Queue$", shards=dict(quick=16, thorough=16), thorough_scale=100, timeout=dict(quick=900, thorough=7200)),
      dict(name="queue-race", pkg="common", race=True, run="^TestVerifC17Queue$", shards=dict(quick=16, thorough=16), thorough_scale=30, timeout=dict(quick=900, thorough=7200)),
      dict(name="transport", pkg="transport", run="^TestVerifC17Transport$", shards=dict(quick=16, thorough=16), thorough_scale=50, timeout=dict(quick=900, thorough=7200)),
      dict(name="transport-race", pkg="transport", race=True, run="^TestVerifC17Transport$", shards=dict(quick=16, thorough=16), thorough_scale=10, timeout=dict(quick=900, thorough=7200))],
     text="Generated concurrent programs over the deadline queue and over transport clients, handles and servers run under a virtual "
          "clock with schedule perturbation at instrumented points and under the race detector; termination of every call, "
          "idempotent close, exactly-once in-order delivery and drain-before-end-of-stream are checked from the recorded history.",
     note="trusts testing/synctest, the race detector, rapid; interleavings are explored by perturbation, not exhaustively",
     technique="property-based testing (rapid) of concurrent programs with schedule perturbation under a virtual clock + race detector; history oracle",
     design="DESIGN.md section 4, C17")
