from props import prop

prop("C09", "exploration",
     "rapid draws 1-6 workers over both sides of a muxer pair (vlib/memconn, synctest bubble); each worker opens 1-4 successive "
     "tubes of one class (reliable or unreliable), so identifiers are reused, with a drawn type byte; reliable: writes a tagged "
     "stream (32-byte header naming the incarnation + keyed bytes), reads the acceptor's tagged reply, closes; unreliable: writes "
     "1-5 tagged whole messages of sizes around the header size, the 32768-byte frame limit, 65535 and beyond 65536, closes. Each "
     "side runs an Accept loop; every accepted tube is read to the end. Network: loss 0/5/20 %, duplication, delay; bounded regime "
     "= FIFO per direction (no packet outlives its tube), late-arrival regime = jitter up to 3 s; one case in three (both regimes): "
     "TRUNCATED DATAGRAMS - per direction 0 / 0.5 / 2 / 6 % of the delivered copies arrive with their last 1-4 bytes missing (memconn "
     "Params.TruncPm/TruncMax, keyed to the packet index); to a correct receiver that is a lost datagram (shorter than its length field "
     "says or than a header), so the network log counts whole deliveries only, such a case is not loss-free, and no clause changes: "
     "a truncated datagram may be lost, nothing foreign or altered may be delivered because of it. Oracle: every byte/message read on "
     "a tube belongs to the incarnation that tube was accepted for (content is a keyed function of incarnation and offset), "
     "unreliable reads are whole written messages (never empty, fragments or merges), ids handed to concurrent local creators "
     "are distinct per class and have the side's parity, each incarnation is offered by Accept at most once with its opener's type "
     "and reliability, and on a loss-free network every opened reliable incarnation is offered. Regime-independent clause (both families): "
     "a tube handed out by Accept on a side carries an identifier of the OTHER side's parity (it was opened remotely), signature without "
     "regime qualifier. Last act of every case, when all workers are done and nothing is created any more: the network delivers one more "
     "copy of every answer to an open request (RESP datagram) it carried - stale duplicates for tubes that are closed and reaped by then; "
     "nothing may come out of Accept because of them. Non-trivial = >=2 concurrent workers "
     "or identifier reuse; distinct by case hash. Second family BURST OF OPENS AGAINST A SLOW ACCEPTOR (TestVerifC09Burst): each side "
     "opens 0-140 reliable and 0-140 unreliable tubes at once (a side owns 128 identifiers per class; one-sided in a quarter of the cases), "
     "spread over 1-8 concurrent creators, plus an optional later wave of up to 120 tubes where the peer opens at most 128 in total; each "
     "side's application starts calling Accept after 0-3 s and pauses 0-10 ms between Accept calls; faithful network (delay 1-50 ms, "
     "nothing lost, duplicated or reordered - except, in one case in three, the one fault TRUNCATED DATAGRAMS: per direction 0 / 0.2 / 1 / 3 % "
     "of the datagrams arrive 1-4 bytes short, which a correct receiver drops, so open requests and data are retransmitted and an unreliable "
     "message may be missing; an open request counts as arrived only when it arrived whole), no tube is closed before the verdict, so no identifier is ever reused (the open "
     "findings of the first family cannot occur; signatures carry :burst-of-opens). Each opener writes one tagged stream / message. "
     "Oracle: identifiers handed to the creators are distinct per class and have the side's parity; Accept never returns a tube "
     "nobody opened, never the same tube twice, always with the opener's type and class; every tube (both classes) whose open request "
     "reached the accepting side (network log) is offered within start-of-accepting + one gap per tube + 30 virtual seconds; what is "
     "read on an accepted tube is (a prefix of) what its opener wrote on that tube. AFTERMATH (two cases in three, after the verdict on the "
     "burst, nothing is created afterwards so still no identifier is reused): each side opens 0-20 unreliable tubes and closes them again "
     "at once, before any answer can be back (the answer meets a muxer that has forgotten the tube); and/or every tube of the case is closed "
     "on both ends, the quarantine passes and one more copy of every RESP datagram the network carried is delivered. Judged by the Accept "
     "clauses: no tube nobody opened, none twice, none of the acceptor's own parity, never more tubes accepted than the peer opened. "
     "Non-trivial = >= 2 tubes opened.",
     ["muxer data timeout 0", "empty unreliable messages are never written, so any empty read is foreign",
      "'tube never offered' is only judged for reliable tubes on a loss-free network (first family); in the burst family, where the network is faithful and no identifier is reused, for both classes",
      "burst family: a side opens tubes later than t=0 only if its peer opens at most 128 tubes (the unchanged receiver waits, holding the muxer lock, while the accept queue is full; a Create call waiting for that lock would stop the bubble's virtual clock)"],
     [dict(name="tubes", pkg="tubes", run="^TestVerifC09Tubes$", shards=dict(quick=16, thorough=16), thorough_scale=40, timeout=dict(quick=900, thorough=7200)),
      dict(name="burst", pkg="tubes", run="^TestVerifC09Burst$", shards=dict(quick=16, thorough=16), thorough_scale=20, timeout=dict(quick=900, thorough=7200))],
     text="Generated multi-tube open/close/reopen scenarios run on two real muxers under a virtual clock; payloads are keyed to "
          "their incarnation so any cross-delivery, fragment, merge or duplicate offer is visible from the bytes alone.",
     note="trusts testing/synctest, memconn, rapid",
     technique="property-based testing (rapid) of concurrent multi-tube histories with incarnation-keyed payloads",
     design="DESIGN.md section 4, C09")
