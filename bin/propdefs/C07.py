from props import prop

prop("C07", "exploration",
     "Layer 1 (direct, in-package, no network). rapid draws a history of 3..30 operations on one target HopServer under a "
     "case-driven clock (thunks.TimeNow): store a grant with the real AddAuthGrant (type shell / command(text) / local PF / remote PF / "
     "acme / unknown; users drawn from a per-history cast out of alice, bob, ghost and NEAR-COLLISIONS of these names - Alice, ALICE, "
     "'alice ' (trailing blank), 'alice\\x00', Bob, sam / long-s 'am' (U+017F) - every one a distinct account, the model keys everything "
     "by the exact string, and a fifth of the connects present the key of a granted pair as ANOTHER user of the cast; key K1..K3; start "
     "and expiry around the clock incl. start in the future, expiry in the past, equal and inverted bounds; MILLISECOND resolution: half "
     "of the grants carry sub-second parts in start and expiry and two thirds of the histories run on a clock with sub-second steps "
     "(quarter-second grid plus 1 and 999 ms, so that clock and bounds often coincide exactly or fall into the same second on either "
     "side of each other; the rest stays on whole seconds), the window being start <= now < expiry on the exact instants), connect as (user, key) (key-set probe + decision sequence of checkAuthorization with the real "
     "AuthorizeKey / AuthorizeKeyAuthGrant; the hopSession is built exactly as checkAuthorization leaves it), exec request on an "
     "admitted session through the real checkCmd (shell flag, or command text equal / prefix / suffix / extra arguments / case variant / "
     "trailing, leading, inner blank / empty / trailing NUL relative to a granted text; grant and request texts also AT AND AROUND THE "
     "STRING-LENGTH LIMIT of the protocol (common.MaxStringLen = 255): every base command extended by a position-determined filler to exactly "
     "254, 255, 256 or 300 bytes - so these texts are proper prefixes of each other - before the variant is applied; a request takes base and "
     "length of a grant drawn earlier with a variant (request = granted text + suffix / minus its last byte) or the same base at another "
     "length (request longer than the grant, or grant longer than the request); the model compares whole texts; or a local / remote port-forward request through "
     "the real checkPF), advance the clock by 0..10 s (+ 0..999 ms). Oracle after "
     "every step against a multiset model: connect admitted => grants for exactly (user, key) are stored, the session receives "
     "exactly those, a second admission right afterwards fails, the key leaves the transport key set once no stored grant names it; "
     "request allowed => an unused grant of the session matches (shell grant for a shell request; command grant with identical text "
     "for a command request) with start <= now < expiry, and exactly that one grant disappears from the session; converse as a "
     "guard (matching valid grant => allowed; stored grant => admitted); at the end the server map is drained and compared with the "
     "model. Second unit (enumerated completely, 1152 cases): a session admitted through one grant (every type, valid or expired) "
     "sends an intent (every type; same / other user; own / other delegate key; expiry future / past; leaf / non-leaf certificate) "
     "over its own AuthGrant tube - the target-side sequence checkIntent, AddAuthGrant of handleIntentCommunication with the real "
     "functions; since no grant type authorizes issuing grants, any confirmation is a violation. Layer 2 (unit e2e, synctest bubble): "
     "the REAL hopSession (newSession -> checkAuthorization -> start -> tube dispatch) behind a real transport handshake on the "
     "simulated UDP network with real tube muxers; generated grant sets (user, delegate key, shell / command / local PF / remote PF, "
     "windows around the clock; users alice, bob, Alice, Bob as distinct accounts, grants often stored for the account whose name differs "
     "from the connecting one by case only) and request sequences by the harness-played delegate (exec with command text variants, exec with the "
     "shell flag, local and remote port-forward requests, port-forward control requests with ARBITRARY direction bytes (0, 1, 3, 6, 99, "
     "255 besides the defined 4 = local and 5 = remote) and network-type bytes (defined 1..3, undefined 0, 4, 255; tcp / udp types with an "
     "address that is not host:port) - confirmed only if the direction is one the protocol defines AND an effective unused grant of exactly "
     "that type matches -, grant issuing for itself, port-forward DATA tubes (reliable or unreliable, "
     "written to; after a refused control request, after a granted one, or without any), exec requests with command texts of 254 / 255 / 256 / 300 bytes "
     "against command grants whose text has 254 or 255 bytes (the longest an intent can carry on the wire; request = granted text as it is, plus a "
     "suffix, minus a byte, or the longer text starting with it), LOCAL forwarding requests to an address the server CANNOT REACH (unix path in a "
     "directory that does not exist, path that does not exist, socket file nobody listens on - the dial fails at once), two thirds of them followed "
     "by further forwarding requests (local to the reachable target, remote) in the same session - the model keeps the grant of a forwarding that it "
     "authorized and that failed on the dial as unused (the permissive reading of an only-if) and goes on judging: whatever is confirmed afterwards "
     "still needs a matching, effective, unused grant, and the target may be connected to only after a confirmed local forwarding -, clock steps between requests AND between opening "
     "the tubes of a request and sending its body (0 / 12 / 40 s, so that a grant expires or becomes effective in between: the model judges "
     "at the moment the body is sent); the forwarding target is a unix socket of the harness, one per case, whose accepted connections are "
     "counted synchronously after every request: the server may connect to it only once a local forwarding was authorized in this session "
     "(a local port-forward request that matched an effective, unused grant was confirmed); every answer the server gives is compared with "
     "the same multiset model (login admitted iff a grant for exactly this user and key is stored; an action confirmed iff an unused, "
     "effective, unexpired grant of the session matches it; each grant at most once). Units concurrent / concurrent-race: real goroutines race AuthorizeKeyAuthGrant for one stored grant set (one admission, not two), and - "
     "mode 'store' - store grants for one (user, key) at the same time, optionally while others log in as that pair, followed by a drain "
     "(every grant whose AddAuthGrant returned nil comes out of the store exactly once). "
     "Non-trivial = history containing a request on an admitted session that must be refused (different text, repeat, "
     "expired, not yet effective, other kind, nothing left) or a connect that must be refused because the grant names another "
     "user / another key / was consumed; distinct by hash of the whole history.",
     ["'connect' and the exec gate are the sequences of checkAuthorization / startCodex as read in hopserver/session.go, re-stated in "
      "the harness (verifAuthzLogin, verifAuthzExecAllowed) for layer 1; layer 2 (unit e2e) runs the real hopSession over a transport and "
      "needs no such restatement",
      "exec requests are gated by checkCmd and intent communications by checkIntent (both driven at layer 1); port-forwarding tubes "
      "are dispatched by hopSession.start into the portforwarding package and are reachable only at layer 2, where local "
      "and remote port-forward control requests are driven (local: towards a unix socket of the harness; remote: a listen address "
      "in a directory that does not exist, so the server answers the request - the authorization decision - and then gives up "
      "listening); the forwarded service closes every connection at once, so proxying of payload is not exercised - what is observed is "
      "whether the server connects to it",
      "a port forwarding is ONE action: the grant is judged (and consumed) when the control request is made; data tubes opened afterwards are "
      "carried by that forwarding and are not judged against the grant's window again (only: no authorized forwarding => no connection to the target)",
      "an action is requested when its request message (exec-init / port-forward control message) is sent, not when the tubes that carry it "
      "are opened; requests sent within one second of a grant boundary are not judged",
      "no grant type authorizes issuing further grants, hence a grant-admitted session must never obtain a confirmation",
      "a shell grant is taken to cover every exec request that sets the shell flag, whatever command text it carries",
      "grants are stored with AddAuthGrant directly, as hoptests does; no authorized_keys files exist, so every admission is by grant"],
     [dict(name="model", pkg="hopserver", run="^TestVerifC07Grants$", shards=dict(quick=8, thorough=16), thorough_scale=50),
      dict(name="issue", pkg="hopserver", run="^TestVerifC07Issue$", shards=dict(quick=1, thorough=1)),
      dict(name="e2e", pkg="hopserver", run="^TestVerifC07EndToEnd$", shards=dict(quick=16, thorough=16), thorough_scale=20, timeout=dict(quick=900, thorough=3600)),
      dict(name="concurrent", pkg="hopserver", run="^TestVerifC07ConcurrentAdmission$", shards=dict(quick=8, thorough=16), thorough_scale=20),
      dict(name="concurrent-race", pkg="hopserver", race=True, run="^TestVerifC07ConcurrentAdmission$", shards=dict(quick=4, thorough=8), thorough_scale=10)],
     exhaustive_core=True,
     text="Model-based search: generated histories of grant storage, connects, exec requests and clock steps run on a real HopServer / "
          "hopSession (stubbed clock and passwd lookup) and on a multiset model written from the statement; every admission and every "
          "checkCmd decision is compared with 'a matching, effective, unexpired, unused grant for this user and key exists', and the "
          "consumption of grants with 'exactly that one'; an end-to-end unit repeats the comparison through the real session over a "
          "simulated transport, including port-forward and grant-issuing requests. Absence is not shown.",
     note="trusts the multiset model (written from the statement, honest baseline self-test) and rapid; checkAuthorization's and "
          "startCodex's gating sequences are re-stated in the harness",
     technique="stateful property-based testing (rapid) against a reference model with a virtual clock",
     design="DESIGN.md section 4, C07 (layers 1 and 2; section 0.2)")
