from props import prop

prop("C13", "exploration",
     "rapid draws programs: initialisation (InitializeEmpty / Initialize with key 1..135 bytes, id filling up to the 136-byte "
     "limit, counter 0..300 bytes; empty key = hash mode) followed by 1..40 operations allowed by the mode's contract with operand "
     "lengths biased to {0,1,135,136,137,271,272,273,408,1000}; at a drawn point the object is cloned and the clone plays the peer "
     "(decrypts what the original encrypts and vice versa, otherwise the same calls). Oracle: every output equals an independent "
     "Cyclist reference (Xoodyak-spec style, byte-array Keccak-p[1600,12]) anchored to the repository's XKCP transcript and to "
     "stdlib SHA3-256; peer outputs equal; in-place equals out-of-place. Plus every operand length 0..410 for each operation "
     "(exhaustive sub-space). Run on the assembly permutation and on the generic one (-tags appengine). Non-trivial = program with "
     "an empty or >=136-byte operand, or >=3 operations of >=2 kinds; distinct by hash of the program.",
     ["operations documented to panic in the wrong mode are not called", "len(key)+len(id)+1 <= 136 (the documented absorbKey buffer)",
      "the reference implementation is mine; its anchors are cyclist/testdata/xkcp.txt and crypto/sha3"],
     [dict(name="asm", pkg="cyclist", run="^TestVerifC13", shards=dict(quick=8, thorough=16), thorough_scale=100),
      dict(name="generic", pkg="cyclist", tags=("appengine",), run="^TestVerifC13", shards=dict(quick=8, thorough=16), thorough_scale=100)],
     exhaustive_core=True,
     text="Differential search: generated duplex programs are run on the real Cyclist (both permutation builds) and on an independent "
          "reference written from the specification and anchored to published vectors; every output, and the synchrony of a cloned "
          "peer, is compared. Single-operation programs are enumerated for every operand length across three rate blocks.",
     note="trusts the reference (anchored to XKCP transcript + SHA3-256 of the standard library) and rapid",
     technique="property-based differential testing (rapid) against an independent reference + bounded enumeration",
     design="DESIGN.md section 4, C13")
