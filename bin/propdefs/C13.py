from props import prop

prop("C13", "exploration",
     "rapid draws programs: initialisation (InitializeEmpty / Initialize with key 1..135 bytes, id filling up to the 136-byte "
     "limit, counter 0..300 bytes; empty key = hash mode) followed by 1..40 operations allowed by the mode's contract with operand "
     "lengths biased to {0,1,135,136,137,271,272,273,408,1000}; one operation in thirteen INITIALISES THE OBJECT AGAIN (drawn like "
     "the first initialisation, so the mode may change) in whatever phase the previous operation left it; at a drawn point the "
     "object is cloned and the clone plays the peer (decrypts what the original encrypts and vice versa, otherwise the same calls, "
     "including re-initialisation). Oracle: every output equals an independent Cyclist reference (Xoodyak-spec style, byte-array "
     "Keccak-p[1600,12]) anchored to the repository's XKCP transcript and to stdlib SHA3-256 - for 'initialise again' the reference "
     "starts a fresh instance ('resets ... to an initial state'); peer outputs equal. Plus every operand length 0..410 for each "
     "operation and every (mode, last operation, operand length, way of initialising again) combination (exhaustive sub-spaces). "
     "Concurrent dimension: 2..4 goroutines each run an independently drawn program 1..6 times on objects of their OWN after a "
     "common start barrier (only real duplex calls run between barrier and end; reference traces are computed beforehand); every "
     "repetition must equal the reference; a deviating repetition is re-run alone to tell a sequential defect from interference "
     "between independent objects. Run on the assembly permutation, on the generic one (-tags appengine), and the concurrent test "
     "also under the race detector. Non-trivial = program with an empty or >=136-byte operand, or >=3 operations of >=2 kinds "
     "(concurrent case: >=2 such programs); distinct by hash of the program(s).",
     ["operations documented to panic in the wrong mode are not called", "no object is ever shared between goroutines (each goroutine creates and uses its own)", "len(key)+len(id)+1 <= 136 (the documented absorbKey buffer)",
      "the reference implementation is mine; its anchors are cyclist/testdata/xkcp.txt and crypto/sha3"],
     [dict(name="asm", pkg="cyclist", run="^TestVerifC13(Programs|Boundaries)$", shards=dict(quick=8, thorough=16), thorough_scale=100),
      dict(name="generic", pkg="cyclist", tags=("appengine",), run="^TestVerifC13(Programs|Boundaries)$", shards=dict(quick=8, thorough=16), thorough_scale=100),
      dict(name="concurrent", pkg="cyclist", run="^TestVerifC13Concurrent$", shards=dict(quick=8, thorough=8), thorough_scale=20),
      dict(name="concurrent-generic", pkg="cyclist", tags=("appengine",), run="^TestVerifC13Concurrent$", shards=dict(quick=8, thorough=8), thorough_scale=20),
      dict(name="concurrent-race", pkg="cyclist", race=True, run="^TestVerifC13Concurrent$", shards=dict(quick=8, thorough=8), thorough_scale=10)],
     exhaustive_core=True,
     text="Differential search: generated duplex programs are run on the real Cyclist (both permutation builds) and on an independent "
          "reference written from the specification and anchored to published vectors; every output, and the synchrony of a cloned "
          "peer, is compared; programs re-initialise the object in mid-run. Single-operation programs are enumerated for every "
          "operand length across three rate blocks. Several goroutines running programs on objects of their own at the same time "
          "must each match the reference (also under the race detector).",
     note="trusts the reference (anchored to XKCP transcript + SHA3-256 of the standard library), rapid and the race detector; "
          "interleavings of the concurrent test are those the Go scheduler produces, not enumerated",
     technique="property-based differential testing (rapid) against an independent reference + bounded enumeration; concurrent "
               "runs on independent objects, also under the race detector",
     design="DESIGN.md section 4, C13")
