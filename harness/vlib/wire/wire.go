// Package wire holds codec-agnostic helpers of the C18 (round trip) and C11
// (decoder robustness) checks: edge-biased length draws, an in-memory stream
// that continues with sentinel bytes and counts what was consumed, a net.Conn
// facade over it, byte-level mutations described as pure data, and the
// allocation meter of the C11 decoder oracle.
//
// It imports nothing from hop-go, so in-package harness tests may use it.
package wire

import (
	"encoding/binary"
	"io"
	"net"
	"runtime"
	"runtime/debug"
	"time"

	"pgregory.net/rapid"
	"verif.local/vlib"
)

// EdgeLens are the field lengths every codec is probed with (DESIGN.md C18).
var EdgeLens = []int{0, 1, 252, 253, 254, 255, 256, 257, 511, 512, 65535, 65536}

// DrawLen draws a field length: an edge value not above max (about two thirds
// of the draws), otherwise a small or a uniformly random length in [0,max].
func DrawLen(t *rapid.T, label string, max int) int {
	switch rapid.IntRange(0, 5).Draw(t, label+"-kind") {
	case 0, 1, 2, 3:
		var ok []int
		for _, e := range EdgeLens {
			if e <= max {
				ok = append(ok, e)
			}
		}
		return rapid.SampledFrom(ok).Draw(t, label+"-edge")
	case 4:
		m := 40
		if m > max {
			m = max
		}
		return rapid.IntRange(0, m).Draw(t, label+"-small")
	default:
		return rapid.IntRange(0, max).Draw(t, label+"-any")
	}
}

// AtLimit reports whether n is at or just past one of the framing limits
// (one-byte and two-byte length prefixes, the 256-byte id block, the 512-byte
// id chunk).
func AtLimit(n int) bool {
	switch n {
	case 252, 253, 254, 255, 256, 257, 511, 512, 513, 65535, 65536, 65537:
		return true
	}
	return false
}

// Text returns n deterministic printable ASCII bytes (letters and digits)
// derived from seed.
func Text(seed uint64, n int) string {
	const alpha = "abcdefghijklmnopqrstuvwxyzABCDEFGHIJKLMNOPQRSTUVWXYZ0123456789"
	b := vlib.Fill(seed, n)
	for i := range b {
		b[i] = alpha[int(b[i])%len(alpha)]
	}
	return string(b)
}

// SentinelByte is what a Stream yields after its data when Sentinel is set.
const SentinelByte = 0xA5

// Stream is an in-memory reader. With Sentinel set it never ends: after Data it
// yields SentinelByte forever (a stream that carries further traffic after the
// message). Without it, it reports io.EOF after Data (a closed stream).
// Consumed counts the bytes handed to the reader.
type Stream struct {
	Data     []byte
	Sentinel bool
	Consumed int
	EOFs     int // how often io.EOF was returned
	// MaxEOFs > 0: panic with ErrSpin when the reader keeps calling Read
	// after that many EOF results (a decoder that never gives up).
	MaxEOFs int
	// MaxSentinel > 0 bounds the sentinel bytes handed out; beyond it Read
	// reports io.EOF (keeps a mis-framed giant read finite).
	MaxSentinel int
}

// SpinPanic is the panic value used when a reader ignores EOF MaxEOFs times.
const SpinPanic = "verif: reader keeps reading after EOF"

func (s *Stream) Read(p []byte) (int, error) {
	if len(p) == 0 {
		return 0, nil
	}
	if s.Consumed < len(s.Data) {
		n := copy(p, s.Data[s.Consumed:])
		s.Consumed += n
		return n, nil
	}
	if s.Sentinel {
		n := len(p)
		if s.MaxSentinel > 0 {
			left := s.MaxSentinel - (s.Consumed - len(s.Data))
			if left <= 0 {
				s.EOFs++
				return 0, io.EOF
			}
			if n > left {
				n = left
			}
		}
		for i := 0; i < n; i++ {
			p[i] = SentinelByte
		}
		s.Consumed += n
		return n, nil
	}
	s.EOFs++
	if s.MaxEOFs > 0 && s.EOFs > s.MaxEOFs {
		panic(SpinPanic)
	}
	return 0, io.EOF
}

// Conn presents a Stream as a net.Conn (reads from the stream, discards writes,
// ignores deadlines) for decoders whose signature demands one.
type Conn struct {
	*Stream
	Written int
}

type addr struct{}

func (addr) Network() string { return "verif" }
func (addr) String() string  { return "verif" }

func (c *Conn) Write(p []byte) (int, error)      { c.Written += len(p); return len(p), nil }
func (c *Conn) Close() error                     { return nil }
func (c *Conn) LocalAddr() net.Addr              { return addr{} }
func (c *Conn) RemoteAddr() net.Addr             { return addr{} }
func (c *Conn) SetDeadline(time.Time) error      { return nil }
func (c *Conn) SetReadDeadline(time.Time) error  { return nil }
func (c *Conn) SetWriteDeadline(time.Time) error { return nil }

// ---------------------------------------------------------------------------
// mutations as pure data

// Field locates a length (or other numeric) field inside a valid encoding.
type Field struct {
	Off   int
	Width int // 1, 2 or 4 bytes, big endian
}

// Mut is one byte-level mutation; every choice is data so that a case replays.
//
//	Op 0  length field number A (mod number of fields) := value class B:
//	      0→0, 1→1, 2→actual-1, 3→actual+1, 4→0xFF, 5→0xFFFF, 6→0xFFFFFFFF, 7→B2 (raw)
//	Op 1  truncate to A mod (len+1) bytes
//	Op 2  append B bytes of Fill(A)
//	Op 3  byte at A mod len := B
//	Op 4  splice: insert a copy of the block [A mod len, +B) at offset B2 mod (len+1)
//	Op 5  flip bit A mod (8*len)
//	Op 6  delete the block [A mod len, +B)
type Mut struct {
	Op int    `json:"op"`
	A  uint64 `json:"a"`
	B  int    `json:"b"`
	B2 uint64 `json:"b2,omitempty"`
}

// LenClassValue maps a value class of Mut Op 0 to the field value.
func LenClassValue(class int, actual uint64, raw uint64) uint64 {
	switch class {
	case 0:
		return 0
	case 1:
		return 1
	case 2:
		return actual - 1
	case 3:
		return actual + 1
	case 4:
		return 0xFF
	case 5:
		return 0xFFFF
	case 6:
		return 0xFFFFFFFF
	}
	return raw
}

func getField(b []byte, f Field) uint64 {
	switch f.Width {
	case 1:
		return uint64(b[f.Off])
	case 2:
		return uint64(binary.BigEndian.Uint16(b[f.Off:]))
	default:
		return uint64(binary.BigEndian.Uint32(b[f.Off:]))
	}
}

func putField(b []byte, f Field, v uint64) {
	switch f.Width {
	case 1:
		b[f.Off] = byte(v)
	case 2:
		binary.BigEndian.PutUint16(b[f.Off:], uint16(v))
	default:
		binary.BigEndian.PutUint32(b[f.Off:], uint32(v))
	}
}

// Mutate applies the mutations in order to a copy of enc. Field offsets refer
// to the unmutated encoding; a field mutation that no longer fits (after a
// truncation) is skipped. cap32 > 0 caps the value written into 4-byte fields
// (used by C18, which must not trigger the C11 allocation defect on purpose).
func Mutate(enc []byte, fields []Field, muts []Mut, cap32 uint64) []byte {
	b := append([]byte(nil), enc...)
	for _, m := range muts {
		switch m.Op {
		case 0:
			if len(fields) == 0 {
				continue
			}
			f := fields[int(m.A%uint64(len(fields)))]
			if f.Off+f.Width > len(b) {
				continue
			}
			val := LenClassValue(m.B, getField(b, f), m.B2)
			if f.Width == 4 && cap32 > 0 && uint32(val) > uint32(cap32) {
				val = cap32
			}
			putField(b, f, val)
		case 1:
			b = b[:int(m.A%uint64(len(b)+1))]
		case 2:
			n := m.B
			if n < 0 {
				n = 0
			}
			if n > 1<<17 {
				n = 1 << 17
			}
			b = append(b, vlib.Fill(m.A, n)...)
		case 3:
			if len(b) > 0 {
				b[int(m.A%uint64(len(b)))] = byte(m.B)
			}
		case 4:
			if len(b) > 0 {
				from := int(m.A % uint64(len(b)))
				n := m.B
				if n < 0 {
					n = 0
				}
				if from+n > len(b) {
					n = len(b) - from
				}
				blk := append([]byte(nil), b[from:from+n]...)
				at := int(m.B2 % uint64(len(b)+1))
				nb := append([]byte(nil), b[:at]...)
				nb = append(nb, blk...)
				b = append(nb, b[at:]...)
			}
		case 5:
			if len(b) > 0 {
				k := int(m.A % uint64(8*len(b)))
				b[k/8] ^= 1 << (k % 8)
			}
		case 6:
			if len(b) > 0 {
				from := int(m.A % uint64(len(b)))
				n := m.B
				if n < 0 {
					n = 0
				}
				if from+n > len(b) {
					n = len(b) - from
				}
				b = append(b[:from:from], b[from+n:]...)
			}
		}
	}
	return b
}

// GenMuts draws 0..max mutations, biased towards length-field edits.
func GenMuts(t *rapid.T, min, max int) []Mut {
	g := rapid.Custom(func(t *rapid.T) Mut {
		op := rapid.SampledFrom([]int{0, 0, 0, 0, 1, 1, 2, 3, 3, 4, 5, 6}).Draw(t, "op")
		m := Mut{Op: op}
		switch op {
		case 0:
			m.A = rapid.Uint64Range(0, 15).Draw(t, "field")
			m.B = rapid.IntRange(0, 7).Draw(t, "class")
			if m.B == 7 {
				m.B2 = rapid.SampledFrom([]uint64{2, 3, 4, 5, 0x7F, 0x80, 0xFE, 0x100, 0x101, 0x1FF, 0x200, 0x201, 0x7FFF, 0x8000, 0xFFFE, 0x10000, 0x7FFFFFFF, 0x80000000}).Draw(t, "raw")
			}
		case 1:
			m.A = rapid.Uint64Range(0, 1<<20).Draw(t, "cut")
		case 2:
			m.A = rapid.Uint64().Draw(t, "seed")
			m.B = rapid.SampledFrom([]int{1, 2, 3, 8, 64, 255, 256, 300, 1024}).Draw(t, "n")
		case 3:
			m.A = rapid.Uint64Range(0, 1<<20).Draw(t, "off")
			m.B = rapid.IntRange(0, 255).Draw(t, "val")
		case 4, 6:
			m.A = rapid.Uint64Range(0, 1<<20).Draw(t, "from")
			m.B = rapid.SampledFrom([]int{1, 2, 3, 4, 8, 35, 64, 255, 256}).Draw(t, "n")
			m.B2 = rapid.Uint64Range(0, 1<<20).Draw(t, "at")
		case 5:
			m.A = rapid.Uint64Range(0, 1<<23).Draw(t, "bit")
		}
		return m
	})
	return rapid.SliceOfN(g, min, max).Draw(t, "muts")
}

// ---------------------------------------------------------------------------
// allocation meter (C11 decoder oracle)

// AllocBudget is the C11 decoder bound: 256 KiB + 16 x input length.
func AllocBudget(inputLen int) uint64 { return 256<<10 + 16*uint64(inputLen) }

// AllocDuring returns the bytes allocated (cumulative, freed or not) by the
// whole process while fn runs. Meaningful only while no other goroutine of the
// test allocates, which holds for the decoder tests (single goroutine).
func AllocDuring(fn func()) uint64 {
	var a, b runtime.MemStats
	runtime.ReadMemStats(&a)
	fn()
	runtime.ReadMemStats(&b)
	return b.TotalAlloc - a.TotalAlloc
}

// DecoderCall runs one decoder call on in (a closed stream: io.EOF after the
// bytes) under the C11 decoder oracles: no panic (vlib.Guard signature), the
// decoder gives up after end-of-stream (at most 1000 further reads), and the
// bytes allocated during the call stay within AllocBudget(len(in)).
func DecoderCall(v *vlib.Verdict, decoder string, in []byte, call func(st *Stream)) {
	st := &Stream{Data: in, MaxEOFs: 1000}
	var panicked bool
	alloc := AllocDuring(func() {
		panicked = guardSpin(v, decoder, func() { call(st) })
	})
	if panicked {
		return
	}
	if budget := AllocBudget(len(in)); alloc > budget {
		v.Failf("C11:alloc-out-of-proportion:"+decoder, "%d input bytes made %s allocate %d bytes (bound %d)", len(in), decoder, alloc, budget)
	}
}

// guardSpin is vlib.Guard plus recognition of the harness's own "reader never
// gives up after EOF" panic.
func guardSpin(v *vlib.Verdict, decoder string, fn func()) (panicked bool) {
	defer func() {
		if r := recover(); r != nil {
			panicked = true
			if s, ok := r.(string); ok && s == SpinPanic {
				v.Failf("C11:no-progress-after-eof:"+decoder, "%s kept reading after 1000 end-of-stream results", decoder)
				return
			}
			v.Failf(vlib.PanicSig(r, string(debug.Stack())), "panic: %v", r)
		}
	}()
	fn()
	return false
}
