// Package wire holds codec-agnostic helpers of the C18 (round trip) and C11
// (decoder robustness) checks: edge-biased length draws, an in-memory stream
// that continues with sentinel bytes and counts what was consumed, a net.Conn
// facade over it, byte-level mutations described as pure data, and the
// allocation meter of the C11 decoder oracle.
//
// It imports nothing from hop-go, so in-package harness tests may use it.
package wire

import (
	"encoding/binary"
	"fmt"
	"io"
	"net"
	"runtime"
	"runtime/debug"
	"time"

	"pgregory.net/rapid"
	"verif.local/vlib"
)

// EdgeLens are the field lengths every codec is probed with (DESIGN.md C18).
var EdgeLens = []int{0, 1, 252, 253, 254, 255, 256, 257, 511, 512, 65535, 65536}

// DrawLen draws a field length: an edge value not above max (about two thirds
// of the draws), otherwise a small or a uniformly random length in [0,max].
func DrawLen(t *rapid.T, label string, max int) int {
	switch rapid.IntRange(0, 5).Draw(t, label+"-kind") {
	case 0, 1, 2, 3:
		var ok []int
		for _, e := range EdgeLens {
			if e <= max {
				ok = append(ok, e)
			}
		}
		return rapid.SampledFrom(ok).Draw(t, label+"-edge")
	case 4:
		m := 40
		if m > max {
			m = max
		}
		return rapid.IntRange(0, m).Draw(t, label+"-small")
	default:
		return rapid.IntRange(0, max).Draw(t, label+"-any")
	}
}

// AtLimit reports whether n is at or just past one of the framing limits
// (one-byte and two-byte length prefixes, the 256-byte id block, the 512-byte
// id chunk).
func AtLimit(n int) bool {
	switch n {
	case 252, 253, 254, 255, 256, 257, 511, 512, 513, 65535, 65536, 65537:
		return true
	}
	return false
}

// Text returns n deterministic printable ASCII bytes (letters and digits)
// derived from seed.
func Text(seed uint64, n int) string {
	const alpha = "abcdefghijklmnopqrstuvwxyzABCDEFGHIJKLMNOPQRSTUVWXYZ0123456789"
	b := vlib.Fill(seed, n)
	for i := range b {
		b[i] = alpha[int(b[i])%len(alpha)]
	}
	return string(b)
}

// SentinelByte is what a Stream yields after its data when Sentinel is set.
const SentinelByte = 0xA5

// Stream is an in-memory reader. With Sentinel set it never ends: after Data it
// yields SentinelByte forever (a stream that carries further traffic after the
// message). Without it, it reports io.EOF after Data (a closed stream).
// Consumed counts the bytes handed to the reader.
type Stream struct {
	Data     []byte
	Sentinel bool
	Consumed int
	EOFs     int // how often io.EOF was returned
	// MaxEOFs > 0: panic with ErrSpin when the reader keeps calling Read
	// after that many EOF results (a decoder that never gives up).
	MaxEOFs int
	// MaxSentinel > 0 bounds the sentinel bytes handed out; beyond it Read
	// reports io.EOF (keeps a mis-framed giant read finite).
	MaxSentinel int
	// Dlv is the delivery pattern: how the bytes are cut into Read results.
	// The zero value hands out as much as the caller asks for.
	Dlv Delivery
	// Reads counts the Read calls made with a non-empty buffer.
	Reads int

	lastZero bool // the previous Read returned (0, nil) because of Dlv.Zeros
	dataRead int  // Read calls that were allowed to return data (index into Dlv.Sizes, per-call mode)
	segIdx   int  // next segment size to use (segment mode)
	segLeft  int  // bytes left in the current segment (segment mode)
}

// SpinPanic is the panic value used when a reader ignores EOF MaxEOFs times.
const SpinPanic = "verif: reader keeps reading after EOF"

func (s *Stream) Read(p []byte) (int, error) {
	if len(p) == 0 {
		return 0, nil
	}
	k := s.Reads
	s.Reads++
	if s.Dlv.Zeros>>(uint(k)%64)&1 == 1 && !s.lastZero {
		// "nothing happened" (allowed by io.Reader); never twice in a row
		s.lastZero = true
		return 0, nil
	}
	s.lastZero = false
	if max := s.Dlv.next(s); max > 0 && len(p) > max {
		p = p[:max]
	}
	if s.Consumed < len(s.Data) {
		n := copy(p, s.Data[s.Consumed:])
		s.Consumed += n
		s.Dlv.took(s, n)
		if s.Dlv.EOFWithData && !s.Sentinel && s.Consumed == len(s.Data) {
			// the end of the stream is reported together with the last bytes
			s.EOFs++
			return n, io.EOF
		}
		return n, nil
	}
	if s.Sentinel {
		n := len(p)
		if s.MaxSentinel > 0 {
			left := s.MaxSentinel - (s.Consumed - len(s.Data))
			if left <= 0 {
				s.EOFs++
				if s.MaxEOFs > 0 && s.EOFs > s.MaxEOFs {
					panic(SpinPanic)
				}
				return 0, io.EOF
			}
			if n > left {
				n = left
			}
		}
		for i := 0; i < n; i++ {
			p[i] = SentinelByte
		}
		s.Consumed += n
		s.Dlv.took(s, n)
		return n, nil
	}
	s.EOFs++
	if s.MaxEOFs > 0 && s.EOFs > s.MaxEOFs {
		panic(SpinPanic)
	}
	return 0, io.EOF
}

// Conn presents a Stream as a net.Conn (reads from the stream, discards writes,
// ignores deadlines) for decoders whose signature demands one.
type Conn struct {
	*Stream
	Written int
}

type addr struct{}

func (addr) Network() string { return "verif" }
func (addr) String() string  { return "verif" }

func (c *Conn) Write(p []byte) (int, error)      { c.Written += len(p); return len(p), nil }
func (c *Conn) Close() error                     { return nil }
func (c *Conn) LocalAddr() net.Addr              { return addr{} }
func (c *Conn) RemoteAddr() net.Addr             { return addr{} }
func (c *Conn) SetDeadline(time.Time) error      { return nil }
func (c *Conn) SetReadDeadline(time.Time) error  { return nil }
func (c *Conn) SetWriteDeadline(time.Time) error { return nil }

// ---------------------------------------------------------------------------
// delivery patterns as pure data

// Delivery modes.
const (
	DeliverWhole    = 0 // a Read returns as much as the caller asks for
	DeliverSegments = 1 // the stream is cut into segments of Sizes[0], Sizes[1], ... bytes (cycled); a Read never crosses a cut
	DeliverPerCall  = 2 // the k-th data-returning Read returns at most Sizes[k mod len(Sizes)] bytes
)

// Delivery describes how a Stream hands the same bytes to its reader: the
// decoders under test take an io.Reader (a tube, a unix socket, a relayed
// connection), and io.Reader allows short reads, (0, nil) results and the end
// of the stream being reported together with the last bytes. Every choice is
// data so that a case replays; the zero value is the whole-buffer delivery.
type Delivery struct {
	Mode  int   `json:"mode,omitempty"`
	Sizes []int `json:"sizes,omitempty"` // sizes < 1 count as 1; empty means {1}
	// EOFWithData: on a closed stream the Read that hands out the last data
	// byte also returns io.EOF (testing/iotest.DataErrReader; what
	// tubes.Reliable.Read does once the peer's FIN was processed). In the
	// round-trip tests a case with this flag reads from a closed stream
	// instead of one that continues with sentinel bytes.
	EOFWithData bool `json:"eofd,omitempty"`
	// Zeros: bit (k mod 64) set = the k-th Read call returns (0, nil) without
	// handing out anything, unless the previous call already did.
	Zeros uint64 `json:"zeros,omitempty"`
}

// Whole reports whether d is the plain whole-buffer delivery.
func (d Delivery) Whole() bool {
	return d.Mode == DeliverWhole && !d.EOFWithData && d.Zeros == 0
}

func (d Delivery) size(i int) int {
	if len(d.Sizes) == 0 {
		return 1
	}
	if n := d.Sizes[i%len(d.Sizes)]; n >= 1 {
		return n
	}
	return 1
}

// next returns the largest number of bytes the coming Read may hand out
// (0 = no limit).
func (d Delivery) next(s *Stream) int {
	switch d.Mode {
	case DeliverSegments:
		if s.segLeft == 0 {
			s.segLeft = d.size(s.segIdx)
			s.segIdx++
		}
		return s.segLeft
	case DeliverPerCall:
		n := d.size(s.dataRead)
		s.dataRead++
		return n
	}
	return 0
}

func (d Delivery) took(s *Stream, n int) {
	if d.Mode == DeliverSegments {
		s.segLeft -= n
	}
}

// Pieces cuts a message of n bytes into the piece lengths of d for fixtures
// that cannot read from a Stream (a real tube: one Write per piece). Both
// modes cut at the cumulative sizes. At most maxPieces pieces are returned:
// the last one takes the remainder.
func (d Delivery) Pieces(n, maxPieces int) []int {
	if d.Mode == DeliverWhole || n == 0 {
		return []int{n}
	}
	var out []int
	for i := 0; n > 0; i++ {
		k := d.size(i)
		if k > n || len(out) == maxPieces-1 {
			k = n
		}
		out = append(out, k)
		n -= k
	}
	return out
}

// Name is the label of the delivery class.
func (d Delivery) Name() string {
	name := "whole"
	switch d.Mode {
	case DeliverSegments:
		name = "segments"
	case DeliverPerCall:
		name = "per-call"
	}
	if d.Mode != DeliverWhole {
		one := true
		for i := range d.Sizes {
			one = one && d.size(i) == 1
		}
		if one {
			name = "one-byte"
		}
	}
	return name
}

// Labels adds the delivery class of a case to its verdict.
func (d Delivery) Labels(v *vlib.Verdict) {
	v.Label("delivery=" + d.Name())
	if d.EOFWithData {
		v.Label("delivery:eof-with-last-data")
	}
	if d.Zeros != 0 {
		v.Label("delivery:zero-reads")
	}
}

var deliverySizes = []int{1, 1, 2, 3, 4, 5, 7, 8, 9, 16, 31, 32, 33, 64, 127, 255, 256, 257, 512, 4096}

// DrawDelivery draws a delivery pattern: whole buffer (1 in 8), one byte at a
// time (2 in 8), segments or per-call limits of 1..6 drawn sizes (5 in 8);
// independently the end of the stream arrives with the last bytes (1 in 2)
// and some Read calls return (0, nil) first (1 in 2).
func DrawDelivery(t *rapid.T) Delivery {
	var d Delivery
	switch rapid.SampledFrom([]int{0, 1, 1, 2, 2, 2, 3, 3}).Draw(t, "dlv-kind") {
	case 1:
		d.Mode = rapid.SampledFrom([]int{DeliverSegments, DeliverPerCall}).Draw(t, "dlv-one")
		d.Sizes = []int{1}
	case 2, 3:
		d.Mode = rapid.SampledFrom([]int{DeliverSegments, DeliverSegments, DeliverPerCall}).Draw(t, "dlv-mode")
		n := rapid.SampledFrom([]int{1, 1, 2, 3, 4, 6}).Draw(t, "dlv-n")
		for i := 0; i < n; i++ {
			if rapid.Bool().Draw(t, "dlv-size-edge") {
				d.Sizes = append(d.Sizes, rapid.SampledFrom(deliverySizes).Draw(t, "dlv-size"))
			} else {
				d.Sizes = append(d.Sizes, rapid.IntRange(1, 600).Draw(t, "dlv-size-any"))
			}
		}
	}
	d.EOFWithData = rapid.Bool().Draw(t, "dlv-eof")
	switch rapid.SampledFrom([]int{0, 0, 0, 1, 2, 3}).Draw(t, "dlv-zeros") {
	case 1:
		d.Zeros = rapid.Uint64().Draw(t, "dlv-zero-mask")
	case 2:
		d.Zeros = 0x5555555555555555 // before every Read that returns something
	case 3:
		d.Zeros = 1 << uint(rapid.IntRange(0, 12).Draw(t, "dlv-zero-at"))
	}
	return d
}

// DeliveryFor derives a delivery pattern from a number (enumerations: the case
// index; native fuzzing: a hash of the input). It cycles through one byte at a
// time, short segments, per-call limits, the plain delivery with the end of the
// stream attached to the last bytes, and (0, nil) results.
func DeliveryFor(i uint64) Delivery {
	table := SweepDeliveries()
	return table[i%uint64(len(table))]
}

// SweepDeliveries is the fixed table behind DeliveryFor (for enumerations that
// can afford every entry per case).
func SweepDeliveries() []Delivery {
	return []Delivery{
		{Mode: DeliverPerCall, Sizes: []int{1}},
		{Mode: DeliverSegments, Sizes: []int{2, 1, 3}, EOFWithData: true},
		{Mode: DeliverWhole, EOFWithData: true},
		{Mode: DeliverSegments, Sizes: []int{1}, Zeros: 0x5555555555555555},
		{Mode: DeliverPerCall, Sizes: []int{3, 1, 64}, Zeros: 0x9249249249249249},
		{Mode: DeliverSegments, Sizes: []int{255, 1, 256}, EOFWithData: true, Zeros: 2},
		{Mode: DeliverSegments, Sizes: []int{7}},
		{Mode: DeliverPerCall, Sizes: []int{1}, EOFWithData: true, Zeros: 0xAAAAAAAAAAAAAAAA},
	}
}

// Hash64 is FNV-1a over b (DeliveryFor argument of the native fuzz targets).
func Hash64(b []byte) uint64 {
	h := uint64(14695981039346656037)
	for _, c := range b {
		h = (h ^ uint64(c)) * 1099511628211
	}
	return h
}

// Redeliver is the delivery clause of the codec checks: the bytes in, which
// the real decoder was already given in one piece (outcome: accepted0, and
// consumed0 bytes taken from the stream when accepted), are decoded again
// from a stream that delivers them according to d; acceptance, value and the
// number of bytes consumed must be those of the whole-buffer decode, because
// what a message decodes to is a function of its bytes, not of how the
// transport cut them. decode runs the real decoder on st and, when it
// succeeds, returns the first wire field in which its value differs from the
// whole-buffer value ("" = equal).
//
// sentinel: the whole-buffer decode read from a stream that continues with
// sentinel bytes; the delivered one does too unless d.EOFWithData asks for a
// closed stream. id is the property id, codec the decoder's name (signature).
func Redeliver(v *vlib.Verdict, id, codec string, in []byte, sentinel bool, d Delivery, accepted0 bool, consumed0 int,
	decode func(st *Stream) (field, detail string, err error)) {
	d.Labels(v)
	if d.Whole() {
		return
	}
	st := &Stream{Data: in, Dlv: d, MaxEOFs: 1000}
	if sentinel && !d.EOFWithData {
		st.Sentinel, st.MaxSentinel = true, 1<<20
	}
	var field, detail string
	var err error
	if guardSpin(v, id, codec, func() { field, detail, err = decode(st) }) {
		return
	}
	sig := id + ":delivery-changes-decoding:" + codec + ":"
	how := fmt.Sprintf("delivery %s %+v", d.Name(), d)
	switch {
	case accepted0 && err != nil:
		v.Failf(sig+"rejected", "%d bytes that decode when handed over in one piece are rejected under %s: %v (consumed %d)", len(in), how, err, st.Consumed)
	case !accepted0 && err == nil:
		v.Failf(sig+"accepted", "%d bytes that are rejected when handed over in one piece are accepted under %s (consumed %d)", len(in), how, st.Consumed)
	case !accepted0:
		// rejected both times
	case field != "":
		v.Failf(sig+field, "under %s field %s differs from the whole-buffer decode of the same %d bytes: %s (consumed %d instead of %d)", how, field, len(in), detail, st.Consumed, consumed0)
	case st.Consumed != consumed0:
		v.Failf(sig+"consumed", "under %s the decoder consumed %d bytes instead of %d (of %d)", how, st.Consumed, consumed0, len(in))
	}
}

// ---------------------------------------------------------------------------
// mutations as pure data

// Field locates a length (or other numeric) field inside a valid encoding.
type Field struct {
	Off   int
	Width int // 1, 2 or 4 bytes, big endian
}

// Mut is one byte-level mutation; every choice is data so that a case replays.
//
//	Op 0  length field number A (mod number of fields) := value class B:
//	      0→0, 1→1, 2→actual-1, 3→actual+1, 4→0xFF, 5→0xFFFF, 6→0xFFFFFFFF, 7→B2 (raw)
//	Op 1  truncate to A mod (len+1) bytes
//	Op 2  append B bytes of Fill(A)
//	Op 3  byte at A mod len := B
//	Op 4  splice: insert a copy of the block [A mod len, +B) at offset B2 mod (len+1)
//	Op 5  flip bit A mod (8*len)
//	Op 6  delete the block [A mod len, +B)
type Mut struct {
	Op int    `json:"op"`
	A  uint64 `json:"a"`
	B  int    `json:"b"`
	B2 uint64 `json:"b2,omitempty"`
}

// LenClassValue maps a value class of Mut Op 0 to the field value.
func LenClassValue(class int, actual uint64, raw uint64) uint64 {
	switch class {
	case 0:
		return 0
	case 1:
		return 1
	case 2:
		return actual - 1
	case 3:
		return actual + 1
	case 4:
		return 0xFF
	case 5:
		return 0xFFFF
	case 6:
		return 0xFFFFFFFF
	}
	return raw
}

func getField(b []byte, f Field) uint64 {
	switch f.Width {
	case 1:
		return uint64(b[f.Off])
	case 2:
		return uint64(binary.BigEndian.Uint16(b[f.Off:]))
	default:
		return uint64(binary.BigEndian.Uint32(b[f.Off:]))
	}
}

func putField(b []byte, f Field, v uint64) {
	switch f.Width {
	case 1:
		b[f.Off] = byte(v)
	case 2:
		binary.BigEndian.PutUint16(b[f.Off:], uint16(v))
	default:
		binary.BigEndian.PutUint32(b[f.Off:], uint32(v))
	}
}

// Mutate applies the mutations in order to a copy of enc. Field offsets refer
// to the unmutated encoding; a field mutation that no longer fits (after a
// truncation) is skipped. cap32 > 0 caps the value written into 4-byte fields
// (used by C18, which must not trigger the C11 allocation defect on purpose).
func Mutate(enc []byte, fields []Field, muts []Mut, cap32 uint64) []byte {
	b := append([]byte(nil), enc...)
	for _, m := range muts {
		switch m.Op {
		case 0:
			if len(fields) == 0 {
				continue
			}
			f := fields[int(m.A%uint64(len(fields)))]
			if f.Off+f.Width > len(b) {
				continue
			}
			val := LenClassValue(m.B, getField(b, f), m.B2)
			if f.Width == 4 && cap32 > 0 && uint32(val) > uint32(cap32) {
				val = cap32
			}
			putField(b, f, val)
		case 1:
			b = b[:int(m.A%uint64(len(b)+1))]
		case 2:
			n := m.B
			if n < 0 {
				n = 0
			}
			if n > 1<<17 {
				n = 1 << 17
			}
			b = append(b, vlib.Fill(m.A, n)...)
		case 3:
			if len(b) > 0 {
				b[int(m.A%uint64(len(b)))] = byte(m.B)
			}
		case 4:
			if len(b) > 0 {
				from := int(m.A % uint64(len(b)))
				n := m.B
				if n < 0 {
					n = 0
				}
				if from+n > len(b) {
					n = len(b) - from
				}
				blk := append([]byte(nil), b[from:from+n]...)
				at := int(m.B2 % uint64(len(b)+1))
				nb := append([]byte(nil), b[:at]...)
				nb = append(nb, blk...)
				b = append(nb, b[at:]...)
			}
		case 5:
			if len(b) > 0 {
				k := int(m.A % uint64(8*len(b)))
				b[k/8] ^= 1 << (k % 8)
			}
		case 6:
			if len(b) > 0 {
				from := int(m.A % uint64(len(b)))
				n := m.B
				if n < 0 {
					n = 0
				}
				if from+n > len(b) {
					n = len(b) - from
				}
				b = append(b[:from:from], b[from+n:]...)
			}
		}
	}
	return b
}

// GenMuts draws 0..max mutations, biased towards length-field edits.
func GenMuts(t *rapid.T, min, max int) []Mut {
	g := rapid.Custom(func(t *rapid.T) Mut {
		op := rapid.SampledFrom([]int{0, 0, 0, 0, 1, 1, 2, 3, 3, 4, 5, 6}).Draw(t, "op")
		m := Mut{Op: op}
		switch op {
		case 0:
			m.A = rapid.Uint64Range(0, 15).Draw(t, "field")
			m.B = rapid.IntRange(0, 7).Draw(t, "class")
			if m.B == 7 {
				m.B2 = rapid.SampledFrom([]uint64{2, 3, 4, 5, 0x7F, 0x80, 0xFE, 0x100, 0x101, 0x1FF, 0x200, 0x201, 0x7FFF, 0x8000, 0xFFFE, 0x10000, 0x7FFFFFFF, 0x80000000}).Draw(t, "raw")
			}
		case 1:
			m.A = rapid.Uint64Range(0, 1<<20).Draw(t, "cut")
		case 2:
			m.A = rapid.Uint64().Draw(t, "seed")
			m.B = rapid.SampledFrom([]int{1, 2, 3, 8, 64, 255, 256, 300, 1024}).Draw(t, "n")
		case 3:
			m.A = rapid.Uint64Range(0, 1<<20).Draw(t, "off")
			m.B = rapid.IntRange(0, 255).Draw(t, "val")
		case 4, 6:
			m.A = rapid.Uint64Range(0, 1<<20).Draw(t, "from")
			m.B = rapid.SampledFrom([]int{1, 2, 3, 4, 8, 35, 64, 255, 256}).Draw(t, "n")
			m.B2 = rapid.Uint64Range(0, 1<<20).Draw(t, "at")
		case 5:
			m.A = rapid.Uint64Range(0, 1<<23).Draw(t, "bit")
		}
		return m
	})
	return rapid.SliceOfN(g, min, max).Draw(t, "muts")
}

// ---------------------------------------------------------------------------
// allocation meter (C11 decoder oracle)

// AllocBudget is the C11 decoder bound: 256 KiB + 16 x input length.
func AllocBudget(inputLen int) uint64 { return 256<<10 + 16*uint64(inputLen) }

// AllocDuring returns the bytes allocated (cumulative, freed or not) by the
// whole process while fn runs. Meaningful only while no other goroutine of the
// test allocates, which holds for the decoder tests (single goroutine).
func AllocDuring(fn func()) uint64 {
	var a, b runtime.MemStats
	runtime.ReadMemStats(&a)
	fn()
	runtime.ReadMemStats(&b)
	return b.TotalAlloc - a.TotalAlloc
}

// DecoderCall runs one decoder call on in (a closed stream: io.EOF after the
// bytes) under the C11 decoder oracles: no panic (vlib.Guard signature), the
// decoder gives up after end-of-stream (at most 1000 further reads), and the
// bytes allocated during the call stay within AllocBudget(len(in)).
func DecoderCall(v *vlib.Verdict, decoder string, in []byte, call func(st *Stream)) {
	decoderCall(v, decoder, in, Delivery{}, call)
}

// DecoderCallDlv is DecoderCall with the bytes delivered according to d (short
// reads, (0, nil) results, end-of-stream reported with the last bytes): the
// same oracles must hold under every delivery pattern. The delivery class is
// added to the labels of the case.
func DecoderCallDlv(v *vlib.Verdict, decoder string, in []byte, d Delivery, call func(st *Stream)) {
	d.Labels(v)
	decoderCall(v, decoder, in, d, call)
}

// DecoderCallBoth runs the decoder call on in handed over in one piece and,
// if that raised nothing and d is not the whole-buffer delivery, once more
// with in delivered according to d.
func DecoderCallBoth(v *vlib.Verdict, decoder string, in []byte, d Delivery, call func(st *Stream)) {
	d.Labels(v)
	decoderCall(v, decoder, in, Delivery{}, call)
	if v.OK() && !d.Whole() {
		decoderCall(v, decoder, in, d, call)
	}
}

func decoderCall(v *vlib.Verdict, decoder string, in []byte, d Delivery, call func(st *Stream)) {
	st := &Stream{Data: in, MaxEOFs: 1000, Dlv: d}
	var panicked bool
	alloc := AllocDuring(func() {
		panicked = guardSpin(v, "C11", decoder, func() { call(st) })
	})
	if panicked {
		return
	}
	if budget := AllocBudget(len(in)); alloc > budget {
		v.Failf("C11:alloc-out-of-proportion:"+decoder, "%d input bytes made %s allocate %d bytes (bound %d)", len(in), decoder, alloc, budget)
	}
}

// guardSpin is vlib.Guard plus recognition of the harness's own "reader never
// gives up after EOF" panic.
func guardSpin(v *vlib.Verdict, id, decoder string, fn func()) (panicked bool) {
	defer func() {
		if r := recover(); r != nil {
			panicked = true
			if s, ok := r.(string); ok && s == SpinPanic {
				v.Failf(id+":no-progress-after-eof:"+decoder, "%s kept reading after 1000 end-of-stream results", decoder)
				return
			}
			v.Failf(vlib.PanicSig(r, string(debug.Stack())), "panic: %v", r)
		}
	}()
	fn()
	return false
}
