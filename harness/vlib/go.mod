module verif.local/vlib

go 1.24

require pgregory.net/rapid v1.3.0
