package vlib

import (
	"fmt"
	"regexp"
	"runtime/debug"
	"strings"
)

var frameRe = regexp.MustCompile(`(?m)^(hop\.computer/hop/[^\s(]+(?:\([^)]*\))?[^\s(]*)\(`)

// PanicSig turns a recovered panic value and stack into a root-cause shaped
// signature: panic:<top-most frame in hop.computer/hop that is not harness
// code>:<error class>.
func PanicSig(val any, stack string) string {
	top := "unknown"
	lines := strings.Split(stack, "\n")
	for i := 0; i+1 < len(lines); i++ {
		l := lines[i]
		if !strings.HasPrefix(l, "hop.computer/hop/") {
			continue
		}
		if strings.Contains(lines[i+1], "zz_verif") {
			continue
		}
		if k := strings.LastIndex(l, "("); k > 0 {
			l = l[:k]
		}
		l = strings.TrimPrefix(l, "hop.computer/hop/")
		// strip generic instantiation noise and closure suffixes
		top = l
		break
	}
	return "panic:" + top + ":" + PanicClass(fmt.Sprint(val))
}

// PanicClass maps a panic message to a coarse class.
func PanicClass(msg string) string {
	switch {
	case strings.Contains(msg, "index out of range"):
		return "index-out-of-range"
	case strings.Contains(msg, "slice bounds out of range"):
		return "slice-bounds"
	case strings.Contains(msg, "nil pointer dereference"):
		return "nil-deref"
	case strings.Contains(msg, "makeslice"):
		return "makeslice"
	case strings.Contains(msg, "send on closed channel"):
		return "send-on-closed-channel"
	case strings.Contains(msg, "close of closed channel"):
		return "close-of-closed-channel"
	case strings.Contains(msg, "close of nil channel"):
		return "close-of-nil-channel"
	case strings.Contains(msg, "negative WaitGroup"):
		return "negative-waitgroup"
	case strings.Contains(msg, "unimplemented"):
		return "unimplemented"
	case strings.Contains(msg, "integer divide by zero"):
		return "divide-by-zero"
	case strings.Contains(msg, "concurrent map"):
		return "concurrent-map"
	case strings.Contains(msg, "interface conversion"), strings.Contains(msg, "type assertion"):
		return "type-assertion"
	case strings.Contains(msg, "out of memory"), strings.Contains(msg, "cannot allocate"):
		return "out-of-memory"
	case strings.Contains(msg, "unlock of unlocked"):
		return "unlock-of-unlocked"
	case strings.Contains(msg, "all goroutines are asleep"), strings.Contains(msg, "deadlock"):
		return "deadlock"
	}
	msg = strings.Map(func(r rune) rune {
		if r >= 'a' && r <= 'z' || r >= 'A' && r <= 'Z' || r >= '0' && r <= '9' {
			return r
		}
		return '-'
	}, msg)
	if len(msg) > 40 {
		msg = msg[:40]
	}
	return msg
}

// Guard runs fn and converts a panic on the calling goroutine into a violation.
// It returns true when fn panicked.
func Guard(v *Verdict, fn func()) (panicked bool) {
	defer func() {
		if r := recover(); r != nil {
			st := string(debug.Stack())
			v.Failf(PanicSig(r, st), "panic: %v", r)
			panicked = true
		}
	}()
	fn()
	return false
}
