//go:build go1.25

package vlib

import (
	"runtime"
	"strings"
)

// BubbleQuiet is synctest.Wait for situations in which goroutines of the bubble wait for a sync.Mutex: such a wait
// is not "durable", so synctest.Wait would not return (and the bubble's clock stands still) for as long as it lasts.
// BubbleQuiet polls the goroutine dump until every OTHER goroutine of the caller's bubble is blocked - durably or on a
// mutex, a condition variable, a semaphore - i.e. none is running or runnable. Since nothing outside the bubble
// interacts with it and the virtual clock only moves when all goroutines are durably blocked, that state is stable:
// everything that could happen without the caller's next action has happened. It yields the processor between
// polls and never sleeps (inside a bubble a sleep would wait for the clock). Returns false if the bubble has not
// become quiet after maxPolls polls (the caller should then give the case up as inconclusive).
// Must be called from a goroutine of the bubble; no wall-clock value is read.
func BubbleQuiet(maxPolls int) bool {
	for i := 0; i < maxPolls; i++ {
		if bubbleQuietNow() {
			return true
		}
		for k := 0; k < 1+i%8; k++ {
			runtime.Gosched()
		}
	}
	return false
}

var quietBuf = make([]byte, 256<<10)

func bubbleQuietNow() bool {
	// (cases run one at a time per process and only one goroutine of a bubble polls: the buffer is not shared)
	n := runtime.Stack(quietBuf, true)
	for n == len(quietBuf) {
		quietBuf = make([]byte, 2*len(quietBuf))
		n = runtime.Stack(quietBuf, true)
	}
	dump := string(quietBuf[:n])
	// the first goroutine of the dump is the caller: "goroutine 12 [running, synctest bubble 3]:"
	self := goroutineHeader(dump)
	bubble := bubbleOf(self)
	if bubble == "" {
		return true // not in a bubble: nothing to wait for
	}
	first := true
	for _, g := range strings.Split(dump, "\n\n") {
		head := goroutineHeader(g)
		if head == "" {
			continue
		}
		if first {
			first = false
			continue // the caller itself
		}
		if bubbleOf(head) != bubble {
			continue
		}
		switch goroutineState(head) {
		case "running", "runnable", "syscall", "preempted", "copystack", "waiting", "idle", "":
			return false
		}
	}
	return true
}

func goroutineHeader(g string) string {
	g = strings.TrimLeft(g, "\n")
	if !strings.HasPrefix(g, "goroutine ") {
		return ""
	}
	if i := strings.IndexByte(g, '\n'); i >= 0 {
		g = g[:i]
	}
	return g
}

// bubbleOf extracts "synctest bubble N" from a goroutine header ("" if the goroutine is in no bubble).
func bubbleOf(head string) string {
	i := strings.Index(head, "synctest bubble ")
	if i < 0 {
		return ""
	}
	rest := head[i:]
	if j := strings.IndexAny(rest, ",]"); j >= 0 {
		rest = rest[:j]
	}
	return rest
}

// goroutineState extracts the scheduler state / wait reason: the text after '[' up to the first ',' or ']'.
func goroutineState(head string) string {
	i := strings.IndexByte(head, '[')
	if i < 0 {
		return ""
	}
	rest := head[i+1:]
	if j := strings.IndexAny(rest, ",]"); j >= 0 {
		rest = rest[:j]
	}
	return strings.TrimSpace(rest)
}
