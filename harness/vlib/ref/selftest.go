package ref

import (
	"bufio"
	"bytes"
	"crypto/sha3"
	"encoding/hex"
	"fmt"
	"os"
	"path/filepath"
	"strings"
)

type entry struct {
	Action string
	B      []byte
}

func parseTranscript(path string) ([]entry, error) {
	f, err := os.Open(path)
	if err != nil {
		return nil, err
	}
	defer f.Close()
	var out []entry
	sc := bufio.NewScanner(f)
	sc.Buffer(make([]byte, 1<<22), 1<<22)
	for sc.Scan() {
		line := strings.TrimSpace(sc.Text())
		if line == "" {
			continue
		}
		i := strings.Index(line, "[")
		j := strings.Index(line, ":")
		if i < 0 || j < 0 {
			return nil, fmt.Errorf("bad line %q", line)
		}
		b, err := hex.DecodeString(strings.ReplaceAll(strings.TrimSpace(line[j+1:]), " ", ""))
		if err != nil {
			return nil, err
		}
		out = append(out, entry{Action: line[:i], B: b})
	}
	return out, sc.Err()
}

// sha3ViaRef computes SHA3-256 with the reference permutation (24 rounds).
func sha3ViaRef(msg []byte) []byte {
	const rate = 136
	var s State
	m := append(append([]byte(nil), msg...), 0x06)
	for len(m)%rate != 0 {
		m = append(m, 0)
	}
	m[len(m)-1] |= 0x80
	for off := 0; off < len(m); off += rate {
		for i := 0; i < rate; i++ {
			s[i] ^= m[off+i]
		}
		KeccakP(&s, 24)
	}
	return append([]byte(nil), s[:32]...)
}

// SelfTestKeccak anchors the permutation to the standard library's SHA3-256.
func SelfTestKeccak() error {
	msg := make([]byte, 0, 700)
	x := uint32(12345)
	for n := 0; n < 700; n++ {
		if n%7 == 0 || n == 135 || n == 136 || n == 137 {
			want := sha3.Sum256(msg)
			got := sha3ViaRef(msg)
			if !bytes.Equal(got, want[:]) {
				return fmt.Errorf("reference Keccak-p[1600,24] does not reproduce SHA3-256 for a %d-byte message", n)
			}
		}
		x = x*1664525 + 1013904223
		msg = append(msg, byte(x>>24))
	}
	return nil
}

// SelfTestCyclist replays the published XKCP Cyclist transcript of the repository.
func SelfTestCyclist(repo string) error {
	if err := SelfTestKeccak(); err != nil {
		return err
	}
	tr, err := parseTranscript(filepath.Join(repo, "cyclist/testdata/xkcp.txt"))
	if err != nil {
		return err
	}
	key := make([]byte, 32)
	for i := range key {
		key[i] = byte(i)
	}
	ini := NewRef(key, nil, nil)
	rsp := NewRef(key, nil, nil)
	var prevPlain []byte
	checked := 0
	for i, e := range tr {
		switch e.Action {
		case "absorb":
			ini.Absorb(e.B)
			rsp.Absorb(e.B)
		case "squeeze":
			a := ini.Squeeze(len(e.B))
			b := rsp.Squeeze(len(e.B))
			if !bytes.Equal(a, e.B) || !bytes.Equal(b, e.B) {
				return fmt.Errorf("xkcp.txt entry %d: reference squeeze differs from published vector", i)
			}
			checked++
		case "encrypt-ir":
			prevPlain = e.B
			ct := ini.Encrypt(e.B)
			if i+1 < len(tr) && tr[i+1].Action == "decrypt-ir" {
				if !bytes.Equal(ct, tr[i+1].B) {
					return fmt.Errorf("xkcp.txt entry %d: reference ciphertext differs from published vector", i)
				}
				checked++
			} else {
				rsp.Decrypt(ct)
			}
		case "decrypt-ir":
			pt := rsp.Decrypt(e.B)
			if !bytes.Equal(pt, prevPlain) {
				return fmt.Errorf("xkcp.txt entry %d: reference decrypt differs", i)
			}
			checked++
		default:
			return fmt.Errorf("xkcp.txt: unknown action %q", e.Action)
		}
	}
	if checked < 3 {
		return fmt.Errorf("xkcp.txt: only %d vectors checked", checked)
	}
	return nil
}

// SelfTestKravatte replays the published XKCP Kravatte and SANSE transcripts.
func SelfTestKravatte(repo string) error {
	if err := SelfTestKeccak(); err != nil {
		return err
	}
	// Kravatte: in* last out, repeated; strings accumulate across "last".
	tr, err := parseTranscript(filepath.Join(repo, "kravatte/testdata/xkcp.txt"))
	if err != nil {
		return err
	}
	var key []byte
	var seq []BitString
	var cur []byte
	outs := 0
	for i, e := range tr {
		switch e.Action {
		case "key":
			key = e.B
		case "in":
			cur = append(cur, e.B...)
		case "last":
			cur = append(cur, e.B...)
			seq = append(seq, Bytes(cur))
			cur = nil
		case "out":
			got := Farfalle(key, seq, len(e.B))
			if !bytes.Equal(got, e.B) {
				return fmt.Errorf("kravatte xkcp.txt entry %d: reference output differs from published vector", i)
			}
			outs++
		}
	}
	if outs < 2 {
		return fmt.Errorf("kravatte xkcp.txt: only %d outputs checked", outs)
	}
	// SANSE
	tr, err = parseTranscript(filepath.Join(repo, "kravatte/testdata/xkcp-sanse.txt"))
	if err != nil {
		return err
	}
	var pt, ad, ct, tag []byte
	for _, e := range tr {
		switch e.Action {
		case "key":
			key = e.B
		case "plaintext":
			pt = e.B
		case "ad":
			ad = e.B
		case "wrap":
			ct = e.B
		case "tag":
			tag = e.B
		}
	}
	if len(pt) == 0 || len(tag) != 32 {
		return fmt.Errorf("xkcp-sanse.txt: could not find vectors")
	}
	s := &Sanse{Key: key}
	c, tg := s.Wrap(ad, pt)
	if !bytes.Equal(c, ct) || !bytes.Equal(tg, tag) {
		return fmt.Errorf("xkcp-sanse.txt: reference wrap differs from published vector")
	}
	u := &Sanse{Key: key}
	p, ok := u.Unwrap(ad, ct, tag)
	if !ok || !bytes.Equal(p, pt) {
		return fmt.Errorf("xkcp-sanse.txt: reference unwrap fails on published vector")
	}
	return nil
}
