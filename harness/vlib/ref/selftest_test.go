package ref

import "testing"

func TestSelf(t *testing.T) {
	if err := SelfTestCyclist("/repo"); err != nil {
		t.Fatal(err)
	}
	if err := SelfTestKravatte("/repo"); err != nil {
		t.Fatal(err)
	}
}
