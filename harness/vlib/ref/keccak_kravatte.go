package ref

// ---- Keccak-p[1600, nr] reference, byte-array state, straight from FIPS 202 ----

type State [200]byte

func lane(s *State, x, y int) uint64 {
	var v uint64
	o := 8 * (x + 5*y)
	for i := 7; i >= 0; i-- {
		v = v<<8 | uint64(s[o+i])
	}
	return v
}
func setLane(s *State, x, y int, v uint64) {
	o := 8 * (x + 5*y)
	for i := 0; i < 8; i++ {
		s[o+i] = byte(v >> (8 * i))
	}
}
func rotl(v uint64, n int) uint64 {
	n %= 64
	if n == 0 {
		return v
	}
	return v<<n | v>>(64-n)
}

// rc(t) LFSR from FIPS 202 Algorithm 5
func rcBit(t int) uint64 {
	if t%255 == 0 {
		return 1
	}
	r := uint16(1) // R = 10000000 as bit list R[0..7]; represent R[i] as bit i
	for i := 1; i <= t%255; i++ {
		r <<= 1 // R = 0 || R
		if r&0x100 != 0 {
			r ^= 0x71 // R[0]^=R[8]; R[4]^=R[8]; R[5]^=R[8]; R[6]^=R[8]
		}
		r &= 0xff | 0x100
		r &= 0xff
	}
	return uint64(r & 1)
}

func roundConst(ir int) uint64 {
	var rc uint64
	for j := 0; j <= 6; j++ {
		if rcBit(j+7*ir) == 1 {
			rc |= 1 << ((1 << j) - 1)
		}
	}
	return rc
}

func KeccakP(s *State, nr int) {
	for ir := 24 - nr; ir < 24; ir++ {
		var a [5][5]uint64
		for x := 0; x < 5; x++ {
			for y := 0; y < 5; y++ {
				a[x][y] = lane(s, x, y)
			}
		}
		// theta
		var c, d [5]uint64
		for x := 0; x < 5; x++ {
			c[x] = a[x][0] ^ a[x][1] ^ a[x][2] ^ a[x][3] ^ a[x][4]
		}
		for x := 0; x < 5; x++ {
			d[x] = c[(x+4)%5] ^ rotl(c[(x+1)%5], 1)
		}
		for x := 0; x < 5; x++ {
			for y := 0; y < 5; y++ {
				a[x][y] ^= d[x]
			}
		}
		// rho + pi
		var b [5][5]uint64
		x, y := 1, 0
		b[0][0] = a[0][0]
		for t := 0; t < 24; t++ {
			r := ((t + 1) * (t + 2) / 2) % 64
			nx, ny := y, (2*x+3*y)%5
			b[nx][ny] = rotl(a[x][y], r)
			x, y = nx, ny
		}
		// chi
		for x := 0; x < 5; x++ {
			for y := 0; y < 5; y++ {
				a[x][y] = b[x][y] ^ (^b[(x+1)%5][y] & b[(x+2)%5][y])
			}
		}
		// iota
		a[0][0] ^= roundConst(ir)
		for x := 0; x < 5; x++ {
			for y := 0; y < 5; y++ {
				setLane(s, x, y, a[x][y])
			}
		}
	}
}

// ---- Farfalle / Kravatte (Achouffe) as a whole-message function ----

func xorInto(dst *State, src *State) {
	for i := range dst {
		dst[i] ^= src[i]
	}
}

func rollC(k *State) {
	x0 := lane(k, 0, 4)
	x1 := lane(k, 1, 4)
	n := rotl(x0, 7) ^ x1 ^ (x1 >> 3)
	for x := 0; x < 4; x++ {
		setLane(k, x, 4, lane(k, x+1, 4))
	}
	setLane(k, 4, 4, n)
}

func rollE(y *State) {
	// lanes (x,3) and (x,4) for x=0..4 form a 10-lane shift register
	idx := [][2]int{{0, 3}, {1, 3}, {2, 3}, {3, 3}, {4, 3}, {0, 4}, {1, 4}, {2, 4}, {3, 4}, {4, 4}}
	x0 := lane(y, 0, 3)
	x1 := lane(y, 1, 3)
	x2 := lane(y, 2, 3)
	n := rotl(x0, 7) ^ rotl(x1, 18) ^ (x2 & (x1 >> 1))
	for i := 0; i < 9; i++ {
		setLane(y, idx[i][0], idx[i][1], lane(y, idx[i+1][0], idx[i+1][1]))
	}
	setLane(y, 4, 4, n)
}

// BitString is a byte slice plus a bit length (bits are little-endian within bytes).
type BitString struct {
	B    []byte
	Bits int
}

func Bytes(b []byte) BitString { return BitString{append([]byte(nil), b...), 8 * len(b)} }

// AppendBits appends the low n bits of v (LSB first) to s.
func (s BitString) AppendBits(v uint, n int) BitString {
	out := BitString{append([]byte(nil), s.B...), s.Bits}
	for i := 0; i < n; i++ {
		bit := (v >> uint(i)) & 1
		if out.Bits%8 == 0 {
			out.B = append(out.B, 0)
		}
		out.B[out.Bits/8] |= byte(bit) << uint(out.Bits%8)
		out.Bits++
	}
	return out
}

const nr = 6

// Farfalle computes n output bytes at offset 0 for the sequence of strings seq
// (seq[0] is compressed first).
func Farfalle(key []byte, seq []BitString, n int) []byte {
	var k State
	copy(k[:], key)
	k[len(key)] ^= 1 // pad10* to b bits: 1 then zeros
	KeccakP(&k, nr)
	kr := k
	var x State
	for _, m := range seq {
		p := m.AppendBits(1, 1) // pad10*
		nblocks := (len(p.B) + 199) / 200
		if nblocks == 0 {
			nblocks = 1
		}
		for i := 0; i < nblocks; i++ {
			var blk State
			lo := i * 200
			hi := lo + 200
			if hi > len(p.B) {
				hi = len(p.B)
			}
			copy(blk[:], p.B[lo:hi])
			xorInto(&blk, &kr)
			rollC(&kr)
			KeccakP(&blk, nr)
			xorInto(&x, &blk)
		}
		rollC(&kr) // one extra roll between strings
	}
	y := x
	KeccakP(&y, nr)
	out := make([]byte, 0, n+200)
	for len(out) < n {
		z := y
		rollE(&y)
		KeccakP(&z, nr)
		xorInto(&z, &kr)
		out = append(out, z[:]...)
	}
	return out[:n]
}

// ---- Kravatte-SANSE ----

type Sanse struct {
	Key     []byte
	History []BitString // history[0] compressed first (oldest)
	E       uint
}

const T = 32

func (s *Sanse) Wrap(ad, p []byte) (c, tag []byte) {
	if len(ad) > 0 || len(p) == 0 {
		s.History = append(s.History, Bytes(ad).AppendBits(0, 1).AppendBits(s.E, 1))
	}
	if len(p) > 0 {
		hp := append(append([]BitString(nil), s.History...), Bytes(p).AppendBits(0b10, 2).AppendBits(s.E, 1))
		tag = Farfalle(s.Key, hp, T)
		ht := append(append([]BitString(nil), s.History...), Bytes(tag).AppendBits(0b11, 2).AppendBits(s.E, 1))
		ks := Farfalle(s.Key, ht, len(p))
		c = make([]byte, len(p))
		for i := range p {
			c[i] = p[i] ^ ks[i]
		}
		s.History = hp
	} else {
		tag = Farfalle(s.Key, s.History, T)
	}
	s.E ^= 1
	return
}

func (s *Sanse) Unwrap(ad, c, tag []byte) (p []byte, ok bool) {
	if len(ad) > 0 || len(c) == 0 {
		s.History = append(s.History, Bytes(ad).AppendBits(0, 1).AppendBits(s.E, 1))
	}
	if len(c) > 0 {
		ht := append(append([]BitString(nil), s.History...), Bytes(tag).AppendBits(0b11, 2).AppendBits(s.E, 1))
		ks := Farfalle(s.Key, ht, len(c))
		p = make([]byte, len(c))
		for i := range c {
			p[i] = c[i] ^ ks[i]
		}
		s.History = append(s.History, Bytes(p).AppendBits(0b10, 2).AppendBits(s.E, 1))
	}
	t2 := Farfalle(s.Key, s.History, T)
	s.E ^= 1
	if string(t2) != string(tag) {
		return nil, false
	}
	return p, true
}
