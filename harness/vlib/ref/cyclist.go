package ref

// Cyclist reference (Xoodyak spec, Algorithms 2-3), f = Keccak-p[1600,12].
type RefCyclist struct {
	s              State
	up             bool // phase == up
	keyed          bool
	rAbsorb, rSqz  int
}

const (
	fb      = 200
	rHash   = 136
	rKin    = 136
	rKout   = 136
	lRatch  = 32
)

func NewRef(key, id, counter []byte) *RefCyclist {
	c := &RefCyclist{up: true, rAbsorb: rHash, rSqz: rHash}
	if len(key) > 0 {
		c.absorbKey(key, id, counter)
	}
	return c
}

func split(x []byte, n int) [][]byte {
	if len(x) == 0 {
		return [][]byte{{}}
	}
	var out [][]byte
	for len(x) > 0 {
		k := n
		if k > len(x) {
			k = len(x)
		}
		out = append(out, x[:k])
		x = x[k:]
	}
	return out
}

func (c *RefCyclist) downF(x []byte, cd byte) {
	// s ^= x || 0x01 || 0^* || (cd & 0x01 if hash)
	for i, b := range x {
		c.s[i] ^= b
	}
	c.s[len(x)] ^= 0x01
	if !c.keyed {
		cd &= 0x01
	}
	c.s[fb-1] ^= cd
	c.up = false
}

func (c *RefCyclist) upF(n int, cu byte) []byte {
	if c.keyed {
		c.s[fb-1] ^= cu
	}
	KeccakP(&c.s, 12)
	c.up = true
	return append([]byte(nil), c.s[:n]...)
}

func (c *RefCyclist) absorbAny(x []byte, r int, cd byte) {
	for i, blk := range split(x, r) {
		if !c.up {
			c.upF(0, 0)
		}
		d := byte(0)
		if i == 0 {
			d = cd
		}
		c.downF(blk, d)
	}
}

func (c *RefCyclist) absorbKey(k, id, counter []byte) {
	c.keyed = true
	c.rAbsorb = rKin
	c.rSqz = rKout
	buf := append(append(append([]byte(nil), k...), id...), byte(len(id)))
	c.absorbAny(buf, c.rAbsorb, 0x02)
	if len(counter) > 0 {
		c.absorbAny(counter, 1, 0x00)
	}
}

func (c *RefCyclist) crypt(in []byte, decrypt bool) []byte {
	cu := byte(0x80)
	var out []byte
	for _, blk := range split(in, rKout) {
		ks := c.upF(len(blk), cu)
		cu = 0
		o := make([]byte, len(blk))
		for i := range blk {
			o[i] = blk[i] ^ ks[i]
		}
		p := blk
		if decrypt {
			p = o
		}
		c.downF(p, 0x00)
		out = append(out, o...)
	}
	return out
}

func (c *RefCyclist) squeezeAny(l int, cu byte) []byte {
	n := l
	if n > c.rSqz {
		n = c.rSqz
	}
	y := c.upF(n, cu)
	for len(y) < l {
		c.downF(nil, 0)
		n = l - len(y)
		if n > c.rSqz {
			n = c.rSqz
		}
		y = append(y, c.upF(n, 0)...)
	}
	return y
}

func (c *RefCyclist) Absorb(x []byte)          { c.absorbAny(x, c.rAbsorb, 0x03) }
func (c *RefCyclist) Encrypt(p []byte) []byte  { return c.crypt(p, false) }
func (c *RefCyclist) Decrypt(ct []byte) []byte { return c.crypt(ct, true) }
func (c *RefCyclist) Squeeze(l int) []byte     { return c.squeezeAny(l, 0x40) }
func (c *RefCyclist) SqueezeKey(l int) []byte  { return c.squeezeAny(l, 0x20) }
func (c *RefCyclist) Ratchet() {
	c.absorbAny(c.squeezeAny(lRatch, 0x10), c.rAbsorb, 0x00)
}
