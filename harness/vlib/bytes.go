package vlib

// Fill returns n deterministic pseudo-random bytes derived from seed (a keyed
// function, so that any corruption, reordering or cross-delivery of payloads is
// visible from the bytes alone). It is NOT a source of randomness for case
// generation: the seed itself is drawn by rapid.
func Fill(seed uint64, n int) []byte {
	out := make([]byte, n)
	x := seed*0x9E3779B97F4A7C15 + 0xD1B54A32D192ED03
	for i := 0; i < n; i++ {
		x ^= x << 13
		x ^= x >> 7
		x ^= x << 17
		out[i] = byte(x >> 32)
	}
	return out
}
