// Package simnet is an in-memory datagram network for the transport layer.
// Sock satisfies transport.UDPLike structurally. Every datagram handed to
// WriteMsgUDP is logged and passed to the network's Filter (the adversary),
// which decides what is actually delivered. Channel based, so blocking is
// "durable" for testing/synctest; it never blocks a writer.
package simnet

import (
	"fmt"
	"net"
	"os"
	"sync"
	"sync/atomic"
	"syscall"
	"time"
)

// Datagram is one message on the wire.
type Datagram struct {
	Idx   int           // per-network send index (0 for injected datagrams: -1)
	At    time.Duration // (virtual) time since the network was created
	Src   *net.UDPAddr
	Dst   *net.UDPAddr
	Data  []byte
	Delay time.Duration // set by the filter: deliver after this delay
}

// Net is the simulated network.
type Net struct {
	mu    sync.Mutex
	socks map[string]*Sock
	start time.Time
	count int
	// Filter, when set, maps each sent datagram to the datagrams to deliver
	// (none = drop). It runs with the network lock released.
	Filter func(d Datagram) []Datagram
	// Log of everything handed to WriteMsgUDP (before the filter), and of
	// everything delivered.
	Sent          []Datagram
	Delivered     []Datagram
	Undeliverable int
	LogCap        int
}

// New creates a network. Call inside the bubble when virtual time is wanted.
func New() *Net {
	return &Net{socks: map[string]*Sock{}, start: time.Now(), LogCap: 100000}
}

// Family selects the form of the addresses Addr builds from dotted-quad text: 0 the 16-byte IPv4-mapped form (what
// a dual-stack socket reports, and what net.ParseIP returns), 1 the 4-byte form (a udp4 socket), 2 genuine IPv6
// addresses (2001:db8::a.b.c.d). Distinct texts stay distinct addresses in every family. Set it only between cases.
var Family int

// Addr builds a UDP address.
func Addr(ip string, port int) *net.UDPAddr {
	p := net.ParseIP(ip)
	if v4 := p.To4(); v4 != nil {
		switch Family {
		case 1:
			p = v4
		case 2:
			p6 := net.ParseIP("2001:db8::")
			copy(p6[12:], v4)
			p = p6
		}
	}
	return &net.UDPAddr{IP: p, Port: port}
}

func key(a *net.UDPAddr) string {
	if a == nil {
		return ""
	}
	return fmt.Sprintf("%s|%d", a.IP.String(), a.Port)
}

// Sock is one UDP-like socket.
type Sock struct {
	n      *Net
	mu     sync.Mutex
	addr   *net.UDPAddr
	peer   *net.UDPAddr // default destination (connected socket)
	in     chan Datagram
	closed chan struct{}
	once   sync.Once
	rdl    time.Time
	dlCh   chan struct{}
	werr   error
	cerr   error
	gate   atomic.Pointer[WriteGate] // see SetWriteGate
}

// Listen creates a socket bound to addr.
func (n *Net) Listen(addr *net.UDPAddr) *Sock {
	s := &Sock{n: n, addr: addr, in: make(chan Datagram, 4096), closed: make(chan struct{}), dlCh: make(chan struct{})}
	n.mu.Lock()
	n.socks[key(addr)] = s
	n.mu.Unlock()
	return s
}

// Dial creates a socket bound to local whose default destination is remote.
func (n *Net) Dial(local, remote *net.UDPAddr) *Sock {
	s := n.Listen(local)
	s.peer = remote
	return s
}

// Rebind moves the socket to a new local address (a roaming client).
func (s *Sock) Rebind(addr *net.UDPAddr) {
	s.n.mu.Lock()
	s.mu.Lock()
	delete(s.n.socks, key(s.addr))
	s.addr = addr
	s.n.socks[key(addr)] = s
	s.mu.Unlock()
	s.n.mu.Unlock()
}

// Backlog returns the number of datagrams that were delivered to the socket and not read yet (a sender that wants
// back-pressure instead of drops at a full queue can pace itself with it).
func (s *Sock) Backlog() int { return len(s.in) }

// Elapsed returns the time since the network was created.
func (n *Net) Elapsed() time.Duration { return time.Since(n.start) }

func (n *Net) deliver(d Datagram) {
	n.mu.Lock()
	dst := n.socks[key(d.Dst)]
	if len(n.Delivered) < n.LogCap {
		n.Delivered = append(n.Delivered, d)
	}
	if dst == nil {
		n.Undeliverable++
	}
	n.mu.Unlock()
	if dst == nil {
		return
	}
	select {
	case <-dst.closed:
		return
	default:
	}
	select {
	case dst.in <- d:
	default:
	}
}

func (n *Net) route(d Datagram) {
	out := []Datagram{d}
	if n.Filter != nil {
		out = n.Filter(d)
	}
	for _, x := range out {
		x := x
		if x.Delay > 0 {
			time.AfterFunc(x.Delay, func() { n.deliver(x) })
		} else {
			n.deliver(x)
		}
	}
}

// Inject delivers a datagram directly (bypassing the filter), as an off-path
// or on-path attacker would.
func (n *Net) Inject(src, dst *net.UDPAddr, data []byte) {
	n.deliver(Datagram{Idx: -1, At: time.Since(n.start), Src: src, Dst: dst, Data: append([]byte(nil), data...)})
}

// SentSnapshot returns a copy of the send log.
func (n *Net) SentSnapshot() []Datagram {
	n.mu.Lock()
	defer n.mu.Unlock()
	return append([]Datagram(nil), n.Sent...)
}

// DeliveredSnapshot returns a copy of the log of datagrams that reached the delivery step (after filter and delay).
func (n *Net) DeliveredSnapshot() []Datagram {
	n.mu.Lock()
	defer n.mu.Unlock()
	return append([]Datagram(nil), n.Delivered...)
}

// WriteMsgUDP sends a datagram.
func (s *Sock) WriteMsgUDP(b, oob []byte, addr *net.UDPAddr) (int, int, error) {
	select {
	case <-s.closed:
		return 0, 0, net.ErrClosed
	default:
	}
	if g := s.gate.Load(); g != nil {
		// a socket whose send buffer is full: the write waits inside the socket (see SetWriteGate)
		(*g)(b, addr, s.closed)
		select {
		case <-s.closed:
			return 0, 0, net.ErrClosed
		default:
		}
	}
	s.mu.Lock()
	werr := s.werr
	src := s.addr
	if addr == nil {
		addr = s.peer
	}
	s.mu.Unlock()
	if werr != nil {
		return 0, 0, werr
	}
	if addr == nil {
		return 0, 0, fmt.Errorf("simnet: no destination address")
	}
	if addr.Port == 0 {
		// what the kernel does: a datagram can arrive FROM port 0 (raw socket), but none can be sent TO it
		return 0, 0, &net.OpError{Op: "write", Net: "udp", Addr: addr, Err: syscall.EINVAL}
	}
	n := s.n
	d := Datagram{At: time.Since(n.start), Src: src, Dst: addr, Data: append([]byte(nil), b...)}
	n.mu.Lock()
	d.Idx = n.count
	n.count++
	if len(n.Sent) < n.LogCap {
		n.Sent = append(n.Sent, d)
	}
	n.mu.Unlock()
	n.route(d)
	return len(b), 0, nil
}

// WriteGate is called by WriteMsgUDP before the datagram is handed to the network; see SetWriteGate.
type WriteGate func(b []byte, dst *net.UDPAddr, closed <-chan struct{})

// SetWriteGate installs (nil: removes) a function that every later WriteMsgUDP on the socket calls first, with no
// lock held and before the datagram is logged or routed: a socket whose send buffer is full. The function may block -
// on a channel or for a (virtual) duration - and so decides how long the write stays inside the socket; dst is the
// destination the caller passed (nil: the connected default), closed is closed when the socket is closed (a blocked
// write must give up then; WriteMsgUDP then fails with net.ErrClosed as a real socket does). The socket itself adds
// no synchronisation between the blocked writer and other goroutines (one atomic load).
func (s *Sock) SetWriteGate(g WriteGate) {
	if g == nil {
		s.gate.Store(nil)
		return
	}
	s.gate.Store(&g)
}

// ReadMsgUDP receives a datagram.
func (s *Sock) ReadMsgUDP(b, oob []byte) (int, int, int, *net.UDPAddr, error) {
	for {
		s.mu.Lock()
		dl := s.rdl
		ch := s.dlCh
		s.mu.Unlock()
		var tc <-chan time.Time
		var tm *time.Timer
		if !dl.IsZero() {
			wait := time.Until(dl)
			if wait <= 0 {
				select {
				case <-s.closed:
					return 0, 0, 0, nil, net.ErrClosed
				default:
				}
				return 0, 0, 0, nil, os.ErrDeadlineExceeded
			}
			tm = time.NewTimer(wait)
			tc = tm.C
		}
		select {
		case d := <-s.in:
			if tm != nil {
				tm.Stop()
			}
			return copy(b, d.Data), 0, 0, d.Src, nil
		case <-s.closed:
			if tm != nil {
				tm.Stop()
			}
			return 0, 0, 0, nil, net.ErrClosed
		case <-tc:
			return 0, 0, 0, nil, os.ErrDeadlineExceeded
		case <-ch:
			if tm != nil {
				tm.Stop()
			}
		}
	}
}

func (s *Sock) Read(b []byte) (int, error) {
	n, _, _, _, err := s.ReadMsgUDP(b, nil)
	return n, err
}

func (s *Sock) Write(b []byte) (int, error) {
	n, _, err := s.WriteMsgUDP(b, nil, nil)
	return n, err
}

// Close closes the socket. It returns nil unless FailClose was called.
func (s *Sock) Close() error {
	s.once.Do(func() { close(s.closed) })
	s.mu.Lock()
	defer s.mu.Unlock()
	return s.cerr
}

// FailClose makes Close report err (a failing close(2)): the socket is closed all the same, every Close call returns err.
func (s *Sock) FailClose(err error) { s.mu.Lock(); s.cerr = err; s.mu.Unlock() }

// FailWrites makes later writes fail with err.
func (s *Sock) FailWrites(err error) { s.mu.Lock(); s.werr = err; s.mu.Unlock() }

func (s *Sock) LocalAddr() net.Addr {
	s.mu.Lock()
	defer s.mu.Unlock()
	return s.addr
}

func (s *Sock) RemoteAddr() net.Addr {
	if s.peer == nil {
		return &net.UDPAddr{}
	}
	return s.peer
}

func (s *Sock) SetDeadline(t time.Time) error { return s.SetReadDeadline(t) }

func (s *Sock) SetReadDeadline(t time.Time) error {
	s.mu.Lock()
	s.rdl = t
	old := s.dlCh
	s.dlCh = make(chan struct{})
	s.mu.Unlock()
	close(old)
	return nil
}

func (s *Sock) SetWriteDeadline(t time.Time) error { return nil }
