//go:build go1.25

package vlib

import (
	"sync"
	"testing"
	"testing/synctest"
)

// A goroutine parked on a channel while holding a mutex, a second one waiting for that mutex: synctest.Wait would
// not return; BubbleQuiet does, and only after the second goroutine has reached the mutex.
func TestBubbleQuiet(t *testing.T) {
	for i := 0; i < 200; i++ {
		synctest.Test(t, func(t *testing.T) {
			var mu sync.Mutex
			rel := make(chan struct{})
			step := 0
			go func() { mu.Lock(); step = 1; <-rel; mu.Unlock() }()
			synctest.Wait()
			reached := make(chan struct{}, 1)
			go func() {
				for k := 0; k < 1000; k++ {
					_ = AllStacks // some work before the lock
				}
				reached <- struct{}{}
				mu.Lock()
				step = 2
				mu.Unlock()
			}()
			if !BubbleQuiet(100000) {
				t.Fatalf("bubble never quiet")
			}
			select {
			case <-reached:
			default:
				t.Fatalf("BubbleQuiet returned before the second goroutine reached the mutex")
			}
			if step != 1 {
				t.Fatalf("step=%d", step)
			}
			close(rel)
			synctest.Wait()
			if step != 2 {
				t.Fatalf("after release step=%d", step)
			}
		})
	}
}
