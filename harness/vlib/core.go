// Package vlib is the shared harness library of the hop-go verification
// machinery: case recording, statistics, known-finding handling, replay.
//
// A check is a generator for a JSON-serialisable Case plus a pure function
// run(Case) -> Verdict.  Drive connects the two through pgregory.net/rapid,
// persists the case that is about to run (so that a process-killing panic in
// a goroutine of the code under test can still be turned into a replay file by
// the driver), classifies the case for the evidence file, and decides whether a
// reported violation is a listed known finding (counted, search continues) or a
// new one (replay file written, test fails).
package vlib

import (
	"bufio"
	"encoding/json"
	"flag"
	"fmt"
	"hash/fnv"
	"os"
	"path/filepath"
	"sort"
	"strconv"
	"strings"
	"sync"
	"testing"
	"time"

	"pgregory.net/rapid"
)

// Violation is one failed oracle clause. Sig is a short root-cause shaped
// signature (no spaces) that is compared with the known-findings file.
type Violation struct {
	Sig    string `json:"sig"`
	Detail string `json:"detail"`
}

// Verdict is the result of running one case.
type Verdict struct {
	Violations   []Violation
	Labels       []string
	NonTrivial   bool
	Key          string // optional: canonical key used for distinctness instead of the whole case
	Discard      bool   // case could not be used (generator precondition); counted
	Inconclusive string // machinery could not decide (wall-clock watchdog etc.)
	Note         string // free text kept with samples
}

// Failf records a violation.
func (v *Verdict) Failf(sig, format string, args ...any) {
	sig = strings.ReplaceAll(sig, " ", "_")
	v.Violations = append(v.Violations, Violation{Sig: sig, Detail: fmt.Sprintf(format, args...)})
}

// Label adds a classification label (for the evidence histogram).
func (v *Verdict) Label(l string) { v.Labels = append(v.Labels, l) }

// Labelf adds a formatted label.
func (v *Verdict) Labelf(f string, a ...any) { v.Labels = append(v.Labels, fmt.Sprintf(f, a...)) }

// OK reports whether no violation was recorded.
func (v *Verdict) OK() bool { return len(v.Violations) == 0 }

// ---------------------------------------------------------------------------
// environment

// Env is the run configuration handed over by bin/check.
type Env struct {
	ID      string
	Tier    string // quick | thorough
	Seed    uint64
	Shard   int
	Shards  int
	Out     string // directory for stats / fail files
	Known   string // path of known_findings.txt
	Replay  string // path of a replay file ("" = generate)
	Repo    string
	Scale   float64 // multiplier on the quick case counts
	Verbose bool
}

var (
	envOnce sync.Once
	env     Env
)

// GetEnv reads the VERIF_* environment.
func GetEnv() Env {
	envOnce.Do(func() {
		env.ID = os.Getenv("VERIF_ID")
		env.Tier = os.Getenv("VERIF_TIER")
		if env.Tier == "" {
			env.Tier = "quick"
		}
		env.Seed, _ = strconv.ParseUint(os.Getenv("VERIF_SEED"), 10, 64)
		env.Shards = 1
		if s := os.Getenv("VERIF_SHARD"); s != "" {
			fmt.Sscanf(s, "%d/%d", &env.Shard, &env.Shards)
			if env.Shards < 1 {
				env.Shards = 1
			}
		}
		env.Out = os.Getenv("VERIF_OUT")
		if env.Out == "" {
			env.Out, _ = os.MkdirTemp("", "verif-out-")
		}
		env.Known = os.Getenv("VERIF_KNOWN")
		env.Replay = os.Getenv("VERIF_REPLAY")
		env.Repo = os.Getenv("VERIF_REPO")
		if env.Repo == "" {
			env.Repo = "/repo"
		}
		env.Scale = 1
		if s := os.Getenv("VERIF_SCALE"); s != "" {
			if f, err := strconv.ParseFloat(s, 64); err == nil && f > 0 {
				env.Scale = f
			}
		}
		env.Verbose = os.Getenv("VERIF_VERBOSE") != ""
	})
	return env
}

// Thorough reports whether the thorough tier is running.
func Thorough() bool { return GetEnv().Tier == "thorough" }

// ---------------------------------------------------------------------------
// known findings

type knownEntry struct {
	Status   string // open | fixed
	Property string
	Sig      string
}

var (
	knownOnce sync.Once
	knownOpen map[string]bool
)

func loadKnown() {
	knownOpen = map[string]bool{}
	p := GetEnv().Known
	if p == "" {
		return
	}
	f, err := os.Open(p)
	if err != nil {
		return
	}
	defer f.Close()
	sc := bufio.NewScanner(f)
	sc.Buffer(make([]byte, 1<<20), 1<<20)
	for sc.Scan() {
		line := strings.TrimSpace(sc.Text())
		if !strings.HasPrefix(line, "open:") {
			continue
		}
		for _, tok := range strings.Fields(line) {
			if strings.HasPrefix(tok, "sig=") {
				knownOpen[strings.TrimPrefix(tok, "sig=")] = true
			}
		}
	}
}

// KnownOpen reports whether a signature is listed as an open known finding.
// Generators use it to exclude, by construction, trigger classes of findings
// that would kill the process.
func KnownOpen(sig string) bool {
	knownOnce.Do(loadKnown)
	return knownOpen[sig]
}

// ---------------------------------------------------------------------------
// recorder

const (
	maxHashes  = 1 << 20
	maxSamples = 3
)

type sample struct {
	Labels []string        `json:"labels,omitempty"`
	Note   string          `json:"note,omitempty"`
	Case   json.RawMessage `json:"case"`
}

// Stats is what one test function of one shard reports to the driver.
type Stats struct {
	Property     string            `json:"property"`
	Test         string            `json:"test"`
	Shard        int               `json:"shard"`
	Shards       int               `json:"shards"`
	Seed         uint64            `json:"seed"`
	Requested    int               `json:"requested"`
	Evaluations  int               `json:"evaluations"`
	NonTrivial   int               `json:"nontrivial"`
	Discarded    int               `json:"discarded"`
	Inconclusive int               `json:"inconclusive"`
	Violations   int               `json:"violations"`
	KnownHits    map[string]int    `json:"known_hits"`
	Excluded     map[string]int    `json:"excluded_by_construction"`
	Labels       map[string]int    `json:"labels"`
	Samples      []sample          `json:"samples"`
	Hashes       []string          `json:"hashes"`
	HashesCapped bool              `json:"hashes_capped"`
	Exhaustive   bool              `json:"exhaustive"`
	Extra        map[string]any    `json:"extra,omitempty"`
	Complete     bool              `json:"complete"`
	WallS        float64           `json:"wall_s"`
	InconcNotes  []string          `json:"inconclusive_notes,omitempty"`
	Fails        map[string]string `json:"fail_files,omitempty"`
}

// Recorder accumulates the statistics of one test function.
type Recorder struct {
	mu       sync.Mutex
	t        testing.TB
	st       Stats
	hashes   map[uint64]struct{}
	perLabel map[string]int // samples kept per first label
	start    time.Time
	file     string
	cur      string
	lastSave time.Time
	failSigs map[string]bool
}

// Open creates the recorder of a test function for property id.
func Open(t testing.TB, id string) *Recorder {
	e := GetEnv()
	name := strings.ReplaceAll(t.Name(), "/", "_")
	r := &Recorder{t: t, hashes: map[uint64]struct{}{}, perLabel: map[string]int{}, start: time.Now(), failSigs: map[string]bool{}}
	r.st = Stats{Property: id, Test: t.Name(), Shard: e.Shard, Shards: e.Shards, Seed: e.Seed,
		KnownHits: map[string]int{}, Excluded: map[string]int{}, Labels: map[string]int{}, Extra: map[string]any{}, Fails: map[string]string{}}
	os.MkdirAll(e.Out, 0o755)
	r.file = filepath.Join(e.Out, fmt.Sprintf("stats-%s-%d.json", name, e.Shard))
	r.cur = filepath.Join(e.Out, fmt.Sprintf("current-%s-%d.json", name, e.Shard))
	t.Cleanup(func() {
		r.mu.Lock()
		r.st.Complete = !t.Failed()
		r.mu.Unlock()
		r.Save()
		os.Remove(r.cur)
	})
	return r
}

// Shard returns (k, n): this process handles indices i with i%n == k.
func (r *Recorder) Shard() (int, int) { return r.st.Shard, r.st.Shards }

// Mine reports whether enumeration index i belongs to this shard.
func (r *Recorder) Mine(i int) bool { return i%r.st.Shards == r.st.Shard }

// SetExhaustive marks the enumeration of this test as complete over a finite space.
func (r *Recorder) SetExhaustive(b bool) { r.mu.Lock(); r.st.Exhaustive = b; r.mu.Unlock() }

// SetRequested records the planned number of cases.
func (r *Recorder) SetRequested(n int) { r.mu.Lock(); r.st.Requested = n; r.mu.Unlock() }

// Extra stores a free-form value in the stats file.
func (r *Recorder) Extra(k string, v any) { r.mu.Lock(); r.st.Extra[k] = v; r.mu.Unlock() }

// AddExtra adds n to a numeric extra counter.
func (r *Recorder) AddExtra(k string, n int) {
	r.mu.Lock()
	cur, _ := r.st.Extra[k].(int)
	r.st.Extra[k] = cur + n
	r.mu.Unlock()
}

// Excluded counts a draw that was redirected because an open known finding
// with that signature would otherwise kill the process.
func (r *Recorder) Excluded(sig string) { r.mu.Lock(); r.st.Excluded[sig]++; r.mu.Unlock() }

func hash64(b []byte) uint64 {
	h := fnv.New64a()
	h.Write(b)
	return h.Sum64()
}

// Persist writes the case that is about to be executed, so the driver can
// recover it when the process dies.
func (r *Recorder) Persist(c any) []byte {
	b, err := json.Marshal(c)
	if err != nil {
		b = []byte(fmt.Sprintf("%q", fmt.Sprintf("unmarshalable case: %v", err)))
	}
	wrapper := fmt.Sprintf(`{"property":%q,"test":%q,"unit":%q,"case":%s}`, r.st.Property, r.st.Test, os.Getenv("VERIF_UNIT"), b)
	os.WriteFile(r.cur, []byte(wrapper), 0o644)
	return b
}

// Observe records the verdict of a case. It returns the first violation that is
// not an open known finding (nil if none); in that case a fail file has been
// written.
func (r *Recorder) Observe(c any, caseJSON []byte, v *Verdict) *Violation {
	if caseJSON == nil {
		caseJSON, _ = json.Marshal(c)
	}
	r.mu.Lock()
	defer r.mu.Unlock()
	if v.Discard {
		r.st.Discarded++
		return nil
	}
	r.st.Evaluations++
	if v.Inconclusive != "" {
		r.st.Inconclusive++
		if len(r.st.InconcNotes) < 5 {
			r.st.InconcNotes = append(r.st.InconcNotes, v.Inconclusive)
		}
	}
	for _, l := range v.Labels {
		r.st.Labels[l]++
	}
	if v.NonTrivial {
		r.st.NonTrivial++
		var h uint64
		if v.Key != "" {
			h = hash64([]byte(v.Key))
		} else {
			h = hash64(caseJSON)
		}
		if len(r.hashes) < maxHashes {
			r.hashes[h] = struct{}{}
		} else if _, ok := r.hashes[h]; !ok {
			r.st.HashesCapped = true
		}
	}
	// samples: first few per leading label (non-trivial preferred)
	lead := "_"
	if len(v.Labels) > 0 {
		lead = v.Labels[0]
	}
	if v.NonTrivial {
		lead = "nt:" + lead
	}
	if r.perLabel[lead] < maxSamples && len(r.st.Samples) < 40 && len(caseJSON) < 4000 {
		r.perLabel[lead]++
		r.st.Samples = append(r.st.Samples, sample{Labels: v.Labels, Note: v.Note, Case: append(json.RawMessage(nil), caseJSON...)})
	}
	var first *Violation
	for i := range v.Violations {
		vi := &v.Violations[i]
		if KnownOpen(vi.Sig) && GetEnv().Replay == "" {
			r.st.KnownHits[vi.Sig]++
			continue
		}
		if first == nil {
			first = vi
		}
	}
	if first != nil {
		r.st.Violations++
		r.writeFail(first, caseJSON)
	}
	if time.Since(r.lastSave) > 3*time.Second {
		r.saveLocked()
	}
	return first
}

// writeFail writes (overwrites) the replay file for a signature. Rapid re-runs
// the minimal case last, so the file finally holds the shrunk case.
func (r *Recorder) writeFail(vi *Violation, caseJSON []byte) {
	e := GetEnv()
	name := strings.ReplaceAll(r.st.Test, "/", "_")
	fn := filepath.Join(e.Out, fmt.Sprintf("fail-%s-%d-%016x.json", name, e.Shard, hash64([]byte(vi.Sig))))
	doc := map[string]any{
		"property":  r.st.Property,
		"test":      r.st.Test,
		"unit":      os.Getenv("VERIF_UNIT"),
		"signature": vi.Sig,
		"detail":    vi.Detail,
		"case":      json.RawMessage(caseJSON),
	}
	b, _ := json.MarshalIndent(doc, "", " ")
	os.WriteFile(fn, b, 0o644)
	r.st.Fails[vi.Sig] = fn
}

// Save flushes the statistics file.
func (r *Recorder) Save() {
	r.mu.Lock()
	defer r.mu.Unlock()
	r.saveLocked()
}

func (r *Recorder) saveLocked() {
	r.lastSave = time.Now()
	r.st.WallS = time.Since(r.start).Seconds()
	r.st.Hashes = r.st.Hashes[:0]
	for h := range r.hashes {
		r.st.Hashes = append(r.st.Hashes, strconv.FormatUint(h, 36))
	}
	sort.Strings(r.st.Hashes)
	b, _ := json.Marshal(&r.st)
	tmp := r.file + ".tmp"
	if os.WriteFile(tmp, b, 0o644) == nil {
		os.Rename(tmp, r.file)
	}
}

// ---------------------------------------------------------------------------
// Drive: rapid-driven search

// Spec describes a generated check.
type Spec[C any] struct {
	ID    string                 // property id
	Quick int                    // total quick-tier case count (split over shards)
	Gen   func(t *rapid.T) C     // draws a case; every random choice is made here
	Run   func(c C, v *Verdict)  // pure function of the case (and of the code under test)
	Steps int                    // optional -rapid.steps
}

// Count scales a quick-tier count for the tier and the shard.
func Count(quick int) int {
	e := GetEnv()
	n := int(float64(quick)*e.Scale+0.5) / e.Shards
	if n < 1 {
		n = 1
	}
	return n
}

func seedFor(name string) uint64 {
	e := GetEnv()
	s := (e.Seed*1000003 + uint64(e.Shard)*7919 + hash64([]byte(name))) % ((1 << 63) - 2)
	return s + 1
}

// Drive runs the spec: replay mode if VERIF_REPLAY is set, rapid otherwise.
func Drive[C any](t *testing.T, s Spec[C]) {
	e := GetEnv()
	rec := Open(t, s.ID)
	if e.Replay != "" {
		replay(t, rec, s)
		return
	}
	n := Count(s.Quick)
	rec.SetRequested(n)
	flag.Set("rapid.checks", strconv.Itoa(n))
	flag.Set("rapid.seed", strconv.FormatUint(seedFor(t.Name()), 10))
	flag.Set("rapid.nofailfile", "true")
	if s.Steps > 0 {
		flag.Set("rapid.steps", strconv.Itoa(s.Steps))
	}
	rapid.Check(t, func(rt *rapid.T) {
		c := s.Gen(rt)
		js := rec.Persist(c)
		var v Verdict
		s.Run(c, &v)
		if bad := rec.Observe(c, js, &v); bad != nil {
			rt.Fatalf("VERIF-VIOLATION sig=%s detail=%s", bad.Sig, bad.Detail)
		}
	})
}

// ReplayDoc is the on-disk replay format.
type ReplayDoc struct {
	Property  string          `json:"property"`
	Test      string          `json:"test"`
	Signature string          `json:"signature"`
	Detail    string          `json:"detail"`
	Case      json.RawMessage `json:"case"`
}

// LoadReplay reads the replay file named by VERIF_REPLAY if it is meant for
// test function name; ok is false otherwise.
func LoadReplay(name string) (doc ReplayDoc, ok bool) {
	e := GetEnv()
	if e.Replay == "" {
		return doc, false
	}
	b, err := os.ReadFile(e.Replay)
	if err != nil {
		return doc, false
	}
	if json.Unmarshal(b, &doc) != nil {
		return doc, false
	}
	return doc, doc.Test == name
}

func replay[C any](t *testing.T, rec *Recorder, s Spec[C]) {
	doc, ok := LoadReplay(t.Name())
	if !ok {
		t.Skip("replay file is for another test")
	}
	var c C
	if err := json.Unmarshal(doc.Case, &c); err != nil {
		t.Fatalf("VERIF-MACHINERY cannot decode replay case: %v", err)
	}
	js := rec.Persist(c)
	var v Verdict
	s.Run(c, &v)
	rec.Observe(c, js, &v)
	for _, vi := range v.Violations {
		fmt.Printf("VERIF-REPLAY-VIOLATION sig=%s detail=%s\n", vi.Sig, vi.Detail)
	}
	if v.Inconclusive != "" {
		fmt.Printf("VERIF-REPLAY-INCONCLUSIVE %s\n", v.Inconclusive)
	}
	if len(v.Violations) == 0 {
		fmt.Printf("VERIF-REPLAY-OK\n")
	} else {
		t.Fail()
	}
}

// Each runs an enumerated case through the recorder (no rapid). It returns
// false when an unlisted violation was found (the caller may stop early).
func Each[C any](t testing.TB, rec *Recorder, c C, run func(C, *Verdict)) bool {
	var v Verdict
	run(c, &v)
	if bad := rec.Observe(c, nil, &v); bad != nil {
		t.Errorf("VERIF-VIOLATION sig=%s detail=%s", bad.Sig, bad.Detail)
		return false
	}
	return true
}

// ReplayEnumerated handles replay mode for enumeration tests: returns true if the
// test was run in replay mode (and is therefore finished).
func ReplayEnumerated[C any](t *testing.T, id string, run func(C, *Verdict)) bool {
	if GetEnv().Replay == "" {
		return false
	}
	rec := Open(t, id)
	replay(t, rec, Spec[C]{ID: id, Run: run})
	return true
}
