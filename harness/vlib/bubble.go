//go:build go1.25

package vlib

import (
	"fmt"
	"os"
	"path/filepath"
	"runtime"
	"strings"
	"testing"
	"testing/synctest"
	"time"
)

var hangCount int

// BubbleResult describes how a synctest bubble ended.
type BubbleResult struct {
	Panic  string // recovered panic of the bubble (deadlock / leaked goroutines / panic in the root goroutine)
	Stacks string // all goroutine stacks, taken when Panic or Hung
	Hung   bool   // the bubble did not finish within the real-time watchdog
}

// Leak reports whether the bubble ended because goroutines were still blocked
// when the scenario function returned.
func (b BubbleResult) Leak() bool {
	return strings.Contains(b.Panic, "blocked goroutines remain")
}

// Deadlock reports whether every goroutine of the bubble was durably blocked
// with no timer pending while the scenario function was still running.
func (b BubbleResult) Deadlock() bool {
	return strings.Contains(b.Panic, "all goroutines in bubble are blocked")
}

// AllStacks returns the stacks of all goroutines.
func AllStacks() string {
	buf := make([]byte, 1<<20)
	for {
		n := runtime.Stack(buf, true)
		if n < len(buf) {
			return string(buf[:n])
		}
		buf = make([]byte, 2*len(buf))
	}
}

// Bubble runs f inside a synctest bubble (virtual clock) with a real-time
// watchdog. A bubble that hangs in real time (a goroutine parked on the virtual
// clock while holding a contended mutex, or a genuine lock cycle) is reported
// as Hung; its goroutines are abandoned, so the caller should end the process
// soon afterwards.
func Bubble(t *testing.T, realTimeout time.Duration, f func()) BubbleResult {
	done := make(chan BubbleResult, 1)
	go func() {
		var res BubbleResult
		defer func() {
			if r := recover(); r != nil {
				res.Panic = fmt.Sprint(r)
				res.Stacks = AllStacks()
			}
			done <- res
		}()
		synctest.Test(t, func(*testing.T) { f() })
	}()
	tm := time.NewTimer(realTimeout)
	defer tm.Stop()
	select {
	case r := <-done:
		return r
	case <-tm.C:
		st := AllStacks()
		hangCount++
		os.WriteFile(filepath.Join(GetEnv().Out, fmt.Sprintf("hang-%d-%d.txt", GetEnv().Shard, hangCount)), []byte(st), 0o644)
		return BubbleResult{Hung: true, Stacks: st}
	}
}

// BlockedHopFrames extracts, from a goroutine dump, the top-most
// hop.computer/hop frame of every goroutine that belongs to a synctest bubble
// (sorted, de-duplicated) — the root-cause shaped part of a leak/deadlock signature.
func BlockedHopFrames(stacks string) []string {
	seen := map[string]bool{}
	var out []string
	for _, g := range strings.Split(stacks, "\n\n") {
		if !strings.Contains(g, "synctest bubble") && !strings.Contains(g, "bubble") {
			continue
		}
		lines := strings.Split(g, "\n")
		for i := 0; i+1 < len(lines); i++ {
			l := lines[i]
			if !strings.HasPrefix(l, "hop.computer/hop/") || strings.Contains(lines[i+1], "zz_verif") {
				continue
			}
			if k := strings.LastIndex(l, "("); k > 0 {
				l = l[:k]
			}
			l = strings.TrimPrefix(l, "hop.computer/hop/")
			if !seen[l] {
				seen[l] = true
				out = append(out, l)
			}
			break
		}
	}
	sortStrings(out)
	return out
}

func sortStrings(a []string) {
	for i := 1; i < len(a); i++ {
		for j := i; j > 0 && a[j] < a[j-1]; j-- {
			a[j], a[j-1] = a[j-1], a[j]
		}
	}
}
