// Package memconn is an in-memory message network for the tubes layer: a pair
// of endpoints that satisfy transport.MsgConn structurally (ReadMsg/WriteMsg +
// net.Conn) with a per-direction fault schedule that is a pure function of the
// case (parameters + keyed hash of the packet index), channel-based so that
// blocking on it is "durable" for testing/synctest.
package memconn

import (
	"net"
	"os"
	"sync"
	"time"
)

// Params is the fault schedule of one direction. Times are milliseconds since
// the network was created.
type Params struct {
	Seed     uint64     `json:"seed"`
	LossPct  int        `json:"loss"`    // i.i.d. loss probability in percent
	DupPct   int        `json:"dup"`     // probability of delivering a second copy
	DelayMs  int        `json:"delay"`   // base one-way delay
	JitterMs int        `json:"jitter"`  // additional delay 0..JitterMs by keyed hash (causes reordering)
	Outages  [][2]int64 `json:"outages"` // [start,end): everything sent in the interval is lost
	HealMs   int64      `json:"heal"`    // from this time on the direction is faithful (no loss/dup/jitter); <0: never
	DropIdx  []int      `json:"dropidx"` // explicit packet indices that are lost
	BurstAt  int        `json:"burstat"` // packets [BurstAt, BurstAt+BurstLen) are lost
	BurstLen int        `json:"burstlen"`
	// TruncPm > 0: each delivered copy arrives, with this probability in per mille (keyed hash of the packet index),
	// TRUNCATED: its last 1..TruncMax bytes (TruncMax < 1 counts as 1) are cut off, as a datagram damaged on the way.
	// Not after HealMs. Zero values (the default, omitted from the JSON form) leave the schedule as it always was.
	TruncPm  int `json:"truncpm,omitempty"`
	TruncMax int `json:"truncmax,omitempty"`
}

// Decision is the fate of one packet.
type Decision struct {
	Drop   bool
	Delays []time.Duration // one delivery per entry
	Trunc  []int           // optional, parallel to Delays: number of bytes cut off the end of that copy (0: whole)
}

// Packet is a log record.
type Packet struct {
	At    time.Duration
	Dir   int
	Idx   int
	Len   int
	Fate  string
	Bytes []byte
}

// Net is a pair of connected endpoints.
type Net struct {
	A, B  *End
	start time.Time
	mu    sync.Mutex
	P     [2]Params // P[0]: A->B, P[1]: B->A
	count [2]int
	last  [2]time.Time
	// Decide, when set, overrides the parameter-based schedule. It must be a
	// pure function of its arguments.
	Decide func(dir, idx int, pkt []byte, now time.Duration) (Decision, bool)
	// OnSend, when set, is told about every packet: direction, bytes, time of sending and the times at which copies
	// will be delivered (none if dropped), all relative to the creation of the network. Called without locks held.
	// Copies that are delivered truncated (Decision.Trunc) are not copies of the packet and are not listed.
	OnSend func(dir int, pkt []byte, sent time.Duration, deliveries []time.Duration)
	// Log of the first LogCap packets
	Log    []Packet
	LogCap int
	KeepBytes bool
	Stats  struct{ Sent, Dropped, Duplicated, Delayed, Overflow, Truncated [2]int }
	dead   bool
}

type addr string

func (a addr) Network() string { return "memconn" }
func (a addr) String() string  { return string(a) }

// End is one endpoint.
type End struct {
	n      *Net
	dir    int // direction index of packets this end SENDS
	in     chan []byte
	closed chan struct{}
	once   sync.Once
	mu     sync.Mutex
	rdl    time.Time
	dlCh   chan struct{}
	werr   error
	name   addr
	peer   *End
}

// New creates a network. Must be called inside the bubble when virtual time is wanted.
func New(ab, ba Params, queue int) *Net {
	n := &Net{start: time.Now(), LogCap: 400}
	n.P[0], n.P[1] = ab, ba
	mk := func(dir int, name string) *End {
		return &End{n: n, dir: dir, in: make(chan []byte, queue), closed: make(chan struct{}), dlCh: make(chan struct{}), name: addr(name)}
	}
	n.A, n.B = mk(0, "A"), mk(1, "B")
	n.A.peer, n.B.peer = n.B, n.A
	return n
}

func mix(x uint64) uint64 {
	x ^= x >> 33
	x *= 0xff51afd7ed558ccd
	x ^= x >> 33
	x *= 0xc4ceb9fe1a85ec53
	x ^= x >> 33
	return x
}

func roll(seed uint64, dir, idx int, salt uint64) uint64 {
	return mix(seed ^ mix(uint64(dir+1)*0x9E3779B97F4A7C15^uint64(idx)*0xD1B54A32D192ED03^salt*0x94D049BB133111EB))
}

// Kill makes the network lose everything from now on (dead network).
func (n *Net) Kill() { n.mu.Lock(); n.dead = true; n.mu.Unlock() }

// Elapsed returns the (virtual) time since the network was created.
func (n *Net) Elapsed() time.Duration { return time.Since(n.start) }

func (n *Net) decide(dir, idx int, pkt []byte, now time.Duration) Decision {
	if n.dead {
		return Decision{Drop: true}
	}
	if n.Decide != nil {
		if d, ok := n.Decide(dir, idx, pkt, now); ok {
			return d
		}
	}
	p := &n.P[dir]
	ms := now.Milliseconds()
	base := time.Duration(p.DelayMs) * time.Millisecond
	for _, o := range p.Outages {
		if ms >= o[0] && ms < o[1] {
			return Decision{Drop: true}
		}
	}
	if p.HealMs >= 0 && ms >= p.HealMs {
		return Decision{Delays: []time.Duration{base}}
	}
	for _, d := range p.DropIdx {
		if d == idx {
			return Decision{Drop: true}
		}
	}
	if p.BurstLen > 0 && idx >= p.BurstAt && idx < p.BurstAt+p.BurstLen {
		return Decision{Drop: true}
	}
	if p.LossPct > 0 && int(roll(p.Seed, dir, idx, 1)%100) < p.LossPct {
		return Decision{Drop: true}
	}
	d := Decision{}
	jit := func(salt uint64) time.Duration {
		if p.JitterMs <= 0 {
			return 0
		}
		return time.Duration(roll(p.Seed, dir, idx, salt)%uint64(p.JitterMs*1000+1)) * time.Microsecond
	}
	d.Delays = append(d.Delays, base+jit(2))
	if p.DupPct > 0 && int(roll(p.Seed, dir, idx, 3)%100) < p.DupPct {
		d.Delays = append(d.Delays, base+jit(4))
	}
	if p.TruncPm > 0 {
		for i := range d.Delays {
			cut := 0
			if int(roll(p.Seed, dir, idx, 5+2*uint64(i))%1000) < p.TruncPm {
				cut = 1 + int(roll(p.Seed, dir, idx, 6+2*uint64(i))%uint64(max(1, p.TruncMax)))
			}
			d.Trunc = append(d.Trunc, cut)
		}
	}
	return d
}

// WriteMsg sends one message to the peer according to the schedule. It never blocks.
func (e *End) WriteMsg(b []byte) error {
	select {
	case <-e.closed:
		return net.ErrClosed
	default:
	}
	e.mu.Lock()
	werr := e.werr
	e.mu.Unlock()
	if werr != nil {
		return werr
	}
	n := e.n
	pkt := append([]byte(nil), b...)
	n.mu.Lock()
	idx := n.count[e.dir]
	n.count[e.dir]++
	now := time.Since(n.start)
	d := n.decide(e.dir, idx, pkt, now)
	n.Stats.Sent[e.dir]++
	fate := "deliver"
	if d.Drop || len(d.Delays) == 0 {
		n.Stats.Dropped[e.dir]++
		fate = "drop"
	} else if len(d.Delays) > 1 {
		n.Stats.Duplicated[e.dir]++
		fate = "dup"
	}
	if len(n.Log) < n.LogCap {
		rec := Packet{At: now, Dir: e.dir, Idx: idx, Len: len(pkt), Fate: fate}
		if n.KeepBytes {
			rec.Bytes = pkt
		}
		n.Log = append(n.Log, rec)
	}
	// delivery times: keep FIFO among packets of equal delay (strictly increasing)
	type dl struct{ at time.Time }
	var times []time.Time
	var cuts []int
	if !d.Drop {
		nowT := time.Now()
		p := &n.P[e.dir]
		for i, delay := range d.Delays {
			at := nowT.Add(delay)
			if p.JitterMs <= 0 || (p.HealMs >= 0 && now.Milliseconds() >= p.HealMs) {
				if !at.After(n.last[e.dir]) {
					at = n.last[e.dir].Add(time.Nanosecond)
				}
				n.last[e.dir] = at
			}
			times = append(times, at)
			cut := 0
			if i < len(d.Trunc) && d.Trunc[i] > 0 {
				cut = min(d.Trunc[i], len(pkt))
				n.Stats.Truncated[e.dir]++
			}
			cuts = append(cuts, cut)
			if delay > 0 {
				n.Stats.Delayed[e.dir]++
			}
		}
	}
	n.mu.Unlock()
	if n.OnSend != nil {
		var rel []time.Duration
		for i, at := range times {
			if cuts[i] == 0 {
				rel = append(rel, at.Sub(n.start))
			}
		}
		n.OnSend(e.dir, pkt, now, rel)
	}
	for i, at := range times {
		what := pkt
		if cuts[i] > 0 {
			what = append([]byte(nil), pkt[:len(pkt)-cuts[i]]...)
		}
		wait := time.Until(at)
		if wait <= 0 {
			e.peer.deliver(what)
		} else {
			time.AfterFunc(wait, func() { e.peer.deliver(what) })
		}
	}
	return nil
}

func (e *End) deliver(pkt []byte) {
	select {
	case <-e.closed:
		return
	default:
	}
	select {
	case e.in <- pkt:
	default:
		e.n.mu.Lock()
		e.n.Stats.Overflow[e.peer.dir]++
		e.n.mu.Unlock()
	}
}

// Inject delivers a raw message to this endpoint as if the peer had sent it.
func (e *End) Inject(pkt []byte) { e.deliver(append([]byte(nil), pkt...)) }

// FailWrites makes every later WriteMsg return err (nil restores normal operation).
func (e *End) FailWrites(err error) { e.mu.Lock(); e.werr = err; e.mu.Unlock() }

// ReadMsg receives one message.
func (e *End) ReadMsg(b []byte) (int, error) {
	for {
		e.mu.Lock()
		dl := e.rdl
		ch := e.dlCh
		e.mu.Unlock()
		var tc <-chan time.Time
		var tm *time.Timer
		if !dl.IsZero() {
			wait := time.Until(dl)
			if wait <= 0 {
				// still hand over a message that is already queued? net.Conn semantics: deadline wins
				select {
				case <-e.closed:
					return 0, net.ErrClosed
				default:
				}
				return 0, os.ErrDeadlineExceeded
			}
			tm = time.NewTimer(wait)
			tc = tm.C
		}
		select {
		case pkt := <-e.in:
			if tm != nil {
				tm.Stop()
			}
			return copy(b, pkt), nil
		case <-e.closed:
			if tm != nil {
				tm.Stop()
			}
			return 0, net.ErrClosed
		case <-tc:
			return 0, os.ErrDeadlineExceeded
		case <-ch:
			if tm != nil {
				tm.Stop()
			}
			// deadline changed: re-evaluate
		}
	}
}

func (e *End) Read(b []byte) (int, error)  { return e.ReadMsg(b) }
func (e *End) Write(b []byte) (int, error) { return len(b), e.WriteMsg(b) }

// Close closes this endpoint (the peer is not notified, as with UDP).
func (e *End) Close() error {
	e.once.Do(func() { close(e.closed) })
	return nil
}

// Closed reports whether Close was called.
func (e *End) Closed() bool {
	select {
	case <-e.closed:
		return true
	default:
		return false
	}
}

func (e *End) LocalAddr() net.Addr  { return e.name }
func (e *End) RemoteAddr() net.Addr { return e.peer.name }

func (e *End) SetDeadline(t time.Time) error { return e.SetReadDeadline(t) }
func (e *End) SetReadDeadline(t time.Time) error {
	e.mu.Lock()
	e.rdl = t
	old := e.dlCh
	e.dlCh = make(chan struct{})
	e.mu.Unlock()
	close(old)
	return nil
}
func (e *End) SetWriteDeadline(t time.Time) error { return nil }
