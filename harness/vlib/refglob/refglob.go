// Package refglob is the reference glob matcher: '*' stands for any (possibly
// empty) string, every other byte is literal. Dynamic programming, written
// from the property statement.
package refglob

import "path"

// Match reports whether s can be obtained from p by replacing each '*' by some string.
func Match(p, s string) bool {
	// ok[j] = p[:i] matches s[:j]
	ok := make([]bool, len(s)+1)
	ok[0] = true
	for i := 0; i < len(p); i++ {
		next := make([]bool, len(s)+1)
		if p[i] == '*' {
			any := false
			for j := 0; j <= len(s); j++ {
				any = any || ok[j]
				next[j] = any
			}
		} else {
			for j := 1; j <= len(s); j++ {
				next[j] = ok[j-1] && s[j-1] == p[i]
			}
		}
		ok = next
	}
	return ok[len(s)]
}

// SelfTest cross-checks Match against path.Match on the sub-alphabet where the
// two definitions coincide (no '/', '?', '[', '\\').
func SelfTest() string {
	alpha := []byte{'a', 'b', '*'}
	var pats []string
	var gen func(cur []byte, n int)
	gen = func(cur []byte, n int) {
		pats = append(pats, string(cur))
		if n == 0 {
			return
		}
		for _, c := range alpha {
			gen(append(cur, c), n-1)
		}
	}
	gen(nil, 4)
	var ins []string
	var gen2 func(cur []byte, n int)
	gen2 = func(cur []byte, n int) {
		ins = append(ins, string(cur))
		if n == 0 {
			return
		}
		for _, c := range []byte{'a', 'b'} {
			gen2(append(cur, c), n-1)
		}
	}
	gen2(nil, 5)
	for _, p := range pats {
		for _, s := range ins {
			want, err := path.Match(p, s)
			if err != nil {
				return "path.Match error on " + p
			}
			if Match(p, s) != want {
				return "refglob disagrees with path.Match on pattern " + p + " input " + s
			}
		}
	}
	return ""
}
