//go:build go1.25

package userauth

// C11 (decoder half) — whatever bytes a peer writes into a user-authentication
// tube before closing it, GetInitMsg returns without panicking.
//
// GetInitMsg demands a *tubes.Reliable, so the bytes travel over a real pair of
// muxers on an in-memory network inside a synctest bubble (fixture in
// zz_verif_c18_test.go). The muxers' own goroutines allocate while the call
// runs, so the allocation oracle is not applied here; what GetInitMsg can
// allocate is bounded by its 16-bit length field (2 x 64 KiB), inside the
// 256 KiB allowance by construction.
//
// The delivery pattern of a case (wire.Delivery) decides in how many separate
// writes - each delivered and read before the next is made - the bytes reach
// the reader, and whether the reader only starts after the peer's close was
// processed (end-of-stream then arrives together with the last bytes).

import (
	"encoding/binary"
	"testing"

	"pgregory.net/rapid"
	"verif.local/vlib"
	"verif.local/vlib/wire"

	"hop.computer/hop/common"
	"hop.computer/hop/tubes"
)

type c11dUA struct {
	Raw  int        `json:"raw"` // >= 0: input is Fill(seed, Raw)
	Len  int        `json:"len"` // user name length of the valid request the mutations start from
	Seed uint64     `json:"seed"`
	Muts []wire.Mut `json:"muts"`
	Dlv  wire.Delivery `json:"dlv"` // zero value: one write, reader and writer concurrent
}

func (c c11dUA) input() []byte {
	if c.Raw >= 0 {
		return vlib.Fill(c.Seed, c.Raw)
	}
	n := c.Len
	if n > 65535 {
		n = 65535
	}
	enc := binary.BigEndian.AppendUint16(nil, uint16(n))
	enc = append(enc, wire.Text(c.Seed, n)...)
	return wire.Mutate(enc, []wire.Field{{Off: 0, Width: 2}}, c.Muts, 0)
}

func c11dUARun(t *testing.T) func(c c11dUA, v *vlib.Verdict) {
	return func(c c11dUA, v *vlib.Verdict) {
		in := c.input()
		shape := "consistent"
		switch {
		case len(in) < 2:
			shape = "shorter-than-header"
		case 2+int(binary.BigEndian.Uint16(in)) > len(in):
			shape = "length-beyond-input"
		case 2+int(binary.BigEndian.Uint16(in)) < len(in):
			shape = "trailing-bytes"
		}
		v.Label(shape)
		v.NonTrivial = shape != "consistent"
		var got string
		returned := false
		pieces := c.Dlv.Pieces(len(in), 24)
		v.Labelf("delivery=%s", map[bool]string{true: "one-write", false: "several-writes"}[len(pieces) == 1])
		if c.Dlv.EOFWithData {
			v.Label("delivery:read-after-close")
		}
		_, pv, ps, problem := vuaOverTubeDlv(t, in, pieces, c.Dlv.EOFWithData, common.UserAuthTube, func(tb *tubes.Reliable) { got = GetInitMsg(tb); returned = true })
		if pv != "" {
			v.Failf(vlib.PanicSig(pv, ps), "panic: %s", pv)
			return
		}
		if problem != "" {
			if !returned && problem == "scenario did not finish within 2 virtual minutes" {
				v.Failf("C11:blocks-on-closed-stream:userauth.GetInitMsg", "GetInitMsg did not return within 2 virtual minutes after the peer wrote %d bytes and closed the tube", len(in))
				return
			}
			v.Inconclusive = "userauth tube fixture: " + problem
			return
		}
		if len(got) > 65535 {
			v.Failf("C11:alloc-out-of-proportion:userauth.GetInitMsg", "GetInitMsg returned %d bytes", len(got))
		}
	}
}

func TestVerifC11DecGetInitMsg(t *testing.T) {
	vlib.Drive(t, vlib.Spec[c11dUA]{ID: "C11", Quick: 1200, Run: c11dUARun(t), Gen: func(t *rapid.T) c11dUA {
		c := c11dUA{Raw: -1, Seed: rapid.Uint64().Draw(t, "seed"), Dlv: wire.DrawDelivery(t)}
		if rapid.IntRange(0, 2).Draw(t, "raw") == 0 {
			c.Raw = rapid.SampledFrom([]int{0, 1, 2, 3, 4, 10, 300}).Draw(t, "rawlen")
			return c
		}
		c.Len = rapid.SampledFrom([]int{0, 1, 2, 5, 255, 256, 1000, 65535}).Draw(t, "len")
		c.Muts = wire.GenMuts(t, 0, 2)
		return c
	}})
}
