//go:build go1.25

package userauth

// C18 — user-authentication requests (userAuthInitMsg.toBytes / GetInitMsg)
// round-trip. GetInitMsg demands a *tubes.Reliable, so every case runs over a
// real pair of muxers on an in-memory network inside a synctest bubble: the
// client side writes the request followed by sentinel bytes and closes, the
// server side calls GetInitMsg and then drains the tube. The delivery pattern
// of a case (wire.Delivery) decides in how many separate writes - each one
// delivered and read before the next is made - the request reaches the reader,
// and whether the reader only starts after the peer's close was processed (the
// tube then reports end-of-stream together with the last bytes).

import (
	"bytes"
	"fmt"
	"io"
	"sync"
	"testing"
	"time"

	"github.com/sirupsen/logrus"
	"pgregory.net/rapid"
	"verif.local/vlib"
	"verif.local/vlib/memconn"
	"verif.local/vlib/wire"

	"hop.computer/hop/common"
	"hop.computer/hop/tubes"
)

var vuaQuietOnce sync.Once
var vuaQuietEntry *logrus.Entry

func vuaQuiet() *logrus.Entry {
	vuaQuietOnce.Do(func() {
		logrus.SetOutput(io.Discard)
		logrus.SetLevel(logrus.PanicLevel)
		l := logrus.New()
		l.SetOutput(io.Discard)
		l.SetLevel(logrus.PanicLevel)
		vuaQuietEntry = logrus.NewEntry(l)
	})
	return vuaQuietEntry
}

// vuaOverTube delivers wire (then end-of-stream) to a fresh user-auth tube and
// runs read on the accepting side. It returns what read left unread. problem is
// non-empty when the fixture itself failed (not a verdict about hop-go).
func vuaOverTube(t *testing.T, wireBytes []byte, tubeType tubes.TubeType, read func(tb *tubes.Reliable)) (rest []byte, panicVal string, panicStack string, problem string) {
	return vuaOverTubeDlv(t, wireBytes, nil, false, tubeType, read)
}

// vuaOverTubeDlv is vuaOverTube with a delivery schedule: pieces (lengths
// summing to len(wireBytes); nil = one write) are written one by one with a
// virtual pause in between, so that the reader - already blocked in Read - gets
// each piece in a Read of its own; closeFirst makes the reader start only after
// everything was written, the tube closed and the network gone quiet.
func vuaOverTubeDlv(t *testing.T, wireBytes []byte, pieces []int, closeFirst bool, tubeType tubes.TubeType, read func(tb *tubes.Reliable)) (rest []byte, panicVal string, panicStack string, problem string) {
	res := vlib.Bubble(t, 60*time.Second, func() {
		n := memconn.New(memconn.Params{}, memconn.Params{}, 8192)
		cfg := &tubes.Config{Timeout: 0, Log: vuaQuiet()}
		ma := tubes.Client(n.A, cfg)
		mb := tubes.Server(n.B, cfg)
		done := make(chan struct{})
		go func() {
			defer close(done)
			ta, err := ma.CreateReliableTube(tubeType)
			if err != nil {
				problem = "create: " + err.Error()
				return
			}
			acc, err := mb.Accept()
			if err != nil {
				problem = "accept: " + err.Error()
				return
			}
			tb, ok := acc.(*tubes.Reliable)
			if !ok {
				problem = "accepted tube is not reliable"
				return
			}
			wdone := make(chan struct{})
			go func() {
				defer close(wdone)
				left := wireBytes
				for i, n := range pieces {
					if n <= 0 || n >= len(left) || i == len(pieces)-1 {
						break
					}
					ta.Write(left[:n])
					left = left[n:]
					time.Sleep(5 * time.Millisecond) // virtual: elapses once the piece was delivered and read
				}
				if len(left) > 0 {
					ta.Write(left)
				}
				ta.Close()
			}()
			if closeFirst {
				<-wdone
				time.Sleep(time.Second) // virtual: data and FIN have arrived (as far as the receive window admits)
			}
			func() {
				defer func() {
					if r := recover(); r != nil {
						panicVal = toString(r)
						panicStack = vlib.AllStacks()
					}
				}()
				read(tb)
			}()
			if panicVal == "" {
				rest, _ = io.ReadAll(tb)
			}
			tb.Close()
			<-wdone
		}()
		tm := time.NewTimer(2 * time.Minute) // virtual
		select {
		case <-done:
			tm.Stop()
		case <-tm.C:
			problem = "scenario did not finish within 2 virtual minutes"
		}
		sd := make(chan struct{}, 2)
		go func() { ma.Stop(); sd <- struct{}{} }()
		go func() { mb.Stop(); sd <- struct{}{} }()
		st := time.NewTimer(time.Minute)
		defer st.Stop()
		for i := 0; i < 2; i++ {
			select {
			case <-sd:
			case <-st.C:
				return
			}
		}
	})
	if res.Hung {
		problem = "bubble hung in real time"
	}
	if res.Panic != "" && !res.Leak() && !res.Deadlock() && panicVal == "" {
		panicVal, panicStack = res.Panic, res.Stacks
	}
	return
}

func toString(r any) string { return fmt.Sprint(r) }

type c18UA struct {
	Len  int    `json:"len"`
	Seed uint64 `json:"seed"`
	Text bool   `json:"text"`
	// how the request reaches the reader: Pieces(len, 24) of the pattern = separate writes; EOFWithData = no bytes follow
	// the request and the reader starts after the peer's close (zero value: one write, reader and writer concurrent)
	Dlv wire.Delivery `json:"dlv"`
}

func (c c18UA) user() string {
	if c.Text {
		return wire.Text(c.Seed, c.Len)
	}
	return string(vlib.Fill(c.Seed, c.Len))
}

var c18UASentinel = bytes.Repeat([]byte{wire.SentinelByte}, 16)

func c18UARun(t *testing.T) func(c c18UA, v *vlib.Verdict) {
	return func(c c18UA, v *vlib.Verdict) {
		user := c.user()
		fits := len(user) <= 65535 // two-byte length prefix
		v.NonTrivial = wire.AtLimit(len(user))
		switch {
		case len(user) == 0:
			v.Label("len=0")
		case len(user) < 65535:
			v.Label("len<65535")
		case len(user) == 65535:
			v.Label("len=65535")
		default:
			v.Label("len>65535")
		}
		var enc []byte
		if vlib.Guard(v, func() { enc = newUserAuthInitMsg(user).toBytes() }) {
			return
		}
		if len(enc) == 0 {
			// toBytes has no error result; a representable name always yields at least the header, so an empty result is a refusal
			v.Label("encoder-rejected")
			if fits {
				v.Failf("C18:encode-rejects-representable:userauth.toBytes", "toBytes returns nothing for a %d-byte user name", len(user))
			}
			return
		}
		var got string
		sent := append([]byte(nil), enc...)
		pieces := c.Dlv.Pieces(len(enc), 24)
		if !c.Dlv.EOFWithData {
			sent = append(sent, c18UASentinel...)
			pieces = append(pieces, len(c18UASentinel))
		}
		v.Labelf("delivery=%s", map[bool]string{true: "one-write", false: "several-writes"}[len(pieces) <= 2 && pieces[0] == len(enc)])
		if c.Dlv.EOFWithData {
			v.Label("delivery:read-after-close")
		}
		rest, pv, ps, problem := vuaOverTubeDlv(t, sent, pieces, c.Dlv.EOFWithData, common.UserAuthTube, func(tb *tubes.Reliable) { got = GetInitMsg(tb) })
		if pv != "" {
			v.Failf(vlib.PanicSig(pv, ps), "panic: %s", pv)
			return
		}
		if problem != "" {
			v.Inconclusive = "userauth tube fixture: " + problem
			return
		}
		consumed := len(sent) - len(rest)
		// what the reader left unread must be the end of what was sent
		tailOK := consumed >= 0 && bytes.Equal(rest, sent[consumed:])
		if got == user && tailOK && consumed <= len(enc) {
			if consumed < len(enc) {
				// toBytes sizes the message with a 4-byte header but GetInitMsg reads a 2-byte one; the reader leaves
				// the surplus unread and both callers close the tube right after, so no later message can be mis-parsed
				allZero := true
				for _, b := range enc[consumed:] {
					allZero = allZero && b == 0
				}
				if allZero {
					v.Labelf("reader-leaves-%d-zero-padding-bytes-unread", len(enc)-consumed)
					return
				}
				v.Failf("C18:consumed-length:userauth.initMsg", "GetInitMsg consumed %d of %d encoded bytes and left non-padding bytes % x unread", consumed, len(enc), enc[consumed:min(len(enc), consumed+8)])
			}
			return
		}
		what := fmt.Sprintf("GetInitMsg returned %d bytes (equal=%v), consumed %d of %d encoded bytes", len(got), got == user, consumed, len(enc))
		switch {
		case !fits:
			v.Failf("C18:encode-accepted-misframed:userauth.toBytes", "toBytes accepted a %d-byte user name (two-byte length) and wrote length field %d: %s", len(user), int(enc[0])<<8|int(enc[1]), what)
		case got != user:
			v.Failf("C18:roundtrip-mismatch:userauth.initMsg:username", "%s", what)
		default:
			v.Failf("C18:consumed-length:userauth.initMsg", "%s", what)
		}
	}
}

func TestVerifC18UserAuthEncDec(t *testing.T) {
	vlib.Drive(t, vlib.Spec[c18UA]{ID: "C18", Quick: 1600, Run: c18UARun(t), Gen: func(t *rapid.T) c18UA {
		c := c18UA{Seed: rapid.Uint64().Draw(t, "seed"), Text: rapid.Bool().Draw(t, "text"), Dlv: wire.DrawDelivery(t)}
		switch rapid.IntRange(0, 9).Draw(t, "k") {
		case 0, 1, 2:
			c.Len = rapid.SampledFrom([]int{0, 1, 252, 253, 254, 255, 256, 257, 511, 512, 32767, 32768, 32769, 65534, 65535}).Draw(t, "edge")
		case 3:
			c.Len = rapid.SampledFrom([]int{65536, 65536, 65537, 65600, 70000}).Draw(t, "over")
		case 4:
			c.Len = rapid.IntRange(0, 70000).Draw(t, "any")
		default:
			c.Len = rapid.IntRange(0, 40).Draw(t, "small")
		}
		return c
	}})
}
