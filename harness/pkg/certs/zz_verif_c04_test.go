package certs

// C04 — certificate verification accepts exactly the valid chains.
//
//   TestVerifC04Forest         rapid: forged forests + a SEQUENCE of queries against one Store; VerifyLeaf == nil <=> model,
//                              VerifyParent == nil <=> pairing/fingerprint/signature predicate, at every step; steps also
//                              marshal a parsed certificate and overwrite the result (later answers must not change) and
//                              change a field of a parsed certificate, Marshal + ReadFrom it and query THAT object (judged
//                              for the changed content under the old signature); chain members are also re-read into
//                              Certificate values that were ReadFrom targets before (other certificates, the same one,
//                              truncated / arbitrary bytes): the content read LAST decides, exactly as for a fresh value
//   TestVerifC04Issued         rapid: chains made only by the issuing functions verify at every instant inside all three windows
//   TestVerifC04BitFlips       enumeration: every single-bit flip (and raw field overwrite) of leaf / intermediate / root bytes
//   TestVerifC04Substitutions  enumeration: properly signed (and stale-signed) single-field substitutions, through the model

import (
	"bytes"
	"crypto/sha3"
	"encoding/pem"
	"fmt"
	"io"
	"os"
	"strings"
	"testing"
	"testing/iotest"
	"time"

	"github.com/sirupsen/logrus"
	"pgregory.net/rapid"
	"verif.local/vlib"

	"hop.computer/hop/keys"
)

// ---------------------------------------------------------------------------
// forest case

const (
	c04OpVerifyLeaf = iota
	c04OpVerifyParent
	c04OpAdd
	// c04OpScribble: Marshal certificate A (the forest's object, or with Own its separately parsed copy) and
	// overwrite the returned bytes (Mut == 0: all of them, Mut > 0: one bit). The serialisation is the caller's
	// ("newly-allocated memory"): every later answer about A and about chains through A must be what it was.
	c04OpScribble
	// c04OpModify: parse certificate A afresh, change one field of the object (Mod), Marshal, parse the result:
	// that object becomes certificate number len(certificates) of the forest and is used by later steps. Its ground
	// truth is the CHANGED content under the signature A already had, so unless the change left the content as it
	// was it must be rejected wherever A's signature matters.
	c04OpModify
	// c04OpReread: certificate A is read (ReadFrom) into a Certificate value that has been a ReadFrom target before.
	// Fresh: a new value first receives the earlier reads in Prior (other certificates, A itself, truncated or
	// arbitrary bytes - those reads may fail) and then A's bytes, and replaces the forest's object (Own: its
	// separately parsed copy) in all later steps. Otherwise the EXISTING object - which may sit in the Store - receives
	// Prior and then A's bytes again. "ReadFrom populates a certificate from serialized bytes": the value describes
	// what was read last, so nothing the model says changes; the value must be indistinguishable from a fresh one.
	c04OpReread
)

// c04Prior is one earlier use of a Certificate value as ReadFrom target.
type c04Prior struct {
	Src  int    `json:"src"`            // bytes of forest certificate Src (mod number of certificates)
	Cut  int    `json:"cut,omitempty"`  // != 0: a truncated read: only the first Cut-1 bytes (Cut < 0: all but the last -Cut)
	Junk uint64 `json:"junk,omitempty"` // != 0: as many arbitrary bytes instead
	Rd   int    `json:"rd,omitempty"`   // reader kind, see c04ReadInto
}

type c04Step struct {
	Op   int     `json:"op"`
	A    int     `json:"a"`              // leaf / child / certificate to add
	B    int     `json:"b"`              // presented intermediate / parent; -1 none
	Mut  int     `json:"mut,omitempty"`  // >0: present a copy of B with one bit changed
	Own  bool    `json:"own,omitempty"`  // present a separately parsed copy instead of the forest's object
	Name int     `json:"name"`           // requested name code
	Sec  int64   `json:"sec"`            // verification time
	Nsec int64   `json:"nsec,omitempty"` //
	Zone int     `json:"zone,omitempty"` // 0 local, 1 UTC, 2 fixed +05:30 (same instant)
	Mod  *c04Mod `json:"mod,omitempty"`  // c04OpModify: the change
	// c04OpReread, c04OpModify: earlier ReadFrom calls on the Certificate value that then receives the certificate
	Prior []c04Prior `json:"prior,omitempty"`
	Fresh bool       `json:"fresh,omitempty"` // c04OpReread: a new value (replacing the object) instead of the existing one
	Rd    int        `json:"rd,omitempty"`    // reader kind of the read that counts
}

type c04Case struct {
	KeySeed uint64    `json:"keyseed"`
	Certs   []c04Cert `json:"certs"`
	Store   []int     `json:"store"`
	Steps   []c04Step `json:"steps"`
	ViaPEM  bool      `json:"viaPEM,omitempty"` // the initial store is loaded from a PEM bundle file (LoadRootStoreFromPEMFile) instead of AddCertificate calls
}

func c04Reason(err error) string {
	if ve, ok := err.(VerifyError); ok {
		return strings.ReplaceAll(ve.Reason().String(), " ", "-")
	}
	return "other"
}

func c04Now(sec, nsec int64, zone int) time.Time {
	t := time.Unix(sec, nsec)
	switch zone {
	case 1:
		t = t.UTC()
	case 2:
		t = t.In(time.FixedZone("x", 5*3600+1800))
	}
	return t
}

func c04Run(c c04Case, v *vlib.Verdict) {
	w, err := c04Build(c.KeySeed, c.Certs)
	if err == errC04Spec || len(c.Certs) == 0 {
		v.Discard = true
		return
	}
	if err != nil {
		v.Inconclusive = "forger: " + err.Error()
		return
	}
	for _, o := range w.objs {
		if o.obj.Fingerprint != o.fp {
			v.Failf("C04:fingerprint-not-sha3-of-bytes:ReadFrom", "certificate %d: Fingerprint %x, SHA3-256 of the bytes read %x", o.idx, o.obj.Fingerprint, o.fp)
			return
		}
	}
	inRange := func(i int) bool { return i >= 0 && i < len(w.objs) }

	var store Store
	mstore := map[[32]byte]*c04Obj{}
	sptr := map[[32]byte]*Certificate{} // the value the Store was given for a fingerprint (AddCertificate keeps the pointer)
	var bundle bytes.Buffer
	for _, i := range c.Store {
		if !inRange(i) {
			v.Discard = true
			return
		}
		if c.ViaPEM {
			pem.Encode(&bundle, &pem.Block{Type: PEMTypeHopCertificate, Bytes: w.objs[i].raw})
		} else {
			store.AddCertificate(w.objs[i].obj)
			sptr[w.objs[i].fp] = w.objs[i].obj
		}
		mstore[w.objs[i].fp] = w.objs[i]
	}
	if c.ViaPEM {
		// what a deployment does: the trusted certificates sit in one PEM file, in this order
		f, err := os.CreateTemp("", "verif-c04-*.pem")
		if err != nil {
			v.Inconclusive = err.Error()
			return
		}
		f.Write(bundle.Bytes())
		f.Close()
		loaded, err := LoadRootStoreFromPEMFile(f.Name())
		os.Remove(f.Name())
		if err != nil {
			v.Failf("C04:store-bundle-rejected", "a PEM bundle of %d well-formed certificates is rejected by LoadRootStoreFromPEMFile: %v", len(c.Store), err)
			return
		}
		store = *loaded
		v.Label("store:loaded-from-pem-bundle")
	}

	accepts, nearMisses := 0, 0
	reused := map[*Certificate]bool{} // values that were ReadFrom targets more than once
	for si, st := range c.Steps {
		switch st.Op {
		case c04OpAdd:
			if !inRange(st.A) {
				v.Discard = true
				return
			}
			store.AddCertificate(w.objs[st.A].obj)
			mstore[w.objs[st.A].fp] = w.objs[st.A]
			sptr[w.objs[st.A].fp] = w.objs[st.A].obj
			v.Label("step:add")

		case c04OpScribble:
			if !inRange(st.A) || st.Mut < 0 {
				v.Discard = true
				return
			}
			target := w.objs[st.A].obj
			if st.Own {
				if target, err = w.ownCopy(st.A); err != nil {
					v.Inconclusive = err.Error()
					return
				}
			}
			var b []byte
			var merr error
			if vlib.Guard(v, func() { b, merr = target.Marshal() }) {
				return
			}
			if merr != nil {
				v.Failf("C04:parsed-certificate-unserialisable", "step %d: Marshal of parsed certificate %d: %v", si, st.A, merr)
				return
			}
			if st.Mut == 0 || len(b) == 0 {
				for i := range b {
					b[i] = ^b[i]
				}
			} else {
				bit := (st.Mut - 1) % (len(b) * 8)
				b[bit/8] ^= 1 << (bit % 8)
			}
			v.Label("step:marshal+scribble")

		case c04OpModify:
			if !inRange(st.A) || st.Mod == nil || len(w.objs) >= 40 {
				v.Discard = true
				return
			}
			src := w.objs[st.A]
			nobj, apply, err := w.modified(src, *st.Mod)
			if err == errC04Spec {
				v.Discard = true
				return
			}
			if err != nil {
				v.Inconclusive = "forger (modified certificate): " + err.Error()
				return
			}
			p, err := c04Parse(src.raw)
			if err != nil {
				v.Inconclusive = err.Error()
				return
			}
			var b []byte
			var merr error
			if vlib.Guard(v, func() {
				apply(p)
				b, merr = p.Marshal()
			}) {
				return
			}
			if merr != nil {
				v.Failf("C04:modified-certificate-unserialisable", "step %d: certificate %d parsed, %s changed: Marshal fails: %v", si, st.A, c04ModNames[st.Mod.Kind], merr)
				return
			}
			q, err := c04Parse(b)
			if err != nil {
				v.Failf("C04:modified-certificate-unparseable", "step %d: certificate %d parsed, %s changed, marshalled: ReadFrom fails: %v", si, st.A, c04ModNames[st.Mod.Kind], err)
				return
			}
			if len(st.Prior) > 0 {
				// the changed certificate is read into a value that served other reads before
				prs, ok := w.priorReads(st.Prior)
				if !ok || st.Rd < 0 || st.Rd > 2 {
					v.Discard = true
					return
				}
				q = new(Certificate)
				if !c04ReadReused(v, q, false, prs, b, st.Rd) {
					return
				}
				reused[q] = true
				v.Label("step:modify/into-reused-value")
			}
			nobj.obj, nobj.own = q, q
			w.objs = append(w.objs, nobj)
			if _, dup := w.byFP[nobj.fp]; !dup {
				w.byFP[nobj.fp] = nobj
			}
			v.Label("step:modify:" + c04ModNames[st.Mod.Kind])
			if nobj.modSame {
				v.Label("step:modify/content-unchanged")
			}

		case c04OpReread:
			if !inRange(st.A) || st.Rd < 0 || st.Rd > 2 || (st.Fresh && len(st.Prior) == 0) {
				v.Discard = true
				return
			}
			o := w.objs[st.A]
			prs, ok := w.priorReads(st.Prior)
			if !ok {
				v.Discard = true
				return
			}
			target := o.obj
			if st.Own {
				if target, err = w.ownCopy(st.A); err != nil {
					v.Inconclusive = err.Error()
					return
				}
			}
			dirty := len(o.spec.Names) > 0
			if st.Fresh {
				target, dirty = new(Certificate), false
			}
			if dirty && vlib.KnownOpen(c04SigReusedNames) && vlib.GetEnv().Replay == "" {
				v.Label("reuse:left-out/known-finding")
				continue
			}
			if !c04ReadReused(v, target, dirty, prs, o.raw, st.Rd) {
				return
			}
			reused[target] = true
			if st.Fresh {
				if st.Own || o.own == o.obj {
					o.own = target
				}
				if !st.Own {
					o.obj = target
				}
				v.Label("step:reread/new-value")
			} else {
				v.Label("step:reread/existing-value")
			}

		case c04OpVerifyParent:
			if !inRange(st.A) || !inRange(st.B) {
				v.Discard = true
				return
			}
			child, parent := w.objs[st.A], w.objs[st.B]
			must, may, err := w.parentPredicate(child, parent)
			if err != nil {
				v.Inconclusive = err.Error()
				return
			}
			var got error
			if vlib.Guard(v, func() { got = VerifyParent(child.obj, parent.obj) }) {
				return
			}
			if got == nil && !may {
				v.Failf("C04:verifyparent-accepted-non-issuer", "step %d: VerifyParent(child %d type %d, parent %d type %d) = nil; fingerprint link %v, signature under parent key %v",
					si, st.A, child.spec.Type, st.B, parent.spec.Type, child.parentFP == parent.fp, child.sigKey == parent.spec.Key && child.sigKey >= 0)
				return
			}
			if got != nil && must {
				v.Failf("C04:verifyparent-rejected-issuer", "step %d: VerifyParent(child %d type %d, parent %d type %d) = %v although parent issued child", si, st.A, child.spec.Type, st.B, parent.spec.Type, got)
				return
			}
			if got == nil {
				v.Label("vp:accept")
			} else {
				v.Label("vp:reject")
			}

		case c04OpVerifyLeaf:
			if !inRange(st.A) || st.B >= len(w.objs) || st.Sec < 1 || st.Nsec < 0 || st.Nsec >= 1e9 ||
				st.Name < c04NameNilTyped || st.Name >= len(c04Pool) {
				v.Discard = true
				return
			}
			leaf := w.objs[st.A]
			var pres *Certificate
			var presTruth *c04Obj
			presKind := "nil"
			switch {
			case st.B < 0:
			case st.Mut > 0:
				pc, pfp, err := w.mutatedCopy(st.B, st.Mut)
				if err != nil {
					v.Inconclusive = "mutated copy does not parse: " + err.Error()
					return
				}
				if _, clash := w.byFP[pfp]; clash || pfp == leaf.parentFP {
					v.Inconclusive = "SHA3 collision?!"
					return
				}
				pres, presKind = pc, "mutated"
			default:
				presTruth = w.objs[st.B]
				pres = presTruth.obj
				if st.Own {
					if pres, err = w.ownCopy(st.B); err != nil {
						v.Inconclusive = err.Error()
						return
					}
				}
				presKind = "unrelated"
				if presTruth.fp == leaf.parentFP {
					presKind = "named"
				}
			}
			name := c04ReqName(st.Name)
			want, cl, err := w.valid(leaf, presTruth, mstore, name, st.Sec)
			if err != nil {
				v.Inconclusive = err.Error()
				return
			}
			opts := VerifyOptions{PresentedIntermediate: pres, Name: name, CurrentTime: c04Now(st.Sec, st.Nsec, st.Zone)}
			var got error
			if vlib.Guard(v, func() { got = store.VerifyLeaf(leaf.obj, opts) }) {
				return
			}
			nFalse, first := cl.falseCount()
			if (got == nil) != want {
				if got == nil {
					v.Failf("C04:accepted-invalid-chain:"+c04ClauseNames[first], "step %d: VerifyLeaf(cert %d, presented %d (%s), name %d, now %d.%09d) = nil; false clauses: %s",
						si, st.A, st.B, presKind, st.Name, st.Sec, st.Nsec, c04Describe(cl))
				} else {
					v.Failf("C04:rejected-valid-chain:"+c04Reason(got), "step %d: VerifyLeaf(cert %d, presented %d (%s), name %d, now %d.%09d) = %v although every clause of the property holds",
						si, st.A, st.B, presKind, st.Name, st.Sec, st.Nsec, got)
				}
				return
			}
			if leaf.modOf >= 0 || (presTruth != nil && presTruth.modOf >= 0) {
				what := "leaf"
				if leaf.modOf < 0 {
					what = "presented"
				}
				if nFalse == 0 {
					v.Label("q:modified-" + what + ":accept")
				} else {
					v.Label("q:modified-" + what + ":reject:" + c04ClauseNames[first])
				}
			}
			switch {
			case nFalse == 0:
				accepts++
				v.Label("q:accept")
				v.Label("q:accept/presented-" + presKind)
				if st.Name != c04NameNone {
					v.Label("q:accept/named")
				}
			case nFalse == 1:
				nearMisses++
				v.Label("q:near-miss:" + c04ClauseNames[first])
				if first == c04LeafTime || first == c04InterTime || first == c04RootTime {
					o := c04ChainMember(w, leaf, presTruth, mstore, first)
					if o != nil && st.Sec == o.spec.Exp && st.Nsec == 0 {
						v.Label("q:near-miss:now==ExpiresAt:" + c04ClauseNames[first])
					}
				}
			case nFalse == 2:
				v.Label("q:reject:2-clauses")
			default:
				v.Label("q:reject:3+clauses")
			}
			if len(reused) > 0 && nFalse <= 1 {
				what := ""
				if reused[leaf.obj] {
					what += "+leaf"
				}
				if pres != nil && reused[pres] {
					what += "+presented"
				}
				{
					for _, k := range []int{c04InterTime, c04RootTime} {
						if o := c04ChainMember(w, leaf, presTruth, mstore, k); o != nil && reused[sptr[o.fp]] {
							what += "+stored"
							break
						}
					}
				}
				if what != "" {
					if nFalse == 0 {
						v.Label("q:accept/reused-value:" + what[1:])
					} else {
						v.Label("q:near-miss/reused-value")
					}
				}
			}
			if nFalse == 0 {
				for _, k := range []int{c04LeafTime, c04InterTime, c04RootTime} {
					if o := c04ChainMember(w, leaf, presTruth, mstore, k); o != nil {
						if st.Sec == o.spec.Exp-1 && st.Nsec == 999999999 {
							v.Label("q:accept:now==ExpiresAt-1ns")
						}
						if st.Sec == o.spec.Iss && st.Nsec == 0 {
							v.Label("q:accept:now==IssuedAt")
						}
					}
				}
			}
		default:
			v.Discard = true
			return
		}
	}
	v.NonTrivial = accepts+nearMisses > 0
	// leading label: case-level summary
	lead := "case:only-far-rejects"
	switch {
	case accepts > 0 && nearMisses > 0:
		lead = "case:accepts+near-misses"
	case accepts > 0:
		lead = "case:accepts"
	case nearMisses > 0:
		lead = "case:near-misses"
	}
	v.Labels = append([]string{lead}, v.Labels...)
}

// ---------------------------------------------------------------------------
// Certificate values that are ReadFrom targets more than once

// c04SigReusedNames is the signature of "names of an earlier read survive in a re-used value". While it is listed
// as an open finding the reads that would trigger it are left out (label reuse:left-out/known-finding) so that the
// search goes on for everything else a re-used value may get wrong.
const c04SigReusedNames = "C04:reused-value-differs-from-last-parse:names"

// c04ReadInto is one ReadFrom call on value c: rd 0 from a bytes.Reader, 1 from a stream that continues after the
// certificate, 2 from a reader that hands out one byte per Read call.
func c04ReadInto(c *Certificate, b []byte, rd int) (int64, error) {
	switch rd {
	case 1:
		return c.ReadFrom(bytes.NewBuffer(append(append(make([]byte, 0, len(b)+7), b...), 1, 0xee, 0, 0, 0xff, 2, 3)))
	case 2:
		return c.ReadFrom(iotest.OneByteReader(bytes.NewReader(b)))
	}
	return c.ReadFrom(bytes.NewReader(b))
}

// c04Region names the field in which two serialisations first differ.
func c04Region(a, b []byte) string {
	if len(a) != len(b) {
		return "names"
	}
	for i := range a {
		if a[i] != b[i] {
			switch {
			case i >= len(a)-SignatureLen:
				return "signature"
			case i < 1:
				return "version"
			case i < 2:
				return "type"
			case i < 4:
				return "reserved"
			case i < 12:
				return "issued-at"
			case i < 20:
				return "expires-at"
			case i < 52:
				return "public-key"
			case i < 84:
				return "parent"
			}
			return "names"
		}
	}
	return "none"
}

// c04PriorRead is one earlier read: its bytes and whether it can leave complete names behind.
type c04PriorRead struct {
	b     []byte
	rd    int
	names bool
	kind  string
}

// c04ReadReused makes value c the target of the earlier reads in priors (each may succeed or fail) and then of raw,
// a well-formed certificate, and compares c with a fresh value that read raw only: same result, same fingerprint,
// same serialisation. dirty says that c already holds names when it gets here. It returns false if the case ends here.
func c04ReadReused(v *vlib.Verdict, c *Certificate, dirty bool, priors []c04PriorRead, raw []byte, rd int) bool {
	leaveOut := vlib.KnownOpen(c04SigReusedNames) && vlib.GetEnv().Replay == "" // a stored case is replayed as it is
	if leaveOut && dirty {
		v.Label("reuse:left-out/known-finding")
		return true
	}
	for _, p := range priors {
		if leaveOut && p.names {
			v.Label("reuse:left-out/known-finding")
			continue
		}
		var err error
		if vlib.Guard(v, func() { _, err = c04ReadInto(c, p.b, p.rd) }) {
			return false
		}
		if err == nil {
			v.Label("reuse:earlier-read:" + p.kind + ":parsed")
		} else {
			v.Label("reuse:earlier-read:" + p.kind + ":failed")
		}
	}
	fresh := new(Certificate)
	fn, ferr := fresh.ReadFrom(bytes.NewReader(raw))
	if ferr != nil || int(fn) != len(raw) {
		v.Inconclusive = fmt.Sprintf("well-formed certificate does not parse into a fresh value: %d of %d bytes, %v", fn, len(raw), ferr)
		return false
	}
	fb, ferr := fresh.Marshal()
	if ferr != nil {
		v.Inconclusive = "Marshal of a freshly parsed certificate: " + ferr.Error()
		return false
	}
	var n int64
	var err error
	if vlib.Guard(v, func() { n, err = c04ReadInto(c, raw, rd) }) {
		return false
	}
	if err != nil || int(n) != len(raw) {
		v.Failf("C04:reused-value-read-fails:ReadFrom", "ReadFrom of a well-formed certificate (%d bytes) into a Certificate value that was a ReadFrom target before: n=%d err=%v; a fresh value reads it", len(raw), n, err)
		return false
	}
	if c.Fingerprint != fresh.Fingerprint || c.Fingerprint != sha3.Sum256(raw) {
		v.Failf("C04:fingerprint-not-sha3-of-bytes:ReadFrom", "re-used Certificate value: Fingerprint %x, SHA3-256 of the bytes read last %x", c.Fingerprint, sha3.Sum256(raw))
		return false
	}
	var b []byte
	if vlib.Guard(v, func() { b, err = c.Marshal() }) {
		return false
	}
	if err != nil {
		v.Failf("C04:parsed-certificate-unserialisable", "Marshal of a re-used Certificate value after a successful ReadFrom: %v", err)
		return false
	}
	if !bytes.Equal(b, fb) {
		v.Failf("C04:reused-value-differs-from-last-parse:"+c04Region(b, fb), "a Certificate value that was a ReadFrom target before serialises to %d bytes after reading a certificate, a fresh value that read the same bytes to %d (first difference: %s)\n re-used %x\n fresh   %x",
			len(b), len(fb), c04Region(b, fb), b, fb)
		return false
	}
	return true
}

// priorReads turns the case's description of earlier reads into bytes.
func (w *c04World) priorReads(prior []c04Prior) ([]c04PriorRead, bool) {
	var out []c04PriorRead
	for _, p := range prior {
		if p.Src < 0 || p.Rd < 0 || p.Rd > 2 || len(w.objs) == 0 {
			return nil, false
		}
		src := w.objs[p.Src%len(w.objs)]
		r := c04PriorRead{b: src.raw, rd: p.Rd, names: len(src.spec.Names) > 0, kind: "certificate"}
		switch {
		case p.Junk != 0:
			r.b, r.names, r.kind = vlib.Fill(p.Junk, len(src.raw)), len(src.raw) > 86+SignatureLen, "arbitrary"
		case p.Cut != 0:
			cut := p.Cut - 1
			if p.Cut < 0 {
				cut = len(src.raw) + p.Cut
			}
			if cut < 0 {
				cut = 0
			}
			if cut >= len(src.raw) {
				cut = len(src.raw) - 1
			}
			// names are complete only behind the chunk's length field (offset 84..85)
			r.b, r.names, r.kind = src.raw[:cut], r.names && cut > 86, "truncated"
		}
		out = append(out, r)
	}
	return out, true
}

// c04ChainMember returns the chain member a time clause talks about.
func c04ChainMember(w *c04World, leaf, pres *c04Obj, store map[[32]byte]*c04Obj, clause int) *c04Obj {
	if clause == c04LeafTime {
		return leaf
	}
	var inter *c04Obj
	if pres != nil && pres.fp == leaf.parentFP {
		inter = pres
	} else if s, ok := store[leaf.parentFP]; ok {
		inter = s
	} else {
		inter = w.byFP[leaf.parentFP]
	}
	if inter == nil || clause == c04InterTime {
		return inter
	}
	if r, ok := store[inter.parentFP]; ok {
		return r
	}
	return w.byFP[inter.parentFP]
}

func c04Describe(cl c04Clauses) string {
	var s []string
	for i, b := range cl {
		if !b {
			s = append(s, c04ClauseNames[i])
		}
	}
	return strings.Join(s, ",")
}

// ---------------------------------------------------------------------------
// forest generator

// c04Draw builds every probability out of fair coin flips: rapid's integer
// generators are deliberately biased towards small values (IntRange(0,99) < 2
// comes up 20 % of the time), which would turn "2 % chance" into 20 %.
type c04Draw struct{ t *rapid.T }

func (d c04Draw) bits(label string, k int) int {
	x := 0
	for i := 0; i < k; i++ {
		x <<= 1
		if rapid.Bool().Draw(d.t, label) {
			x |= 1
		}
	}
	return x
}

// n returns a (nearly) uniform value in [0, n), n <= 1024.
func (d c04Draw) n(label string, n int) int { return d.bits(label, 12) * n >> 12 }

// coin is true with probability 2^-k (false is the simple, shrunk outcome).
func (d c04Draw) coin(label string, k int) bool {
	for i := 0; i < k; i++ {
		if !rapid.Bool().Draw(d.t, label) {
			return false
		}
	}
	return true
}

func c04From[T any](d c04Draw, label string, s []T) T { return s[d.n(label, len(s))] }

var (
	c04IssNormal = []int64{-86400, -3600, -60, -2, -1, 0}
	c04IssOdd    = []int64{1, 2, 3600}
	c04ExpNormal = []int64{86400, 3600, 60, 2, 1}
	c04ExpOdd    = []int64{0, -1, -3600}
)

func c04Gen(t *rapid.T) c04Case {
	d := c04Draw{t}
	// probability of each single inconsistency: never, 1.6 %, 3.1 %, 6.3 %, 12.5 %
	chaos := c04From(d, "chaos", []int{0, 6, 6, 5, 5, 4, 3})
	odd := func(label string) bool { return chaos > 0 && d.coin(label, chaos) }
	pick := d.n

	c := c04Case{KeySeed: rapid.Uint64Range(1, 1<<40).Draw(t, "keyseed")}
	nR := 1 + pick("roots", 3)
	nI := c04From(d, "inters", []int{1, 1, 1, 1, 1, 2, 2, 2, 2, 2, 3, 3, 3, 4, 4, 4})
	if d.coin("noInters", 4) {
		nI = 0 // leaves can only hang directly under roots
	}
	nL := 1 + pick("leaves", 4)
	var rootPos, interPos, leafPos []int

	// half of the forests have nested windows (root widest, leaf narrowest, shared bounds possible) as
	// issuance produces them; the others draw all bounds independently (children may outlive parents)
	nested := d.coin("nested", 1)
	window := func(s *c04Cert, level int) {
		s.Iss = c04T0 + c04From(d, "iss", c04IssNormal)
		s.Exp = c04T0 + c04From(d, "exp", c04ExpNormal)
		if nested {
			s.Iss = c04T0 + c04From(d, "issN", [][]int64{{-86400, -86400, -3600}, {-3600, -3600, -60}, {-60, -2, -1, 0}}[level])
			s.Exp = c04T0 + c04From(d, "expN", [][]int64{{86400, 86400, 3600}, {3600, 3600, 60}, {60, 2, 1}}[level])
		}
		if odd("oddIss") {
			s.Iss = c04T0 + c04From(d, "issOdd", c04IssOdd)
		}
		if odd("oddExp") {
			switch pick("expOddKind", 3) {
			case 0:
				s.Exp = c04T0 + c04From(d, "expOdd", c04ExpOdd)
			case 1:
				s.Exp = s.Iss // empty window
			default:
				s.Exp = s.Iss - 1 // inverted window
			}
		}
		if d.coin("far", 6) {
			if d.coin("farIss", 1) {
				s.Iss = 0
			} else {
				s.Exp = 4102444800
			}
		}
	}
	names := func(s *c04Cert, leafish bool) {
		n := 0
		if leafish {
			n = c04From(d, "nnames", []int{0, 1, 1, 1, 2, 2, 3})
		} else if d.coin("caNamed", 3) {
			n = 1
		}
		for i := 0; i < n; i++ {
			if d.coin("commonName", 1) {
				s.Names = append(s.Names, pick("name", 5))
			} else {
				s.Names = append(s.Names, pick("name", len(c04Pool)))
			}
		}
	}
	types := []int{int(Leaf), int(Intermediate), int(Root), 0, 4, 0x83}
	finish := func(s *c04Cert, idx int, typ int) {
		s.Type = typ
		if odd("oddType") {
			s.Type = c04From(d, "type", types)
		}
		if odd("sharedKey") && idx > 0 {
			s.Key = c.Certs[pick("keyOf", idx)].Key
		}
		if odd("wrongSigner") {
			s.Signer = pick("signer", idx+1)
		}
		if odd("unsigned") {
			s.Signer = -1
		}
		if odd("badSig") {
			s.BadSig = 1 + pick("sigBit", SignatureLen*8)
		}
		if odd("stale") {
			// sign first, then change one field
			orig := *s
			orig.Names = append([]int(nil), s.Names...)
			switch pick("staleField", 5) {
			case 0:
				s.Type = c04From(d, "staleType", types)
			case 1:
				s.Iss += c04From(d, "staleIss", []int64{-1, 1, 3600})
				if s.Iss < 0 {
					s.Iss = 0
				}
			case 2:
				s.Exp += c04From(d, "staleExp", []int64{-1, 1, 3600})
				if s.Exp < 0 {
					s.Exp = 0
				}
			case 3:
				s.Names = append(append([]int(nil), s.Names...), pick("staleName", len(c04Pool)))
			default:
				if idx > 0 {
					s.Parent = pick("staleParent", idx)
				}
			}
			s.Stale = &orig
		}
	}

	for i := 0; i < nR; i++ {
		idx := len(c.Certs)
		s := c04Cert{Key: idx, Parent: c04ParentZero, Signer: idx}
		window(&s, 0)
		names(&s, false)
		if odd("rootHasParent") && idx > 0 {
			s.Parent = pick("rootParent", idx)
			s.Signer = c.Certs[s.Parent].Key
		}
		finish(&s, idx, int(Root))
		if s.Signer == idx && s.Key != idx {
			s.Signer = s.Key // self-signed with the shared key
		}
		c.Certs = append(c.Certs, s)
		rootPos = append(rootPos, idx)
	}
	for i := 0; i < nI; i++ {
		idx := len(c.Certs)
		p := rootPos[pick("interParent", len(rootPos))]
		if len(interPos) > 0 && odd("interUnderInter") {
			p = interPos[pick("interParent2", len(interPos))]
		}
		s := c04Cert{Key: idx, Parent: p, Signer: c.Certs[p].Key}
		if odd("wrongLink") { // right signature, fingerprint names another certificate
			s.Parent = pick("linkTo", idx)
		}
		if odd("junkParent") {
			s.Parent = c04From(d, "junk", []int{c04ParentZero, c04ParentJunk})
		}
		window(&s, 1)
		names(&s, false)
		finish(&s, idx, int(Intermediate))
		c.Certs = append(c.Certs, s)
		interPos = append(interPos, idx)
	}
	for i := 0; i < nL; i++ {
		idx := len(c.Certs)
		var p int
		if len(interPos) > 0 && !odd("leafUnderRoot") {
			p = interPos[pick("leafParent", len(interPos))]
		} else {
			p = rootPos[pick("leafParentRoot", len(rootPos))]
		}
		if len(leafPos) > 0 && odd("leafUnderLeaf") {
			p = leafPos[pick("leafParentLeaf", len(leafPos))]
		}
		s := c04Cert{Key: idx, Parent: p, Signer: c.Certs[p].Key}
		if odd("wrongLink") {
			s.Parent = pick("linkTo", idx)
		}
		if odd("junkParent") {
			s.Parent = c04From(d, "junk", []int{c04ParentZero, c04ParentJunk})
		}
		window(&s, 2)
		names(&s, true)
		finish(&s, idx, int(Leaf))
		c.Certs = append(c.Certs, s)
		leafPos = append(leafPos, idx)
	}
	n := len(c.Certs)

	// trust store: a random subset of ALL certificates, with position-dependent density (percent)
	dens := c04From(d, "storeDensity", [][3]int{{85, 50, 20}, {100, 0, 0}, {60, 60, 60}, {95, 90, 10}, {100, 100, 100}})
	for i := 0; i < n; i++ {
		p := dens[2]
		if i < nR {
			p = dens[0]
		} else if i < nR+nI {
			p = dens[1]
		}
		if p == 100 || (p > 0 && pick("inStore", 100) < p) {
			c.Store = append(c.Store, i)
		}
	}
	c.ViaPEM = pick("viaPEM", 4) == 0

	parentOf := func(i int) int {
		if i < 0 {
			return -1
		}
		if p := c.Certs[i].Parent; p >= 0 {
			return p
		}
		return -1
	}
	genMod := func() c04Mod {
		switch k := pick("modKind", 100); {
		case k < 12:
			return c04Mod{Kind: c04ModSubSecond, Val: c04From(d, "modNs", []int64{1, 500_000_000, 999_999_999})}
		case k < 18:
			return c04Mod{Kind: c04ModSameValue}
		case k < 28:
			return c04Mod{Kind: c04ModType, Val: int64(c04From(d, "modType", types))}
		case k < 42:
			return c04Mod{Kind: c04ModIss, Val: c04From(d, "modIss", []int64{-1, 1, -3600, 3600, -86400})}
		case k < 62:
			return c04Mod{Kind: c04ModExp, Val: c04From(d, "modExp", []int64{-1, 1, 3600, 86400, -3600, 10 * 86400})}
		case k < 72:
			return c04Mod{Kind: c04ModNameAdd, Val: int64(pick("modName", len(c04Pool)))}
		case k < 78:
			return c04Mod{Kind: c04ModNameDrop}
		case k < 90:
			return c04Mod{Kind: c04ModNameSet, Val: int64(pick("modName", len(c04Pool)))}
		case k < 95:
			return c04Mod{Kind: c04ModKey, Val: int64(pick("modKey", n))}
		default:
			return c04Mod{Kind: c04ModParent, Val: int64(pick("modParent", n+1)) - 1}
		}
	}
	// earlier reads of a re-used Certificate value: another certificate, the same one, a truncated read, arbitrary bytes
	genPrior := func(target int, mayBeEmpty bool) []c04Prior {
		np := c04From(d, "nprior", []int{1, 1, 1, 2, 2, 3, 0})
		if np == 0 && !mayBeEmpty {
			np = 1
		}
		var out []c04Prior
		for j := 0; j < np; j++ {
			p := c04Prior{Src: pick("priorSrc", n)}
			switch k := pick("priorKind", 16); {
			case k < 3:
				p.Src = target
			case k < 7:
				if d.coin("cutSelf", 1) {
					p.Src = target
				}
				p.Cut = c04From(d, "cut", []int{1, 2, 5, 13, 21, 53, 85, 86, 87, 88, 90, 100, -SignatureLen - 1, -SignatureLen, -SignatureLen + 1, -1, -2})
			case k < 8:
				p.Junk = 1 + uint64(pick("junk", 1000))
			}
			p.Rd = c04From(d, "priorRd", []int{0, 0, 0, 0, 1, 2})
			out = append(out, p)
		}
		return out
	}
	nMods := 0
	nSteps := 3 + pick("nsteps", 8)
	for k := 0; k < nSteps; k++ {
		var st c04Step
		st.B = -1
		st.Name = c04NameNone
		l := leafPos[pick("leaf", len(leafPos))]
		if d.coin("anyLeaf", 4) {
			l = pick("leafAny", n)
		}
		i := parentOf(l)
		r := parentOf(i)
		// one step in four is preceded by something a holder of parsed certificates may do with them: take the
		// serialisation of a chain member and overwrite it, or change a field of a parsed copy and put it back on the
		// wire (the step that follows then asks about the re-parsed object).
		modLeaf, modInter := -1, -1
		reread := -1
		var mod c04Mod
		switch pre := pick("pre", 100); {
		case pre >= 86:
			// a chain member is read into a Certificate value that was a ReadFrom target before
			cand := []int{l}
			if i >= 0 {
				cand = append(cand, i, i)
			}
			if r >= 0 {
				cand = append(cand, r, r)
			}
			rs := c04Step{Op: c04OpReread, A: cand[pick("rereadWhich", len(cand))], B: -1, Name: c04NameNone, Fresh: d.coin("rereadFresh", 1), Own: d.coin("rereadOwn", 2)}
			rs.Prior = genPrior(rs.A, !rs.Fresh)
			rs.Rd = c04From(d, "rereadRd", []int{0, 0, 0, 1, 2})
			c.Steps = append(c.Steps, rs)
			if rs.Fresh && !rs.Own && rs.A != l {
				reread = rs.A
			}
		case pre < 12:
			cand := []int{l}
			if i >= 0 {
				cand = append(cand, i)
			}
			if r >= 0 {
				cand = append(cand, r)
			}
			sc := c04Step{Op: c04OpScribble, A: cand[pick("scribbleWhich", len(cand))], B: -1, Name: c04NameNone, Own: d.coin("scribbleOwn", 2)}
			if d.coin("scribbleBit", 1) {
				sc.Mut = 1 + 4*pick("scribbleAt", 1024) + pick("scribbleAtLow", 4)
			}
			c.Steps = append(c.Steps, sc)
		case pre < 26:
			target := l
			if i >= 0 && d.coin("modInter", 2) {
				target = i
			}
			mod = genMod()
			ms := c04Step{Op: c04OpModify, A: target, B: -1, Name: c04NameNone, Mod: &c04Mod{Kind: mod.Kind, Val: mod.Val}}
			if d.coin("modIntoReused", 2) {
				ms.Prior = genPrior(target, false)
				ms.Rd = c04From(d, "modRd", []int{0, 0, 0, 1, 2})
			}
			c.Steps = append(c.Steps, ms)
			if target == l {
				modLeaf = n + nMods
			} else {
				modInter = n + nMods
			}
			nMods++
		}
		switch w := pick("op", 100); {
		case w < 10:
			st.Op = c04OpAdd
			st.A = pick("addAny", n)
			if cand := []int{i, r}; pick("addChain", 10) < 7 {
				if x := cand[pick("addWhich", 2)]; x >= 0 {
					st.A = x
				}
			}
		case w < 24:
			st.Op = c04OpVerifyParent
			st.A = pick("child", n)
			st.B = pick("parent", n)
			if p := parentOf(st.A); p >= 0 && pick("vpNamed", 10) < 6 {
				st.B = p
			}
		default:
			st.Op = c04OpVerifyLeaf
			st.A = l
			switch pw := pick("pres", 100); {
			case pw < 28 || (i < 0 && pw < 70):
			case pw < 70:
				st.B = i
			case pw < 82:
				st.B = pick("presAny", n)
			default:
				st.B = i
				st.Mut = 1 + pick("mutBit", 8*len(c04MutOffsets(200)))
			}
			st.Own = d.coin("own", 1)
			switch nw := pick("nameKind", 100); {
			case nw < 35:
			case nw < 85 && len(c.Certs[l].Names) > 0:
				st.Name = c.Certs[l].Names[pick("ownName", len(c.Certs[l].Names))]
			case nw < 97:
				st.Name = pick("poolName", len(c04Pool))
			default:
				st.Name = c04NameNilTyped
			}
			members := []int{l}
			if i >= 0 {
				members = append(members, i)
			}
			if r >= 0 {
				members = append(members, r)
			}
			st.Sec = c04T0
			switch tw := pick("clock", 100); {
			case tw < 22:
			case tw < 40: // first instant of the common window
				st.Sec = c.Certs[l].Iss
				for _, m := range members {
					if c.Certs[m].Iss > st.Sec {
						st.Sec = c.Certs[m].Iss
					}
				}
			case tw < 52: // last instant(s) of the common window
				st.Sec = c.Certs[l].Exp
				for _, m := range members {
					if c.Certs[m].Exp < st.Sec {
						st.Sec = c.Certs[m].Exp
					}
				}
				st.Sec--
				if d.coin("lastNs", 1) {
					st.Nsec = 999999999
				}
			default:
				m := c.Certs[members[pick("member", len(members))]]
				if d.coin("leafBound", 2) {
					m = c.Certs[l]
				}
				switch pick("bound", 7) {
				case 0:
					st.Sec = m.Iss - 1
				case 1:
					st.Sec = m.Iss
				case 2:
					st.Sec = m.Exp - 1
				case 3:
					st.Sec, st.Nsec = m.Exp-1, 999999999
				case 4:
					st.Sec = m.Exp
				case 5:
					st.Sec = m.Exp + 1
				default:
					st.Sec, st.Nsec = m.Iss, 1
				}
			}
			if st.Sec < 1 {
				st.Sec, st.Nsec = 1, 0
			}
			st.Zone = c04From(d, "zone", []int{0, 0, 1, 2})
		}
		// the step after a "modify" step asks about the object that step produced
		switch {
		case modLeaf >= 0 && st.Op == c04OpVerifyLeaf:
			st.A = modLeaf
			if (mod.Kind == c04ModNameAdd || mod.Kind == c04ModNameSet) && d.coin("askNewName", 1) {
				st.Name = int(mod.Val)
			}
		case modLeaf >= 0 && st.Op == c04OpVerifyParent && i >= 0:
			st.A, st.B = modLeaf, i
		case modInter >= 0 && st.Op == c04OpVerifyLeaf:
			st.B, st.Mut = modInter, 0
		case modInter >= 0 && st.Op == c04OpVerifyParent:
			st.A, st.B = l, modInter
		case modInter >= 0 && st.Op == c04OpAdd:
			st.A = modInter
		case reread >= 0 && st.Op == c04OpAdd:
			st.A = reread // the Store is given the re-used value
		}
		c.Steps = append(c.Steps, st)
	}
	return c
}

// ---------------------------------------------------------------------------
// self-tests of the harness (machinery, exit 2 on failure)

func c04Seeded32(seed uint64) (out [32]byte) {
	copy(out[:], vlib.Fill(seed, 32))
	return
}

// c04SelfTest: (1) a chain specified consistently and forged is byte-for-byte the
// chain the issuing functions produce for the same keys, times and names;
// (2) the model accepts it and rejects the textbook negatives.
func c04SelfTest(t *testing.T) {
	logrus.SetOutput(io.Discard)
	w, err := c04Build(99, nil)
	if err != nil {
		t.Fatalf("VERIF-MACHINERY %v", err)
	}
	mk := func(i int) *keys.SigningKeyPair {
		kp := new(keys.SigningKeyPair)
		copy(kp.Private[:], w.key(i).Seed())
		kp.PublicFromPrivate()
		return kp
	}
	rk, ik, lk := mk(0), mk(1), mk(2)
	root, err := SelfSignRoot(SigningIdentity(rk), rk)
	if err != nil {
		t.Fatalf("VERIF-MACHINERY SelfSignRoot: %v", err)
	}
	if err := root.ProvideKey((*[32]byte)(&rk.Private)); err != nil {
		t.Fatalf("VERIF-MACHINERY %v", err)
	}
	inter, err := issue(root, SigningIdentity(ik), Intermediate, root.IssuedAt.Add(time.Second), time.Hour)
	if err != nil {
		t.Fatalf("VERIF-MACHINERY issue: %v", err)
	}
	if err := inter.ProvideKey((*[32]byte)(&ik.Private)); err != nil {
		t.Fatalf("VERIF-MACHINERY %v", err)
	}
	lid := &Identity{PublicKey: lk.Public, Names: []Name{c04ReqName(0), c04ReqName(3)}}
	leaf, err := IssueLeafAt(inter, lid, inter.IssuedAt.Add(time.Second), time.Minute)
	if err != nil {
		t.Fatalf("VERIF-MACHINERY IssueLeafAt: %v", err)
	}
	specs := []c04Cert{
		{Type: int(Root), Key: 0, Parent: c04ParentZero, Signer: 0, Iss: root.IssuedAt.Unix(), Exp: root.ExpiresAt.Unix()},
		{Type: int(Intermediate), Key: 1, Parent: 0, Signer: 0, Iss: inter.IssuedAt.Unix(), Exp: inter.ExpiresAt.Unix()},
		{Type: int(Leaf), Key: 2, Parent: 1, Signer: 1, Iss: leaf.IssuedAt.Unix(), Exp: leaf.ExpiresAt.Unix(), Names: []int{0, 3}},
	}
	fw, err := c04Build(99, specs)
	if err != nil {
		t.Fatalf("VERIF-MACHINERY forging the reference chain: %v", err)
	}
	for i, c := range []*Certificate{root, inter, leaf} {
		b, err := c.Marshal()
		if err != nil {
			t.Fatalf("VERIF-MACHINERY Marshal: %v", err)
		}
		if !bytes.Equal(b, fw.objs[i].raw) {
			t.Fatalf("VERIF-MACHINERY forged certificate %d differs from the issued one:\n forged %x\n issued %x", i, fw.objs[i].raw, b)
		}
		if c.Fingerprint != fw.objs[i].fp {
			t.Fatalf("VERIF-MACHINERY fingerprint of issued certificate %d differs from crypto/sha3 of its bytes", i)
		}
	}
	now := leaf.IssuedAt.Unix() + 1
	type q struct {
		leaf, pres int
		store      []int
		name       int
		sec        int64
		want       bool
	}
	for _, x := range []q{
		{2, 1, []int{0}, c04NameNone, now, true},
		{2, -1, []int{0, 1}, 0, now, true},
		{2, -1, []int{0, 1}, 3, now, true},
		{2, -1, []int{0, 1}, 1, now, false},          // same label, other type
		{2, -1, []int{0, 1}, 2, now, false},          // case variant
		{2, 1, nil, c04NameNone, now, false},         // empty store
		{2, -1, []int{0}, c04NameNone, now, false},   // unknown intermediate
		{2, 1, []int{1}, c04NameNone, now, false},    // root not stored
		{1, 1, []int{0, 1}, c04NameNone, now, false}, // not a leaf
		{2, 1, []int{0}, c04NameNone, specs[2].Exp, false},
		{2, 1, []int{0}, c04NameNone, specs[2].Exp - 1, true},
		{2, 1, []int{0}, c04NameNone, specs[2].Iss, true},
		{2, 1, []int{0}, c04NameNone, specs[2].Iss - 1, false},
	} {
		ms := map[[32]byte]*c04Obj{}
		for _, i := range x.store {
			ms[fw.objs[i].fp] = fw.objs[i]
		}
		var pres *c04Obj
		if x.pres >= 0 {
			pres = fw.objs[x.pres]
		}
		got, _, err := fw.valid(fw.objs[x.leaf], pres, ms, c04ReqName(x.name), x.sec)
		if err != nil || got != x.want {
			t.Fatalf("VERIF-MACHINERY model self-test %+v: got %v err %v", x, got, err)
		}
	}
}

func TestVerifC04Forest(t *testing.T) {
	c04SelfTest(t)
	vlib.Drive(t, vlib.Spec[c04Case]{ID: "C04", Quick: 80000, Gen: c04Gen, Run: c04Run})
}

// ---------------------------------------------------------------------------
// chains made only by the issuing functions

type c04At struct {
	Rel int   `json:"rel"` // 0: parent.IssuedAt + D, 1: parent.ExpiresAt + D
	D   int64 `json:"d"`   // nanoseconds
}

type c04Probe struct {
	Ref  int `json:"ref"`  // 0 leaf, 1 intermediate, 2 root
	Kind int `json:"kind"` // see c04ProbeTime
	Name int `json:"name"`
}

type c04APICase struct {
	Seed     uint64     `json:"seed"`
	PubInter bool       `json:"pubinter"` // IssueIntermediate (now, 366 days) instead of issue(root, ..., at, duration)
	InterAt  c04At      `json:"interat"`
	InterDur int64      `json:"interdur"`
	LeafAt   c04At      `json:"leafat"`
	LeafDur  int64      `json:"leafdur"`
	Names    []int      `json:"names"`
	Reparse  int        `json:"reparse"`            // bit 0 leaf, 1 intermediate, 2 root: verify the marshalled and re-read certificate
	Scribble int        `json:"scribble,omitempty"` // bit 0 leaf, 1 intermediate, 2 root: before the probes the member in use is marshalled once more and every byte of that serialisation is overwritten by its caller
	Reuse    int        `json:"reuse,omitempty"`    // bit 0 leaf, 1 intermediate, 2 root: the re-read (Reparse) goes into a Certificate value that was a ReadFrom target before, see ReuseHow
	ReuseHow int        `json:"reusehow,omitempty"` // earlier reads of that value: 0 the next chain member, 1 the same bytes, 2 the same bytes cut short, 3 next member then same bytes, 4 arbitrary bytes, 5 both other members
	Layout   int        `json:"layout"`             // 0 presented + store{root}; 1 store{root, intermediate}; 2 both
	Probes   []c04Probe `json:"probes"`
}

func (a c04At) resolve(parent *Certificate) time.Time {
	if a.Rel == 1 {
		return parent.ExpiresAt.Add(time.Duration(a.D))
	}
	return parent.IssuedAt.Add(time.Duration(a.D))
}

func c04ProbeTime(c *Certificate, kind int) time.Time {
	iss, exp := c.IssuedAt.Round(0), c.ExpiresAt.Round(0)
	switch kind {
	case 0:
		return iss.Add(-time.Second)
	case 1:
		return iss.Add(-1)
	case 2:
		return iss
	case 3:
		return iss.Add(1)
	case 4:
		return exp.Add(-time.Second)
	case 5:
		return exp.Add(-1)
	case 6:
		return exp
	case 7:
		return exp.Add(time.Second)
	default:
		return iss.Add(exp.Sub(iss) / 2)
	}
}

func c04APIRun(c c04APICase, v *vlib.Verdict) {
	mk := func(i uint64) *keys.SigningKeyPair {
		kp := new(keys.SigningKeyPair)
		kp.Private = c04Seeded32(c.Seed*31 + i)
		kp.PublicFromPrivate()
		return kp
	}
	if c.InterDur <= 0 || c.LeafDur <= 0 {
		v.Discard = true
		return
	}
	for _, n := range c.Names {
		if n < 0 || n >= len(c04Pool) {
			v.Discard = true
			return
		}
	}
	rk, ik := mk(1), mk(2)
	var root, inter, leaf *Certificate
	var err error
	if vlib.Guard(v, func() { root, err = SelfSignRoot(SigningIdentity(rk), rk) }) {
		return
	}
	if err != nil {
		v.Inconclusive = "SelfSignRoot: " + err.Error()
		return
	}
	if err := root.ProvideKey((*[32]byte)(&rk.Private)); err != nil {
		v.Inconclusive = "ProvideKey: " + err.Error()
		return
	}
	inside := func(at time.Time, p *Certificate) bool {
		return !at.Before(p.IssuedAt) && at.Before(p.ExpiresAt)
	}
	if c.PubInter {
		if vlib.Guard(v, func() { inter, err = IssueIntermediate(root, SigningIdentity(ik)) }) {
			return
		}
		if err != nil {
			v.Inconclusive = "IssueIntermediate refused: " + err.Error()
			return
		}
	} else {
		at := c.InterAt.resolve(root)
		if vlib.Guard(v, func() { inter, err = issue(root, SigningIdentity(ik), Intermediate, at, time.Duration(c.InterDur)) }) {
			return
		}
		if err != nil {
			if inside(at, root) {
				v.Inconclusive = "issue refused inside the root's window: " + err.Error()
			}
			v.Label("issue-refused:intermediate")
			return
		}
	}
	if err := inter.ProvideKey((*[32]byte)(&ik.Private)); err != nil {
		v.Inconclusive = "ProvideKey: " + err.Error()
		return
	}
	lk := keys.X25519KeyPair{Private: keys.DHPrivateKey(c04Seeded32(c.Seed*31 + 3))}
	lk.PublicFromPrivate()
	var lnames []Name
	for _, n := range c.Names {
		lnames = append(lnames, c04ReqName(n))
	}
	at := c.LeafAt.resolve(inter)
	if vlib.Guard(v, func() { leaf, err = IssueLeafAt(inter, LeafIdentity(&lk, lnames...), at, time.Duration(c.LeafDur)) }) {
		return
	}
	if err != nil {
		if inside(at, inter) {
			v.Inconclusive = "IssueLeafAt refused inside the intermediate's window: " + err.Error()
		}
		v.Label("issue-refused:leaf")
		return
	}
	// documented: "The certificate will never outlive its intermediate parent."
	if leaf.ExpiresAt.After(inter.ExpiresAt) {
		v.Failf("C04:issued-leaf-outlives-parent:IssueLeafAt", "leaf expires %s, intermediate %s", leaf.ExpiresAt, inter.ExpiresAt)
		return
	}
	chain := [3]*Certificate{leaf, inter, root}
	var wire [3][]byte
	for i := range chain {
		if wire[i], err = chain[i].Marshal(); err != nil {
			v.Failf("C04:issued-certificate-unserialisable", "member %d: %v", i, err)
			return
		}
	}
	if c.Reuse < 0 || c.Reuse > 7 || c.ReuseHow < 0 || c.ReuseHow > 5 {
		v.Discard = true
		return
	}
	for i := range chain {
		if c.Reparse&(1<<i) != 0 {
			b := wire[i]
			p, err := c04Parse(b)
			if err != nil {
				v.Failf("C04:issued-certificate-unparseable", "member %d: %v", i, err)
				return
			}
			if c.Reuse&(1<<i) != 0 {
				// the value that receives the certificate has received others before; only the last read counts
				named := func(k int) bool { return k == 0 && len(c.Names) > 0 }
				whole := func(k int) c04PriorRead {
					return c04PriorRead{b: wire[k], names: named(k), kind: "certificate"}
				}
				var prs []c04PriorRead
				switch c.ReuseHow {
				case 0:
					prs = []c04PriorRead{whole((i + 1) % 3)}
				case 1:
					prs = []c04PriorRead{whole(i)}
				case 2:
					cut := len(b) - SignatureLen/2
					if c.Seed%2 == 0 {
						cut = 60
					}
					prs = []c04PriorRead{{b: b[:cut], names: named(i) && cut > 86, kind: "truncated"}}
				case 3:
					prs = []c04PriorRead{whole((i + 1) % 3), whole(i)}
				case 4:
					prs = []c04PriorRead{{b: vlib.Fill(c.Seed+uint64(i), len(b)), names: len(b) > 86+SignatureLen, kind: "arbitrary"}}
				case 5:
					prs = []c04PriorRead{whole((i + 2) % 3), whole((i + 1) % 3)}
				}
				p = new(Certificate)
				if !c04ReadReused(v, p, false, prs, b, int(c.Seed/2)%3) {
					return
				}
				v.Label("issued:read-into-reused-value")
			}
			chain[i] = p
		}
	}
	var store Store
	store.AddCertificate(chain[2])
	var pres *Certificate
	if c.Layout != 1 {
		pres = chain[1]
	}
	if c.Layout != 0 {
		store.AddCertificate(chain[1])
	}
	// Marshal gives "newly-allocated memory": what its caller does with the bytes must not reach the certificate
	for i := range chain {
		if c.Scribble&(1<<i) != 0 {
			var b []byte
			var err error
			if vlib.Guard(v, func() { b, err = chain[i].Marshal() }) {
				return
			}
			if err != nil {
				v.Failf("C04:issued-certificate-unserialisable", "member %d (second Marshal): %v", i, err)
				return
			}
			for k := range b {
				b[k] = ^b[k]
			}
			v.Label("issued:marshal+scribble")
		}
	}
	accepts := 0
	for pi, p := range c.Probes {
		if p.Ref < 0 || p.Ref > 2 || p.Name < c04NameNilTyped || p.Name >= len(c04Pool) {
			v.Discard = true
			return
		}
		now := c04ProbeTime(chain[p.Ref], p.Kind)
		if now.IsZero() {
			continue
		}
		inAll := true
		for _, m := range chain {
			if !(m.IssuedAt.UnixNano() <= now.UnixNano() && now.UnixNano() < m.ExpiresAt.UnixNano()) {
				inAll = false
			}
		}
		name := c04ReqName(p.Name)
		nameOK := p.Name == c04NameNone
		for _, n := range c.Names {
			if c04Pool[n].Type == name.Type && bytes.Equal(c04Pool[n].Label, name.Label) {
				nameOK = true
			}
		}
		var got error
		if vlib.Guard(v, func() {
			got = store.VerifyLeaf(chain[0], VerifyOptions{PresentedIntermediate: pres, Name: name, CurrentTime: now})
		}) {
			return
		}
		want := inAll && nameOK
		if want && got != nil {
			v.Failf("C04:issued-chain-rejected:"+c04Reason(got), "probe %d (%s): chain made by the issuing functions rejected inside all three windows: %v", pi, now.UTC().Format(time.RFC3339Nano), got)
			return
		}
		if !want && got == nil {
			what := "outside-window"
			if inAll {
				what = "name"
			}
			v.Failf("C04:issued-chain-accepted:"+what, "probe %d (%s, name %d): accepted", pi, now.UTC().Format(time.RFC3339Nano), p.Name)
			return
		}
		if want {
			accepts++
			v.Label("probe:accept")
		} else if inAll {
			v.Label("probe:reject-name")
		} else {
			v.Label("probe:reject-time")
		}
	}
	v.NonTrivial = accepts > 0
	lead := "issued:reparse-none"
	switch {
	case c.Reparse&7 == 7:
		lead = "issued:reparse-all"
	case c.Reparse&7 != 0:
		lead = "issued:reparse-mixed"
	}
	v.Labels = append([]string{lead}, v.Labels...)
	if leaf.ExpiresAt.Equal(inter.ExpiresAt) {
		v.Label("issued:leaf-clamped-to-parent")
	}
	if c.PubInter {
		v.Label("issued:IssueIntermediate")
	}
}

func c04APIGen(t *rapid.T) c04APICase {
	d := c04Draw{t}
	s := int64(time.Second)
	day := 86400 * s
	// issuance instant relative to the parent: 1 in 8 outside its window (refused by design), otherwise
	// inside, at or near a bound; span is the parent's (unclamped) lifetime
	atGen := func(label string, span int64) c04At {
		if d.coin(label+"Outside", 3) {
			return c04From(d, label+"Out", []c04At{{0, -s}, {0, -1}, {1, 0}, {1, s}})
		}
		var in []c04At
		for _, x := range []int64{0, 0, 1, s / 2, s, 2 * s, 3600 * s, day} {
			if x < span {
				in = append(in, c04At{0, x})
			}
		}
		for _, x := range []int64{1, s / 2, s, 2 * s, 3600 * s} {
			if x <= span {
				in = append(in, c04At{1, -x})
			}
		}
		return c04From(d, label+"In", in)
	}
	durGen := func(label string) int64 {
		if d.coin(label+"Short", 2) {
			return c04From(d, label, []int64{1, s / 2, s, s + 1, 2 * s})
		}
		return c04From(d, label, []int64{60 * s, 3600 * s, day, 366 * day, 10 * 366 * day})
	}
	c := c04APICase{
		Seed:     rapid.Uint64Range(1, 1<<40).Draw(t, "seed"),
		PubInter: d.coin("pubInter", 2),
		InterDur: durGen("interDur"),
		LeafDur:  durGen("leafDur"),
		Reparse:  c04From(d, "reparse", []int{0, 7, 7, 1, 2, 4, 3, 5, 6}),
		Layout:   d.n("layout", 3),
		Scribble: c04From(d, "scribble", []int{0, 0, 0, 1, 2, 4, 7, 3}),
	}
	if d.coin("reuse", 1) {
		c.Reuse = c04From(d, "reuseWhich", []int{7, 7, 1, 2, 4, 3, 5, 6}) & c.Reparse
		c.ReuseHow = d.n("reuseHow", 6)
	}
	c.InterAt = atGen("inter", 5*365*day)
	span := c.InterDur
	if c.PubInter {
		span = 366 * day
	}
	c.LeafAt = atGen("leaf", span)
	for i, n := 0, d.n("nnames", 4); i < n; i++ {
		c.Names = append(c.Names, d.n("name", len(c04Pool)))
	}
	for i, n := 0, 2+d.n("nprobes", 7); i < n; i++ {
		p := c04Probe{Ref: c04From(d, "ref", []int{0, 0, 0, 0, 1, 2}), Kind: d.n("kind", 9), Name: c04NameNone}
		switch nk := d.n("nameKind", 10); {
		case nk < 5:
		case nk < 8 && len(c.Names) > 0:
			p.Name = c.Names[d.n("own", len(c.Names))]
		default:
			p.Name = d.n("pool", len(c04Pool))
		}
		c.Probes = append(c.Probes, p)
	}
	return c
}

func TestVerifC04Issued(t *testing.T) {
	c04SelfTest(t)
	vlib.Drive(t, vlib.Spec[c04APICase]{ID: "C04", Quick: 20000, Gen: c04APIGen, Run: c04APIRun})
}

// ---------------------------------------------------------------------------
// enumeration 1: raw mutations of a verifying chain (no re-signing)

type c04FlipCase struct {
	Chain  int `json:"chain"`  // chain number: keys and shape
	Target int `json:"target"` // 0 leaf, 1 intermediate, 2 root
	Kind   int `json:"kind"`   // 0 flip bit Bit; 1 raw field overwrite number Bit
	Bit    int `json:"bit"`
}

// c04BaseForest: 0 R0, 1 R1, 2 I0 (under R0), 3 I1 (under R1), 4 I2 (under R0), 5 L0 (under I0), 6 L1 (under I1).
func c04BaseForest(chain int) []c04Cert {
	day := int64(86400)
	leafNames := [][]int{{0}, {0, 3}, {9, 1, 6}, {}}[chain%4]
	caNames := [][]int{nil, {5}, nil, {0}}[chain%4]
	return []c04Cert{
		{Type: int(Root), Key: 0, Parent: c04ParentZero, Signer: 0, Iss: c04T0 - 10*day, Exp: c04T0 + 10*day, Names: caNames},
		{Type: int(Root), Key: 1, Parent: c04ParentZero, Signer: 1, Iss: c04T0 - 10*day, Exp: c04T0 + 10*day},
		{Type: int(Intermediate), Key: 2, Parent: 0, Signer: 0, Iss: c04T0 - 5*day, Exp: c04T0 + 5*day, Names: caNames},
		{Type: int(Intermediate), Key: 3, Parent: 1, Signer: 1, Iss: c04T0 - 5*day, Exp: c04T0 + 5*day},
		{Type: int(Intermediate), Key: 4, Parent: 0, Signer: 0, Iss: c04T0 - 5*day, Exp: c04T0 + 5*day},
		{Type: int(Leaf), Key: 5, Parent: 2, Signer: 2, Iss: c04T0 - day, Exp: c04T0 + day, Names: leafNames},
		{Type: int(Leaf), Key: 6, Parent: 3, Signer: 3, Iss: c04T0 - day, Exp: c04T0 + day, Names: leafNames},
	}
}

const (
	c04bR0 = 0
	c04bR1 = 1
	c04bI0 = 2
	c04bI1 = 3
	c04bI2 = 4
	c04bL0 = 5
	c04bL1 = 6
)

type c04Overwrite struct {
	what string
	off  int
	val  []byte
}

func c04be64(x int64) []byte {
	b := make([]byte, 8)
	for i := 0; i < 8; i++ {
		b[7-i] = byte(uint64(x) >> (8 * i))
	}
	return b
}

// c04Overwrites lists raw field overwrites for forest member idx (the fixed-offset
// fields and the signature; the bit flips cover the name chunk).
func c04Overwrites(w *c04World, idx int) []c04Overwrite {
	o := w.objs[idx]
	var out []c04Overwrite
	add := func(what string, off int, val []byte) {
		if !bytes.Equal(o.raw[off:off+len(val)], val) {
			out = append(out, c04Overwrite{what, off, val})
		}
	}
	add("version", 0, []byte{0})
	add("version", 0, []byte{2})
	for _, ty := range []byte{0, 1, 2, 3, 4, 0x81} {
		add("type", 1, []byte{ty})
	}
	add("reserved", 2, []byte{0, 1})
	add("reserved", 2, []byte{0xff, 0xff})
	for _, x := range []int64{0, c04T0 + 1, o.spec.Iss - 1, o.spec.Iss + 1, o.spec.Exp} {
		add("issued-at", 4, c04be64(x))
	}
	for _, x := range []int64{c04T0, c04T0 - 1, o.spec.Exp - 1, o.spec.Exp + 1, 1 << 62, o.spec.Iss} {
		add("expires-at", 12, c04be64(x))
	}
	for _, k := range []int{c04bI1, c04bR1, c04bL1} {
		add("public-key", 20, w.objs[k].raw[20:52])
	}
	for _, k := range []int{c04bR0, c04bR1, c04bI0, c04bI1, c04bI2, idx} {
		add("parent", 52, w.objs[k].fp[:])
	}
	add("parent", 52, make([]byte, 32))
	for _, k := range []int{c04bR0, c04bI1, c04bI2, c04bL1} {
		ok := w.objs[k].raw
		add("signature", len(o.raw)-SignatureLen, ok[len(ok)-SignatureLen:])
	}
	add("signature", len(o.raw)-SignatureLen, make([]byte, SignatureLen))
	return out
}

type c04FlipQuery struct {
	name   string
	leaf   *Certificate
	pres   *Certificate
	store  []*Certificate
	accept bool
}

func c04FlipRun(c c04FlipCase, v *vlib.Verdict) {
	w, err := c04Build(uint64(1000+c.Chain), c04BaseForest(c.Chain))
	if err != nil {
		v.Inconclusive = "forger: " + err.Error()
		return
	}
	targetIdx := [3]int{c04bL0, c04bI0, c04bR0}
	if c.Target < 0 || c.Target > 2 || c.Bit < 0 {
		v.Discard = true
		return
	}
	orig := w.objs[targetIdx[c.Target]]
	raw := append([]byte(nil), orig.raw...)
	what := "bit"
	switch c.Kind {
	case 0:
		if c.Bit >= len(raw)*8 {
			v.Discard = true
			return
		}
		raw[c.Bit/8] ^= 1 << (c.Bit % 8)
	case 1:
		ows := c04Overwrites(w, orig.idx)
		if c.Bit >= len(ows) {
			v.Discard = true
			return
		}
		ow := ows[c.Bit]
		copy(raw[ow.off:], ow.val)
		what = ow.what
	default:
		v.Discard = true
		return
	}
	L, I, R := w.objs[c04bL0].obj, w.objs[c04bI0].obj, w.objs[c04bR0].obj
	name := Name{}
	if len(orig.spec.Names) > 0 && c.Target == 0 {
		name = c04ReqName(orig.spec.Names[0])
	}
	now := time.Unix(c04T0, 0)
	run := func(q c04FlipQuery, n Name) bool {
		var store Store
		for _, s := range q.store {
			store.AddCertificate(s)
		}
		var got error
		if vlib.Guard(v, func() {
			got = store.VerifyLeaf(q.leaf, VerifyOptions{PresentedIntermediate: q.pres, Name: n, CurrentTime: now})
		}) {
			return false
		}
		if q.accept && got != nil {
			v.Failf("C04:rejected-valid-chain:"+c04Reason(got), "%s: %v", q.name, got)
			return false
		}
		if !q.accept && got == nil {
			v.Failf("C04:accepted-mutated-certificate:"+q.name, "chain %d: %s of %s changed (kind %d, index %d), verification still succeeds (%s)",
				c.Chain, what, [3]string{"leaf", "intermediate", "root"}[c.Target], c.Kind, c.Bit, q.name)
			return false
		}
		return true
	}
	// the unchanged chain verifies in both layouts
	for _, q := range []c04FlipQuery{
		{"genuine/presented", L, I, []*Certificate{R}, true},
		{"genuine/stored", L, nil, []*Certificate{R, I}, true},
	} {
		if !run(q, name) {
			return
		}
	}
	M, full, ok := c04ParseLoose(raw)
	if !ok {
		v.Label("flip:unparseable")
		v.Labelf("flip:%s:%s:unparseable", [3]string{"leaf", "intermediate", "root"}[c.Target], what)
		return
	}
	if sha3.Sum256(raw) == orig.fp {
		v.Inconclusive = "SHA3 collision?!"
		return
	}
	var qs []c04FlipQuery
	switch c.Target {
	case 0:
		qs = []c04FlipQuery{
			{"mutated-leaf/intermediate-presented", M, I, []*Certificate{R}, false},
			{"mutated-leaf/intermediate-stored", M, nil, []*Certificate{R, I}, false},
			{"mutated-leaf/everything-stored", M, I, []*Certificate{R, I, M, L}, false},
		}
	case 1:
		qs = []c04FlipQuery{
			{"mutated-intermediate-presented", L, M, []*Certificate{R}, false},
			{"mutated-intermediate-stored", L, nil, []*Certificate{R, M}, false},
			{"mutated-intermediate-presented-and-stored", L, M, []*Certificate{R, M}, false},
			// documented: a presented intermediate that is not the named parent is ignored
			{"mutated-intermediate-presented/genuine-stored", L, M, []*Certificate{R, I}, true},
			{"mutated-intermediate-stored/genuine-presented", L, I, []*Certificate{R, M}, true},
		}
	case 2:
		qs = []c04FlipQuery{
			{"mutated-root-stored", L, I, []*Certificate{M}, false},
			{"mutated-root-stored/intermediate-stored", L, nil, []*Certificate{M, I}, false},
			{"mutated-root-and-genuine-root-stored", L, I, []*Certificate{M, R}, true},
		}
	}
	for _, q := range qs {
		if !run(q, Name{}) {
			return
		}
		if c.Target == 0 && len(orig.spec.Names) > 0 && !q.accept {
			if !run(q, name) {
				return
			}
		}
	}
	v.NonTrivial = true
	v.Labelf("flip:%s:%s:parsed", [3]string{"leaf", "intermediate", "root"}[c.Target], what)
	if !full {
		v.Label("flip:parsed-short")
	}
}

func c04Chains(quick int) int {
	n := int(float64(quick)*vlib.GetEnv().Scale + 0.5)
	if n < 1 {
		n = 1
	}
	return n
}

func TestVerifC04BitFlips(t *testing.T) {
	logrus.SetOutput(io.Discard)
	if vlib.ReplayEnumerated(t, "C04", c04FlipRun) {
		return
	}
	c04SelfTest(t)
	rec := vlib.Open(t, "C04")
	chains := c04Chains(4)
	idx := 0
	bits := 0
	for ch := 0; ch < chains; ch++ {
		w, err := c04Build(uint64(1000+ch), c04BaseForest(ch))
		if err != nil {
			t.Fatalf("VERIF-MACHINERY %v", err)
		}
		for target, fi := range []int{c04bL0, c04bI0, c04bR0} {
			nb := len(w.objs[fi].raw) * 8
			bits += nb
			for b := 0; b < nb; b++ {
				idx++
				if !rec.Mine(idx) {
					continue
				}
				if !vlib.Each(t, rec, c04FlipCase{Chain: ch, Target: target, Kind: 0, Bit: b}, c04FlipRun) {
					return
				}
			}
			for k := range c04Overwrites(w, fi) {
				idx++
				if !rec.Mine(idx) {
					continue
				}
				if !vlib.Each(t, rec, c04FlipCase{Chain: ch, Target: target, Kind: 1, Bit: k}, c04FlipRun) {
					return
				}
			}
		}
	}
	rec.SetExhaustive(true)
	rec.Extra("enumerated", fmt.Sprintf("every single-bit flip of the serialised leaf, intermediate and root of %d verifying chains (%d bits) plus raw overwrites of every fixed field, each in 3-5 store/presentation layouts", chains, bits))
}

// ---------------------------------------------------------------------------
// enumeration 2: single-field substitutions that are properly signed (or carry
// the signature of the original body), judged by the model through c04Run

func c04SubstCases(chain int) []c04Case {
	var out []c04Case
	base := c04BaseForest(chain)
	reqName := c04NameNone
	if len(base[c04bL0].Names) > 0 {
		reqName = base[c04bL0].Names[0]
	}
	type mod struct {
		what string
		f    func(s *c04Cert)
	}
	var mods []mod
	for _, ty := range []int{int(Leaf), int(Intermediate), int(Root), 0, 4} {
		ty := ty
		mods = append(mods, mod{"type", func(s *c04Cert) { s.Type = ty }})
	}
	for _, q := range []int{c04bR0, c04bR1, c04bI0, c04bI1, c04bI2} {
		q := q
		mods = append(mods,
			mod{"issuer", func(s *c04Cert) { s.Parent, s.Signer = q, base[q].Key }},
			mod{"issuer-link-only", func(s *c04Cert) { s.Parent = q }},
			mod{"issuer-key-only", func(s *c04Cert) { s.Signer = base[q].Key }})
	}
	mods = append(mods, mod{"issuer-link-only", func(s *c04Cert) { s.Parent = c04ParentZero }},
		mod{"issuer-link-only", func(s *c04Cert) { s.Parent = c04ParentJunk }},
		mod{"issuer-key-only", func(s *c04Cert) { s.Signer = s.Key }},
		mod{"public-key", func(s *c04Cert) { s.Key = 9 }})
	for _, nm := range [][]int{{}, {5}, {1}, {2}, {7}, {8}, {4}, {3}, {0}, {5, 0}, {11}} {
		nm := nm
		mods = append(mods, mod{"name", func(s *c04Cert) { s.Names = nm }})
	}
	for _, d := range []int64{-1, 0, 1, 2} {
		d := d
		mods = append(mods,
			mod{"issued-at", func(s *c04Cert) { s.Iss = c04T0 + d }},
			mod{"expires-at", func(s *c04Cert) { s.Exp = c04T0 + d }})
	}
	mods = append(mods, mod{"expires-at", func(s *c04Cert) { s.Exp = s.Iss }})

	sameSpec := func(a, b c04Cert) bool { return fmt.Sprint(a) == fmt.Sprint(b) }
	queries := func(pres []int, leaf int) []c04Step {
		var st []c04Step
		for _, p := range pres {
			for _, n := range []int{c04NameNone, reqName} {
				st = append(st, c04Step{Op: c04OpVerifyLeaf, A: leaf, B: p, Own: true, Name: n, Sec: c04T0})
				if reqName == c04NameNone {
					break // this chain's leaf has no name: one query is enough
				}
			}
		}
		return st
	}
	for _, target := range []int{c04bL0, c04bI0, c04bR0} {
		for _, m := range mods {
			for _, stale := range []bool{false, true} {
				// (a) in place: the substituted certificate replaces the original, children follow it
				certs := append([]c04Cert(nil), base...)
				s := certs[target]
				orig := s
				m.f(&s)
				if s.Parent >= target { // must name an earlier certificate
					continue
				}
				if sameSpec(s, orig) {
					continue
				}
				if stale {
					o := orig
					s.Stale = &o
					s.Signer = orig.Signer
				}
				certs[target] = s
				for _, store := range [][]int{{c04bR0}, {c04bR0, c04bI0}, {c04bR0, c04bR1, c04bI0, c04bI1, c04bI2}, {c04bI0}, {c04bR1, c04bI0}} {
					steps := queries([]int{-1, c04bI0, c04bI1, c04bI2, c04bR0}, c04bL0)
					steps = append(steps, c04Step{Op: c04OpVerifyParent, A: c04bL0, B: c04bI0}, c04Step{Op: c04OpVerifyParent, A: c04bI0, B: c04bR0},
						c04Step{Op: c04OpVerifyParent, A: c04bR0, B: c04bR0})
					out = append(out, c04Case{KeySeed: uint64(2000 + chain), Certs: certs, Store: store, Steps: steps})
				}
				// (b) side by side: the original stays, children keep naming it, the substitute (index 7)
				// is offered in its place
				if target == c04bL0 {
					continue
				}
				certs2 := append(append([]c04Cert(nil), base...), s)
				if s.Stale != nil {
					o := orig
					certs2[7].Stale = &o
				}
				const sub = 7
				stores := [][]int{{c04bR0}, {c04bR0, sub}, {c04bR0, c04bI0, sub}, {sub}, {sub, c04bI0}}
				for _, store := range stores {
					steps := queries([]int{-1, c04bI0, sub}, c04bL0)
					steps = append(steps, c04Step{Op: c04OpVerifyParent, A: c04bL0, B: sub}, c04Step{Op: c04OpVerifyParent, A: c04bI0, B: sub},
						c04Step{Op: c04OpVerifyParent, A: sub, B: c04bR0})
					// then the genuine certificates are added and the same questions asked again
					steps = append(steps, c04Step{Op: c04OpAdd, A: c04bR0}, c04Step{Op: c04OpAdd, A: c04bI0})
					steps = append(steps, queries([]int{-1, sub}, c04bL0)...)
					out = append(out, c04Case{KeySeed: uint64(2000 + chain), Certs: certs2, Store: store, Steps: steps})
				}
			}
		}
	}
	return out
}

func TestVerifC04Substitutions(t *testing.T) {
	logrus.SetOutput(io.Discard)
	if vlib.ReplayEnumerated(t, "C04", c04Run) {
		return
	}
	c04SelfTest(t)
	rec := vlib.Open(t, "C04")
	chains := c04Chains(4)
	idx := 0
	for ch := 0; ch < chains; ch++ {
		for _, c := range c04SubstCases(ch) {
			idx++
			if !rec.Mine(idx) {
				continue
			}
			if !vlib.Each(t, rec, c, c04Run) {
				return
			}
		}
	}
	rec.SetExhaustive(true)
	rec.Extra("enumerated", fmt.Sprintf("%d forests: every single-field substitution (type, issuer link/key, public key, names, each time bound) of leaf, intermediate and root of %d base chains, re-signed and stale-signed, in place and side by side, x 5 trust stores", idx, chains))
}
