package certs

// C18 — certificates, id chunks and names round-trip (WriteTo / ReadFrom and the
// PEM wrappers); a label or chunk that does not fit the format is rejected by
// the encoder; whatever ReadFrom accepts re-encodes to something that decodes
// to the same value. Every decode from a reader is repeated with the same bytes
// delivered in pieces (wire.Delivery: short reads, (0, nil) results,
// end-of-stream reported with the last bytes) and must give the same result,
// including the fingerprint and the retained raw bytes computed while reading.
// Names are compared by IsZero() too (explicitly empty name vs zero Name). A
// parsed certificate's Marshal result is the caller's memory (overwriting it
// must not reach the certificate), and a parsed certificate whose fields were
// changed afterwards must Marshal to the changed value.

import (
	"bytes"
	"encoding/binary"
	"fmt"
	"io"
	"os"
	"testing"
	"time"

	"github.com/sirupsen/logrus"
	"pgregory.net/rapid"
	"verif.local/vlib"
	"verif.local/vlib/wire"
)

func init() { logrus.SetOutput(io.Discard) }

const (
	c18MaxLabel = 252 // ErrNameTooLong: "maximum name length is 252 bytes" (block size byte = len+3 <= 255)
	c18MaxChunk = 512 // IDChunk.ReadFrom / WriteTo: chunk length <= 512
)

type c18Name struct {
	Type int    `json:"t"`
	Len  int    `json:"n"`
	Seed uint64 `json:"s"`
}

func (n c18Name) value() Name {
	return Name{Type: IDType(n.Type), Label: vlib.Fill(n.Seed, n.Len)}
}

func c18KnownIDType(t int) bool { return t >= 0 && t <= 3 }

// c18NameEq compares two names as values: type, label bytes, and IsZero() - the
// one place where the documentation gives the nil-ness of a label a meaning of
// its own: "When Label is []byte{} (0-length, non-nil), it does not count as
// zero. It's an explicitly empty, raw name", and verification treats only the
// zero Name as "no name requested". bytes.Equal alone cannot tell nil from
// empty. (For a non-zero type nil and empty labels are documented nowhere to
// differ, so nothing is demanded there.)
func c18NameEq(a, b Name) bool { return c18NameDiff(a, b) == "" }

// c18NameDiff names the first aspect in which b (decoded) differs from a ("" = equal).
func c18NameDiff(a, b Name) string {
	switch {
	case a.Type != b.Type:
		return "Type"
	case !bytes.Equal(a.Label, b.Label):
		return "Label"
	case a.IsZero() != b.IsZero():
		return "IsZero"
	}
	return ""
}

func c18NameStr(n Name) string {
	if n.Label == nil {
		return fmt.Sprintf("type %d/nil label (IsZero=%v)", n.Type, n.IsZero())
	}
	return fmt.Sprintf("type %d/%d bytes non-nil (IsZero=%v)", n.Type, len(n.Label), n.IsZero())
}

// ---------------------------------------------------------------------------
// Name (A)

// c18NameCase is a name plus the delivery pattern under which its encoding is
// decoded a second time (zero value: in one piece only).
type c18NameCase struct {
	c18Name
	Dlv wire.Delivery `json:"dlv"`
}

func c18NameRunA(c c18NameCase, v *vlib.Verdict) {
	name := c.value()
	fits := c.Len <= c18MaxLabel
	v.NonTrivial = wire.AtLimit(c.Len) || !c18KnownIDType(c.Type)
	if c18KnownIDType(c.Type) {
		v.Label("idtype-known")
	} else {
		v.Label("idtype-unknown")
	}
	switch {
	case c.Len < 252:
		v.Label("label<252")
	case c.Len == 252:
		v.Label("label=252")
	case c.Len == 253:
		v.Label("label=253")
	default:
		v.Label("label>253")
	}
	var buf bytes.Buffer
	var err error
	if vlib.Guard(v, func() { _, err = name.WriteTo(&buf) }) {
		return
	}
	if err != nil {
		v.Label("encoder-rejected")
		if fits {
			v.Failf("C18:encode-rejects-representable:certs.Name", "Name.WriteTo rejects a %d-byte label of type %d: %v", c.Len, c.Type, err)
		}
		return
	}
	enc := buf.Bytes()
	st := &wire.Stream{Data: enc, Sentinel: true, MaxSentinel: 1 << 20}
	var got Name
	var derr error
	if vlib.Guard(v, func() { _, derr = got.ReadFrom(st) }) {
		return
	}
	bad := ""
	switch {
	case derr != nil:
		bad = fmt.Sprintf("ReadFrom fails: %v", derr)
	case got.Type != name.Type:
		bad = fmt.Sprintf("type %d decodes as %d", name.Type, got.Type)
	case !bytes.Equal(got.Label, name.Label):
		bad = fmt.Sprintf("label of %d bytes decodes as %d different bytes", len(name.Label), len(got.Label))
	case c18NameDiff(name, got) != "":
		// the generated label is never nil (vlib.Fill): a zero-length one is the explicitly empty name
		bad = fmt.Sprintf("%s decodes as %s", c18NameStr(name), c18NameStr(got))
	case st.Consumed != len(enc):
		bad = fmt.Sprintf("ReadFrom consumed %d of %d encoded bytes", st.Consumed, len(enc))
	}
	if c.Len == 0 {
		v.Label("label=0")
	}
	if bad == "" {
		if !fits {
			v.Label("beyond-assumed-limit-but-round-trips")
		}
		wire.Redeliver(v, "C18", "certs.Name", enc, true, c.Dlv, true, len(enc), func(st *wire.Stream) (string, string, error) {
			var again Name
			if _, err := again.ReadFrom(st); err != nil {
				return "", "", err
			}
			if !c18NameEq(got, again) {
				return "Name", fmt.Sprintf("%s instead of %s", c18NameStr(again), c18NameStr(got)), nil
			}
			return "", "", nil
		})
		return
	}
	if !fits {
		v.Failf("C18:encode-accepted-misframed:certs.Name", "Name.WriteTo accepted a %d-byte label (documented maximum %d) and wrote block-size byte %d: %s", c.Len, c18MaxLabel, enc[0], bad)
		return
	}
	switch {
	case derr != nil:
		v.Failf("C18:decode-rejects-own-encoding:certs.Name", "%s", bad)
	case got.Type != name.Type:
		v.Failf("C18:roundtrip-mismatch:certs.Name:Type", "%s", bad)
	case !bytes.Equal(got.Label, name.Label):
		v.Failf("C18:roundtrip-mismatch:certs.Name:Label", "%s", bad)
	case c18NameDiff(name, got) != "":
		v.Failf("C18:roundtrip-mismatch:certs.Name:"+c18NameDiff(name, got), "%s", bad)
	default:
		v.Failf("C18:consumed-length:certs.Name", "%s", bad)
	}
}

func c18NameGen(t *rapid.T) c18NameCase {
	return c18NameCase{c18Name{Type: rapid.IntRange(0, 255).Draw(t, "type"), Len: wire.DrawLen(t, "len", 70000), Seed: rapid.Uint64().Draw(t, "seed")}, wire.DrawDelivery(t)}
}

func TestVerifC18NameEncDec(t *testing.T) {
	vlib.Drive(t, vlib.Spec[c18NameCase]{ID: "C18", Quick: 6000, Gen: c18NameGen, Run: c18NameRunA})
}

// all 256 id types x all label lengths 0..260
func TestVerifC18NameSweep(t *testing.T) {
	if vlib.ReplayEnumerated(t, "C18", c18NameRunA) {
		return
	}
	rec := vlib.Open(t, "C18")
	i := 0
	for typ := 0; typ <= 255; typ++ {
		for l := 0; l <= 260; l++ {
			i++
			if !rec.Mine(i) {
				continue
			}
			if !vlib.Each(t, rec, c18NameCase{c18Name{Type: typ, Len: l, Seed: uint64(i)}, wire.DeliveryFor(uint64(i))}, c18NameRunA) {
				return
			}
		}
	}
	rec.SetExhaustive(true)
	rec.Extra("enumerated", "all 256 id types x label lengths 0..260; delivery pattern cycled through wire.DeliveryFor")
}

// ---------------------------------------------------------------------------
// Certificate (A)

type c18Cert struct {
	Version int       `json:"ver"`
	Type    int       `json:"type"`
	Issued  int64     `json:"iss"`
	Expires int64     `json:"exp"`
	Seed    uint64    `json:"seed"` // public key, parent, signature
	Names   []c18Name `json:"names"`
	// FillTo > 0: one more name is appended so that the serialized chunk has
	// exactly FillTo bytes (when a label length in 0..300 achieves that).
	FillTo int `json:"fill,omitempty"`
	// how the bytes are handed to the readers the second time (zero value: in one piece only)
	Dlv wire.Delivery `json:"dlv"`
}

// c18CertRedeliver decodes in again under the delivery pattern d; whole is what
// Certificate.ReadFrom made of the bytes in one piece. Besides the wire fields
// the data computed while reading (fingerprint, retained raw bytes) must agree.
func c18CertRedeliver(v *vlib.Verdict, in []byte, sentinel bool, d wire.Delivery, accepted bool, consumed int, whole *Certificate) {
	wire.Redeliver(v, "C18", "certs.Certificate", in, sentinel, d, accepted, consumed, func(st *wire.Stream) (string, string, error) {
		again := new(Certificate)
		if _, err := again.ReadFrom(st); err != nil {
			return "", "", err
		}
		if f, d := c18CertDiff(whole, again); f != "" {
			return f, d, nil
		}
		if again.Fingerprint != whole.Fingerprint {
			return "Fingerprint", fmt.Sprintf("%x instead of %x", again.Fingerprint[:8], whole.Fingerprint[:8]), nil
		}
		if !bytes.Equal(again.raw.Bytes(), whole.raw.Bytes()) {
			return "raw", fmt.Sprintf("%d retained bytes instead of %d", again.raw.Len(), whole.raw.Len()), nil
		}
		return "", "", nil
	})
}

func (c c18Cert) names() []Name {
	var out []Name
	total := 2
	for _, n := range c.Names {
		out = append(out, n.value())
		total += 3 + n.Len
	}
	if c.FillTo > 0 {
		l := c.FillTo - total - 3
		if l >= 0 && l <= 300 {
			out = append(out, Name{Type: IDType(c.Seed % 4), Label: vlib.Fill(c.Seed+7, l)})
		}
	}
	return out
}

func (c c18Cert) value() *Certificate {
	cert := &Certificate{
		Version:   byte(c.Version),
		Type:      CertificateType(c.Type),
		IssuedAt:  time.Unix(c.Issued, 0),
		ExpiresAt: time.Unix(c.Expires, 0),
	}
	copy(cert.PublicKey[:], vlib.Fill(c.Seed+1, KeyLen))
	copy(cert.Parent[:], vlib.Fill(c.Seed+2, SHA3Len))
	copy(cert.Signature[:], vlib.Fill(c.Seed+3, SignatureLen))
	cert.IDChunk.Blocks = c.names()
	return cert
}

// c18CertDiff compares the wire fields of two certificates ("" = equal).
func c18CertDiff(a, b *Certificate) (field, detail string) {
	switch {
	case a.Version != b.Version:
		return "Version", fmt.Sprintf("%d vs %d", a.Version, b.Version)
	case a.Type != b.Type:
		return "Type", fmt.Sprintf("%d vs %d", a.Type, b.Type)
	case a.IssuedAt.Unix() != b.IssuedAt.Unix():
		return "IssuedAt", fmt.Sprintf("%d vs %d", a.IssuedAt.Unix(), b.IssuedAt.Unix())
	case a.ExpiresAt.Unix() != b.ExpiresAt.Unix():
		return "ExpiresAt", fmt.Sprintf("%d vs %d", a.ExpiresAt.Unix(), b.ExpiresAt.Unix())
	case a.PublicKey != b.PublicKey:
		return "PublicKey", "differs"
	case a.Parent != b.Parent:
		return "Parent", "differs"
	case a.Signature != b.Signature:
		return "Signature", "differs"
	case len(a.IDChunk.Blocks) != len(b.IDChunk.Blocks):
		return "IDChunk", fmt.Sprintf("%d names vs %d names", len(a.IDChunk.Blocks), len(b.IDChunk.Blocks))
	}
	for i := range a.IDChunk.Blocks {
		if d := c18NameDiff(a.IDChunk.Blocks[i], b.IDChunk.Blocks[i]); d != "" {
			field := "IDChunk"
			if d == "IsZero" {
				field = "IDChunk:" + d
			}
			return field, fmt.Sprintf("name %d: %s vs %s", i, c18NameStr(a.IDChunk.Blocks[i]), c18NameStr(b.IDChunk.Blocks[i]))
		}
	}
	return "", ""
}

// c18ChunkFits reports whether the names fit the format; if not, codec names
// the encoder that had to refuse (certs.Name for an over-long label, else
// certs.IDChunk).
func c18ChunkFits(names []Name) (fits bool, chunkLen int, why, codec string) {
	chunkLen = 2
	fits = true
	for _, n := range names {
		chunkLen += 3 + len(n.Label)
		if len(n.Label) > c18MaxLabel {
			fits = false
			why = fmt.Sprintf("a %d-byte label (maximum %d)", len(n.Label), c18MaxLabel)
			codec = "certs.Name"
		}
	}
	if chunkLen > c18MaxChunk {
		fits = false
		if why == "" {
			why = fmt.Sprintf("a %d-byte id chunk (maximum %d)", chunkLen, c18MaxChunk)
			codec = "certs.IDChunk"
		}
	}
	return
}

// c18MarshalOwnMemory: Marshal is documented to write the serialisation "to
// newly-allocated memory" and callers treat the result as theirs (copy it into
// packets, PEM-encode it, patch it in negative tests). parsed came from ReadFrom,
// want is what WriteTo makes of it. Marshal must give want; after the caller
// overwrote every byte of the result, the certificate's retained raw bytes (the
// bytes its signature is checked against) and fingerprint must be untouched
// and a second Marshal must give want again.
func c18MarshalOwnMemory(v *vlib.Verdict, parsed *Certificate, want []byte) bool {
	raw0 := append([]byte(nil), parsed.raw.Bytes()...)
	fp0 := parsed.Fingerprint
	var m1, m2 []byte
	var e1, e2 error
	if vlib.Guard(v, func() { m1, e1 = parsed.Marshal() }) {
		return false
	}
	if e1 != nil || !bytes.Equal(m1, want) {
		v.Failf("C18:roundtrip-mismatch:certs.Certificate:Marshal", "Marshal of a parsed certificate (err=%v, %d bytes) differs from its WriteTo (%d bytes)", e1, len(m1), len(want))
		return false
	}
	for i := range m1 {
		m1[i] ^= 0xA5
	}
	if full := m1[:cap(m1)]; len(full) > len(m1) { // spare capacity belongs to the caller too (append)
		for i := len(m1); i < len(full); i++ {
			full[i] ^= 0xA5
		}
	}
	if !bytes.Equal(parsed.raw.Bytes(), raw0) {
		v.Failf("C18:marshal-result-shares-memory:certs.Certificate:retained-raw", "overwriting the %d bytes Marshal returned changed the certificate's retained raw bytes (the bytes VerifyParent checks the signature against)", len(m1))
		return false
	}
	if parsed.Fingerprint != fp0 {
		v.Failf("C18:marshal-result-shares-memory:certs.Certificate:Fingerprint", "overwriting the bytes Marshal returned changed the certificate's fingerprint")
		return false
	}
	if vlib.Guard(v, func() { m2, e2 = parsed.Marshal() }) {
		return false
	}
	if e2 != nil || !bytes.Equal(m2, want) {
		v.Failf("C18:marshal-result-shares-memory:certs.Certificate:second-Marshal", "after the caller overwrote the first Marshal result a second Marshal (err=%v, %d bytes) no longer gives the certificate's serialisation", e2, len(m2))
		return false
	}
	return true
}

// c18ModifiedAfterParse: a value that was parsed and then changed is a value
// like any other: its encoding must decode to the CHANGED value (a serialisation
// kept from parse time must not be handed out for a struct that no longer has
// those contents). sel selects the fields changed (bit 0 version, 1 type, 2
// IssuedAt, 3 ExpiresAt, 4 public key, 5 parent, 6 names, 7 signature); every
// change stays inside the format. Returns false after a violation.
func c18ModifiedAfterParse(v *vlib.Verdict, enc []byte, sel int, seed uint64) bool {
	p := new(Certificate)
	var err error
	if vlib.Guard(v, func() { _, err = p.ReadFrom(bytes.NewReader(enc)) }) {
		return false
	}
	if err != nil {
		return true // judged elsewhere
	}
	bump := func(t time.Time) time.Time {
		if u := t.Unix(); u < 1<<62 {
			return time.Unix(u+1, 0)
		}
		return time.Unix(t.Unix()-1, 0)
	}
	var changed []string
	if sel&1 != 0 {
		p.Version++
		changed = append(changed, "Version")
	}
	if sel&2 != 0 {
		p.Type++
		changed = append(changed, "Type")
	}
	if sel&4 != 0 {
		p.IssuedAt = bump(p.IssuedAt)
		changed = append(changed, "IssuedAt")
	}
	if sel&8 != 0 {
		p.ExpiresAt = bump(p.ExpiresAt)
		changed = append(changed, "ExpiresAt")
	}
	if sel&16 != 0 {
		p.PublicKey[seed%KeyLen] ^= 1
		changed = append(changed, "PublicKey")
	}
	if sel&32 != 0 {
		p.Parent[seed%SHA3Len] ^= 0x80
		changed = append(changed, "Parent")
	}
	if sel&64 != 0 {
		if n := len(p.IDChunk.Blocks); n > 0 {
			p.IDChunk.Blocks = append([]Name(nil), p.IDChunk.Blocks[:n-1]...)
		} else {
			p.IDChunk.Blocks = []Name{{Type: IDType(seed % 4), Label: vlib.Fill(seed+11, int(seed%5))}}
		}
		changed = append(changed, "IDChunk")
	}
	if sel&128 != 0 {
		p.Signature[seed%SignatureLen] ^= 1
		changed = append(changed, "Signature")
	}
	if len(changed) == 0 {
		return true
	}
	var mb []byte
	if vlib.Guard(v, func() { mb, err = p.Marshal() }) {
		return false
	}
	if err != nil {
		v.Failf("C18:encode-rejects-representable:certs.Certificate:modified-after-parse", "Marshal rejects a parsed certificate after changing %v: %v", changed, err)
		return false
	}
	back := new(Certificate)
	if vlib.Guard(v, func() { _, err = back.ReadFrom(bytes.NewReader(mb)) }) {
		return false
	}
	if err != nil {
		v.Failf("C18:decode-rejects-own-encoding:certs.Certificate:modified-after-parse", "changed %v after parsing; Marshal's %d bytes are rejected: %v", changed, len(mb), err)
		return false
	}
	if f, d := c18CertDiff(p, back); f != "" {
		v.Failf("C18:roundtrip-mismatch:certs.Certificate:modified-after-parse:"+f, "a parsed certificate had %v changed; Marshal + ReadFrom gives back another value, first differing field %s (%s)", changed, f, d)
		return false
	}
	return true
}

func c18KnownCertType(t int) bool { return t >= 1 && t <= 3 }

func c18CertRunA(c c18Cert, v *vlib.Verdict) {
	cert := c.value()
	names := cert.IDChunk.Blocks
	fits, chunkLen, why, codec := c18ChunkFits(names)
	limit := wire.AtLimit(chunkLen)
	for _, n := range names {
		if wire.AtLimit(len(n.Label)) {
			limit = true
		}
	}
	unknownEnum := !c18KnownCertType(c.Type)
	for _, n := range names {
		if !c18KnownIDType(int(n.Type)) {
			unknownEnum = true
		}
	}
	v.NonTrivial = limit || unknownEnum
	if unknownEnum {
		v.Label("unknown-enum")
	}
	switch {
	case chunkLen < 510:
		v.Label("chunk<510")
	case chunkLen <= 512:
		v.Label("chunk=510..512")
	case chunkLen <= 514:
		v.Label("chunk=513..514")
	default:
		v.Label("chunk>514")
	}
	v.Labelf("names=%d", len(names))
	var buf bytes.Buffer
	var err error
	if vlib.Guard(v, func() { _, err = cert.WriteTo(&buf) }) {
		return
	}
	if err != nil {
		v.Label("encoder-rejected")
		if fits {
			v.Failf("C18:encode-rejects-representable:certs.Certificate", "Certificate.WriteTo rejects a certificate with %d names / chunk %d bytes: %v", len(names), chunkLen, err)
		}
		return
	}
	enc := append([]byte(nil), buf.Bytes()...)
	st := &wire.Stream{Data: enc, Sentinel: true, MaxSentinel: 1 << 20}
	got := new(Certificate)
	var derr error
	if vlib.Guard(v, func() { _, derr = got.ReadFrom(st) }) {
		return
	}
	field, detail := "", ""
	if derr == nil {
		field, detail = c18CertDiff(cert, got)
	}
	if derr != nil || field != "" || st.Consumed != len(enc) {
		what := fmt.Sprintf("ReadFrom err=%v, first differing field %q (%s), consumed %d of %d bytes", derr, field, detail, st.Consumed, len(enc))
		switch {
		case !fits:
			v.Failf("C18:encode-accepted-misframed:"+codec, "Certificate.WriteTo accepted %s: %s", why, what)
		case derr != nil:
			v.Failf("C18:decode-rejects-own-encoding:certs.Certificate", "%s", what)
		case field != "":
			v.Failf("C18:roundtrip-mismatch:certs.Certificate:"+field, "%s", what)
		default:
			v.Failf("C18:consumed-length:certs.Certificate", "%s", what)
		}
		return
	}
	if c18CertRedeliver(v, enc, true, c.Dlv, true, len(enc), got); !v.OK() {
		return
	}
	if !fits {
		v.Label("beyond-assumed-limit-but-round-trips")
		return
	}
	// Marshal must agree with WriteTo
	var mb []byte
	var merr error
	if vlib.Guard(v, func() { mb, merr = cert.Marshal() }) {
		return
	}
	if merr != nil || !bytes.Equal(mb, enc) {
		v.Failf("C18:roundtrip-mismatch:certs.Certificate:Marshal", "Marshal (err=%v, %d bytes) differs from WriteTo (%d bytes)", merr, len(mb), len(enc))
		return
	}
	// the parsed certificate: Marshal hands out memory of its own, and follows a later change of the value
	if !c18MarshalOwnMemory(v, got, enc) {
		return
	}
	if !c18ModifiedAfterParse(v, enc, int(c.Seed>>16&0xff), c.Seed) {
		return
	}
	// PEM wrappers
	var pemBytes []byte
	var perr error
	if vlib.Guard(v, func() { pemBytes, perr = EncodeCertificateToPEM(cert) }) {
		return
	}
	if perr != nil {
		v.Failf("C18:encode-rejects-representable:certs.CertificatePEM", "EncodeCertificateToPEM fails where WriteTo succeeds: %v", perr)
		return
	}
	var fromPEM *Certificate
	var many []Certificate
	var rerr, manyErr error
	if vlib.Guard(v, func() {
		fromPEM, rerr = ReadCertificatePEM(pemBytes)
		many, manyErr = ReadManyCertificatesPEM(bytes.NewReader(append(append([]byte(nil), pemBytes...), pemBytes...)))
	}) {
		return
	}
	if rerr != nil {
		v.Failf("C18:decode-rejects-own-encoding:certs.CertificatePEM", "ReadCertificatePEM: %v", rerr)
		return
	}
	if f, d := c18CertDiff(cert, fromPEM); f != "" {
		v.Failf("C18:roundtrip-mismatch:certs.CertificatePEM:"+f, "%s", d)
		return
	}
	if manyErr != nil || len(many) != 2 {
		v.Failf("C18:decode-rejects-own-encoding:certs.ReadManyCertificatesPEM", "two concatenated PEM certificates read as %d certificates, err=%v", len(many), manyErr)
		return
	}
	for i := range many {
		if f, d := c18CertDiff(cert, &many[i]); f != "" {
			v.Failf("C18:roundtrip-mismatch:certs.ReadManyCertificatesPEM:"+f, "certificate %d: %s", i, d)
			return
		}
	}
	// the PEM stream reader under the delivery pattern (it reads to the end of the stream)
	two := append(append([]byte(nil), pemBytes...), pemBytes...)
	wire.Redeliver(v, "C18", "certs.ReadManyCertificatesPEM", two, false, c.Dlv, true, len(two), func(st *wire.Stream) (string, string, error) {
		again, err := ReadManyCertificatesPEM(st)
		if err != nil {
			return "", "", err
		}
		if len(again) != len(many) {
			return "count", fmt.Sprintf("%d certificates instead of %d", len(again), len(many)), nil
		}
		for i := range again {
			if f, d := c18CertDiff(&many[i], &again[i]); f != "" {
				return f, fmt.Sprintf("certificate %d: %s", i, d), nil
			}
		}
		return "", "", nil
	})
}

var c18Times = []int64{0, 1, 1<<31 - 1, 1 << 31, 1<<32 - 1, 1 << 32, 1700000000, 253402300799, 253402300800, 1<<62 - 1, 1 << 62}

func c18TimeGen(t *rapid.T, label string) int64 {
	if rapid.Bool().Draw(t, label+"-edge") {
		return rapid.SampledFrom(c18Times).Draw(t, label)
	}
	return rapid.Int64Range(0, 1<<62).Draw(t, label+"-any")
}

func c18NamesGen(t *rapid.T) ([]c18Name, int) {
	ng := rapid.Custom(func(t *rapid.T) c18Name {
		var l int
		switch rapid.IntRange(0, 11).Draw(t, "lk") {
		case 0, 1, 2:
			l = rapid.SampledFrom([]int{0, 1, 2, 100, 124, 125, 126, 127, 250, 251, 252, 252, 252, 253, 253, 254, 255, 256, 257}).Draw(t, "ledge")
		case 3, 4, 5, 6:
			l = rapid.IntRange(0, 40).Draw(t, "lsmall")
		case 7, 8, 9, 10:
			l = rapid.IntRange(0, 252).Draw(t, "lok")
		default:
			l = wire.DrawLen(t, "l", 66000)
		}
		typ := rapid.IntRange(0, 255).Draw(t, "type")
		if rapid.Bool().Draw(t, "known") {
			typ %= 4
		}
		return c18Name{Type: typ, Len: l, Seed: rapid.Uint64().Draw(t, "seed")}
	})
	names := rapid.SliceOfN(ng, 0, 5).Draw(t, "names")
	fill := 0
	if rapid.Bool().Draw(t, "fill") {
		fill = rapid.SampledFrom([]int{5, 255, 256, 257, 258, 259, 509, 510, 511, 512, 513, 514, 515, 520}).Draw(t, "fillto")
	}
	return names, fill
}

func c18CertGen(t *rapid.T) c18Cert {
	c := c18Cert{
		Version: rapid.IntRange(0, 255).Draw(t, "ver"),
		Type:    rapid.IntRange(0, 255).Draw(t, "type"),
		Issued:  c18TimeGen(t, "iss"),
		Expires: c18TimeGen(t, "exp"),
		Seed:    rapid.Uint64().Draw(t, "seed"),
		Dlv:     wire.DrawDelivery(t),
	}
	if rapid.Bool().Draw(t, "knowntype") {
		c.Type = 1 + c.Type%3
		c.Version = 1
	}
	c.Names, c.FillTo = c18NamesGen(t)
	return c
}

func TestVerifC18CertEncDec(t *testing.T) {
	vlib.Drive(t, vlib.Spec[c18Cert]{ID: "C18", Quick: 16000, Gen: c18CertGen, Run: c18CertRunA})
}

// ---------------------------------------------------------------------------
// Certificate (B): mutated encodings

// c18HandEncode builds the encoding of a certificate by hand (independent of
// WriteTo) and returns the offsets of its length fields. Only called for values
// that fit the format.
func c18HandEncode(cert *Certificate) (enc []byte, fields []wire.Field) {
	fields = append(fields, wire.Field{Off: 1, Width: 1}, wire.Field{Off: 2, Width: 2}) // certificate type, reserved
	enc = append(enc, cert.Version, byte(cert.Type), 0, 0)
	enc = binary.BigEndian.AppendUint64(enc, uint64(cert.IssuedAt.Unix()))
	enc = binary.BigEndian.AppendUint64(enc, uint64(cert.ExpiresAt.Unix()))
	enc = append(enc, cert.PublicKey[:]...)
	enc = append(enc, cert.Parent[:]...)
	chunk := 2
	for _, n := range cert.IDChunk.Blocks {
		chunk += 3 + len(n.Label)
	}
	fields = append(fields, wire.Field{Off: len(enc), Width: 2})
	enc = binary.BigEndian.AppendUint16(enc, uint16(chunk))
	for _, n := range cert.IDChunk.Blocks {
		fields = append(fields, wire.Field{Off: len(enc), Width: 1}, wire.Field{Off: len(enc) + 2, Width: 1}, wire.Field{Off: len(enc) + 1, Width: 1})
		enc = append(enc, byte(3+len(n.Label)), byte(n.Type), byte(len(n.Label)))
		enc = append(enc, n.Label...)
	}
	enc = append(enc, cert.Signature[:]...)
	return
}

type c18CertB struct {
	Base c18Cert    `json:"base"`
	Muts []wire.Mut `json:"muts"`
}

// c18FitNames clamps generated names into the representable range so that the
// base encoding is valid.
func c18FitNames(c *c18Cert) {
	total := 2
	var keep []c18Name
	for _, n := range c.Names {
		if n.Len > c18MaxLabel {
			n.Len = c18MaxLabel
		}
		if total+3+n.Len > c18MaxChunk {
			break
		}
		total += 3 + n.Len
		keep = append(keep, n)
	}
	c.Names = keep
	if c.FillTo > c18MaxChunk {
		c.FillTo = c18MaxChunk
	}
	if c.FillTo > 0 && c.FillTo-total-3 > c18MaxLabel {
		c.FillTo = 0
	}
}

func c18CertRunB(c c18CertB, v *vlib.Verdict) {
	base := c.Base
	c18FitNames(&base)
	cert := base.value()
	enc, fields := c18HandEncode(cert)
	in := wire.Mutate(enc, fields, c.Muts, 0)
	if len(c.Muts) == 0 {
		c18CertBytesB(in, cert, c.Base.Dlv, v)
	} else {
		c18CertBytesB(in, nil, c.Base.Dlv, v)
	}
}

// c18CertBytesB is the decode -> encode -> decode oracle on raw bytes. valid,
// when not nil, is the value the bytes were built from by hand (unmutated).
// dlv: the delivery pattern under which the bytes are decoded once more.
func c18CertBytesB(in []byte, valid *Certificate, dlv wire.Delivery, v *vlib.Verdict) {
	st := &wire.Stream{Data: in}
	val := new(Certificate)
	var err error
	if vlib.Guard(v, func() { _, err = val.ReadFrom(st) }) {
		return
	}
	if c18CertRedeliver(v, in, false, dlv, err == nil, st.Consumed, val); !v.OK() {
		return
	}
	if cert := valid; cert != nil {
		// harness self-check: the hand-built encoding of a representable value must be what the decoder understands
		if err != nil {
			v.Failf("C18:decode-rejects-valid-encoding:certs.Certificate", "ReadFrom rejects a hand-built valid encoding (%d names): %v", len(cert.IDChunk.Blocks), err)
			return
		}
		if f, d := c18CertDiff(cert, val); f != "" {
			v.Failf("C18:roundtrip-mismatch:certs.Certificate:"+f, "hand-built valid encoding decodes differently: %s", d)
			return
		}
	}
	if err != nil {
		v.Label("decoder-rejected")
		return
	}
	v.Label("decoder-accepted")
	var buf bytes.Buffer
	var werr error
	if vlib.Guard(v, func() { _, werr = val.WriteTo(&buf) }) {
		return
	}
	if werr != nil {
		v.Label("re-encode-rejected")
		v.NonTrivial = true
		return
	}
	re := append([]byte(nil), buf.Bytes()...)
	if st.Consumed > len(in) || !bytes.Equal(re, in[:st.Consumed]) {
		v.NonTrivial = true
		v.Label("accepted-non-canonical")
	} else {
		v.Label("accepted-canonical")
	}
	if !c18MarshalOwnMemory(v, val, re) {
		return
	}
	val2 := new(Certificate)
	var err2 error
	if vlib.Guard(v, func() { _, err2 = val2.ReadFrom(&wire.Stream{Data: re}) }) {
		return
	}
	if err2 != nil {
		v.Failf("C18:redecode-fails:certs.Certificate", "ReadFrom accepted %d bytes (%d names); the re-encoding (%d bytes) is rejected: %v", len(in), len(val.IDChunk.Blocks), len(re), err2)
		return
	}
	if f, d := c18CertDiff(val, val2); f != "" {
		v.Failf("C18:reencode-changes-value:certs.Certificate:"+f, "decode(encode(decode(b))) differs from decode(b): %s", d)
	}
}

func TestVerifC18CertDecEncDec(t *testing.T) {
	vlib.Drive(t, vlib.Spec[c18CertB]{ID: "C18", Quick: 16000, Run: c18CertRunB, Gen: func(t *rapid.T) c18CertB {
		c := c18CertB{Base: c18CertGen(t)}
		if rapid.Bool().Draw(t, "trailing") {
			// trailing bytes first: field offsets stay valid, and a decoder that now stops early or reads on still finds bytes
			c.Muts = append(c.Muts, wire.Mut{Op: 2, A: rapid.Uint64().Draw(t, "tseed"), B: rapid.SampledFrom([]int{1, 2, 64, 300}).Draw(t, "tn")})
		}
		if rapid.IntRange(0, 2).Draw(t, "aimed") == 0 {
			// edits that ReadFrom is known to tolerate (field order of c18HandEncode): non-zero reserved bytes, a chunk
			// length one short, a block size larger than its label needs
			aim := rapid.SampledFrom([][2]int{{1, 3}, {1, 5}, {2, 2}, {3, 3}, {3, 4}, {6, 3}}).Draw(t, "aim")
			c.Muts = append(c.Muts, wire.Mut{Op: 0, A: uint64(aim[0]), B: aim[1]})
		}
		c.Muts = append(c.Muts, wire.GenMuts(t, 0, 3)...)
		return c
	}})
}

// FuzzVerifC18Certificate: native fuzzing of the decode -> encode -> decode
// oracle (only does work when VERIF_FUZZ is set; thorough tier).
func FuzzVerifC18Certificate(f *testing.F) {
	if os.Getenv("VERIF_FUZZ") == "" {
		f.Skip("native fuzzing runs in the thorough tier only")
	}
	for _, c := range []c18Cert{{Version: 1, Type: 1, Issued: 1, Expires: 2}, {Version: 1, Type: 3, Issued: 1700000000, Expires: 1800000000, Seed: 5, Names: []c18Name{{Type: 1, Len: 11, Seed: 1}, {Type: 0, Len: 252, Seed: 2}}}} {
		enc, _ := c18HandEncode(c.value())
		f.Add(enc)
	}
	f.Fuzz(func(t *testing.T, in []byte) {
		var v vlib.Verdict
		c18CertBytesB(in, nil, wire.DeliveryFor(wire.Hash64(in)), &v)
		for _, vi := range v.Violations {
			if !vlib.KnownOpen(vi.Sig) {
				t.Fatalf("VERIF-VIOLATION sig=%s detail=%s", vi.Sig, vi.Detail)
			}
		}
	})
}
