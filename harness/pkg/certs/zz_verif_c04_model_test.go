package certs

// C04 — certificate forger and validity model.
//
// The forger builds certificates from pure-data specs (c04Cert): arbitrary type,
// parent link, signer key, validity window and names.  It serialises with the
// real Certificate.WriteTo and signs the bytes before the signature with
// crypto/ed25519 exactly as certs/issue.go does, so a consistently specified
// chain is byte-for-byte what the issuing functions produce (self-tested in
// c04SelfTest).  It keeps ground truth about every certificate it made; the
// model below is evaluated on that ground truth only (never on fields parsed by
// the code under test).
//
// The model is written from the C04 property statement:
//
//   VerifyLeaf succeeds  <=>  leaf is of leaf type
//                          /\ (no name requested \/ leaf carries the requested (type,label))
//                          /\ an intermediate-type certificate whose fingerprint the leaf names is
//                             presented or stored, and its key signed the leaf
//                          /\ a root-type certificate whose fingerprint that intermediate names is in
//                             the store, and its key signed the intermediate
//                          /\ IssuedAt <= now < ExpiresAt for all three.

import (
	"bytes"
	"crypto/ed25519"
	"crypto/sha3"
	"errors"
	"fmt"
	"time"

	"verif.local/vlib"
)

// c04T0 is the reference instant validity windows are placed around.
const c04T0 = int64(1_700_000_000)

// c04Pool is the pool of names certificates and queries draw from: same label
// with different types, case variants, empty labels, a one-byte label, a prefix,
// a trailing dot, long near-twins, an unknown name type.
var c04Pool = []Name{
	0:  {Type: TypeDNSName, Label: []byte("a.example")},
	1:  {Type: TypeRaw, Label: []byte("a.example")},
	2:  {Type: TypeDNSName, Label: []byte("A.example")},
	3:  {Type: TypeRaw, Label: []byte{}},
	4:  {Type: TypeDNSName, Label: []byte{}},
	5:  {Type: TypeDNSName, Label: []byte("b.example")},
	6:  {Type: TypeIPv4Address, Label: []byte{10, 0, 0, 1}},
	7:  {Type: TypeDNSName, Label: []byte("a.example.")},
	8:  {Type: TypeDNSName, Label: []byte("a.exampl")},
	9:  {Type: TypeDNSName, Label: bytes.Repeat([]byte("x"), 100)},
	10: {Type: TypeDNSName, Label: append(bytes.Repeat([]byte("x"), 99), 'y')},
	11: {Type: IDType(0x7f), Label: []byte("a.example")},
	12: {Type: TypeRaw, Label: []byte{0}},
	13: {Type: TypeIPv6Address, Label: []byte("a.example")},
}

// Requested-name codes besides pool indices.
const (
	c04NameNone     = -1 // zero Name: no name requested
	c04NameNilTyped = -2 // Name{Label: nil, Type: DNS}: nil label but not the zero Name
)

// c04ReqName builds the Name value of a query.
func c04ReqName(code int) Name {
	switch {
	case code == c04NameNone:
		return Name{}
	case code == c04NameNilTyped:
		return Name{Label: nil, Type: TypeDNSName}
	default:
		p := c04Pool[code]
		return Name{Type: p.Type, Label: append(make([]byte, 0, len(p.Label)), p.Label...)}
	}
}

// c04Cert is the pure-data specification of one forged certificate.
type c04Cert struct {
	Type   int      `json:"type"`            // certificate type byte (1 leaf, 2 intermediate, 3 root, others unknown)
	Key    int      `json:"key"`             // index of the key pair whose public half goes into the certificate
	Parent int      `json:"parent"`          // index of an EARLIER certificate whose fingerprint is named; -1 zero; -2 junk
	Signer int      `json:"signer"`          // index of the key pair that signs; -1 leaves the signature zero
	BadSig int      `json:"badsig"`          // 0: keep; n>0: flip bit (n-1)%512 of the signature
	Iss    int64    `json:"iss"`             // IssuedAt, unix seconds
	Exp    int64    `json:"exp"`             // ExpiresAt, unix seconds
	Names  []int    `json:"names"`           // indices into c04Pool
	Stale  *c04Cert `json:"stale,omitempty"` // if set: the signature is computed over THIS body (fields changed after signing)
}

const (
	c04ParentZero = -1
	c04ParentJunk = -2
)

// c04Obj is a forged certificate together with its ground truth.
type c04Obj struct {
	idx      int
	spec     c04Cert
	raw      []byte
	fp       [32]byte // SHA3-256 of raw, computed here with crypto/sha3
	parentFP [32]byte
	sigKey   int // index of the key pair under which the signature verifies by construction; -1 none
	obj      *Certificate
	own      *Certificate // separately parsed copy (what a peer would send)
	modOf    int          // >= 0: made by a "modify" step from certificate modOf (c04Mod); -1 forged
	modSame  bool         // the modification left the serialised content unchanged
}

// c04World is one forest.
type c04World struct {
	keySeed uint64
	keys    map[int]ed25519.PrivateKey
	objs    []*c04Obj
	byFP    map[[32]byte]*c04Obj
	sigMemo map[[2]int]bool
}

var errC04Spec = errors.New("malformed case specification")

func (w *c04World) key(i int) ed25519.PrivateKey {
	if k, ok := w.keys[i]; ok {
		return k
	}
	k := ed25519.NewKeyFromSeed(vlib.Fill(w.keySeed*1315423911+uint64(i+7)*2654435761, ed25519.SeedSize))
	w.keys[i] = k
	return k
}

func (w *c04World) pub(i int) []byte { return w.key(i).Public().(ed25519.PublicKey) }

// body serialises the specified certificate with a zero signature using the real
// WriteTo and returns the whole serialisation and the parent fingerprint used.
func (w *c04World) body(s *c04Cert, idx int) ([]byte, [32]byte, error) {
	var pfp [32]byte
	switch {
	case s.Parent >= 0:
		if s.Parent >= idx || s.Parent >= len(w.objs) {
			return nil, pfp, errC04Spec
		}
		pfp = w.objs[s.Parent].fp
	case s.Parent == c04ParentJunk:
		copy(pfp[:], vlib.Fill(w.keySeed^0x5bd1e995+uint64(idx), 32))
	case s.Parent == c04ParentZero:
	default:
		return nil, pfp, errC04Spec
	}
	if s.Iss < 0 || s.Exp < 0 || s.Type < 0 || s.Type > 255 {
		return nil, pfp, errC04Spec
	}
	c := Certificate{
		Version:   Version,
		Type:      CertificateType(s.Type),
		IssuedAt:  time.Unix(s.Iss, 0),
		ExpiresAt: time.Unix(s.Exp, 0),
		Parent:    pfp,
	}
	copy(c.PublicKey[:], w.pub(s.Key))
	for _, n := range s.Names {
		if n < 0 || n >= len(c04Pool) {
			return nil, pfp, errC04Spec
		}
		p := c04Pool[n]
		c.IDChunk.Blocks = append(c.IDChunk.Blocks, Name{Type: p.Type, Label: append(make([]byte, 0, len(p.Label)), p.Label...)})
	}
	var buf bytes.Buffer
	if _, err := c.WriteTo(&buf); err != nil {
		return nil, pfp, fmt.Errorf("WriteTo: %w", err)
	}
	return buf.Bytes(), pfp, nil
}

// forge builds certificate number idx from its specification.
func (w *c04World) forge(s c04Cert, idx int) (*c04Obj, error) {
	raw, pfp, err := w.body(&s, idx)
	if err != nil {
		return nil, err
	}
	tbsLen := len(raw) - SignatureLen
	o := &c04Obj{idx: idx, spec: s, parentFP: pfp, sigKey: -1, modOf: -1}
	if s.Signer >= 0 {
		signed := raw[:tbsLen]
		o.sigKey = s.Signer
		if s.Stale != nil {
			st := *s.Stale
			st.Stale = nil
			sraw, _, err := w.body(&st, idx)
			if err != nil {
				return nil, err
			}
			signed = sraw[:len(sraw)-SignatureLen]
			if !bytes.Equal(signed, raw[:tbsLen]) {
				o.sigKey = -1
			}
		}
		sig := ed25519.Sign(w.key(s.Signer), signed)
		copy(raw[tbsLen:], sig)
		if s.BadSig > 0 {
			b := (s.BadSig - 1) % (SignatureLen * 8)
			raw[tbsLen+b/8] ^= 1 << (b % 8)
			o.sigKey = -1
		}
	}
	o.raw = raw
	o.fp = sha3.Sum256(raw)
	o.obj, err = c04Parse(raw)
	if err != nil {
		return nil, fmt.Errorf("forged certificate %d does not parse: %w", idx, err)
	}
	return o, nil
}

// c04Parse reads a certificate the way callers do (fresh value, ReadFrom) and
// insists on full consumption.
func c04Parse(raw []byte) (*Certificate, error) {
	c := new(Certificate)
	n, err := c.ReadFrom(bytes.NewReader(raw))
	if err != nil {
		return nil, err
	}
	if int(n) != len(raw) {
		return nil, fmt.Errorf("parsed %d of %d bytes", n, len(raw))
	}
	return c, nil
}

// c04ParseLoose parses mutated bytes: ok is false if ReadFrom reports an error.
func c04ParseLoose(raw []byte) (c *Certificate, full bool, ok bool) {
	c = new(Certificate)
	n, err := c.ReadFrom(bytes.NewReader(raw))
	if err != nil {
		return nil, false, false
	}
	return c, int(n) == len(raw), true
}

func c04Build(keySeed uint64, specs []c04Cert) (*c04World, error) {
	w := &c04World{keySeed: keySeed, keys: map[int]ed25519.PrivateKey{}, byFP: map[[32]byte]*c04Obj{}, sigMemo: map[[2]int]bool{}}
	for i, s := range specs {
		o, err := w.forge(s, i)
		if err != nil {
			return nil, err
		}
		w.objs = append(w.objs, o)
		if _, dup := w.byFP[o.fp]; !dup {
			w.byFP[o.fp] = o
		}
	}
	return w, nil
}

func (w *c04World) ownCopy(i int) (*Certificate, error) {
	o := w.objs[i]
	if o.own == nil {
		c, err := c04Parse(o.raw)
		if err != nil {
			return nil, err
		}
		o.own = c
	}
	return o.own, nil
}

// c04Mod is one change made to the fields of a PARSED certificate object, which
// is then put back on the wire with Marshal and parsed again ("modify" step).
type c04Mod struct {
	Kind int   `json:"k"`
	Val  int64 `json:"v"`
}

const (
	c04ModSubSecond = iota // IssuedAt and ExpiresAt moved by Val ns (0 < Val < 1s): the wire carries whole seconds, content unchanged
	c04ModSameValue        // every field assigned the value it already has (other time zone, fresh slices): content unchanged
	c04ModType             // Type = Val
	c04ModIss              // IssuedAt += Val s
	c04ModExp              // ExpiresAt += Val s
	c04ModNameAdd          // one more name: pool[Val]
	c04ModNameDrop         // last name removed (none: nothing changes)
	c04ModNameSet          // first name replaced by pool[Val] (none: added)
	c04ModKey              // public key of key pair Val
	c04ModParent           // parent fingerprint of certificate Val (-1: zero)
	c04NModKinds
)

var c04ModNames = [c04NModKinds]string{"sub-second", "same-value", "type", "issued-at", "expires-at", "name-added", "name-dropped", "name-replaced", "public-key", "parent"}

// modified computes the ground truth of certificate src after change m - the
// body the forger serialises for the changed specification, followed by the
// signature src already carried (nobody re-signed) - and returns it together
// with the function that makes the same change on a parsed Certificate object.
// The signature is valid for the new content only if the body is byte-for-byte
// what was signed (decided with crypto/ed25519 on the forger's bytes).
func (w *c04World) modified(src *c04Obj, m c04Mod) (*c04Obj, func(*Certificate), error) {
	idx := len(w.objs)
	s := src.spec
	s.Names = append([]int(nil), src.spec.Names...)
	s.Stale = nil
	poolName := func(i int) Name {
		p := c04Pool[i]
		return Name{Type: p.Type, Label: append(make([]byte, 0, len(p.Label)), p.Label...)}
	}
	inPool := func(v int64) bool { return v >= 0 && v < int64(len(c04Pool)) }
	var apply func(c *Certificate)
	switch m.Kind {
	case c04ModSubSecond:
		if m.Val <= 0 || m.Val >= 1e9 {
			return nil, nil, errC04Spec
		}
		apply = func(c *Certificate) {
			c.IssuedAt = c.IssuedAt.Add(time.Duration(m.Val))
			c.ExpiresAt = c.ExpiresAt.Add(time.Duration(m.Val))
		}
	case c04ModSameValue:
		apply = func(c *Certificate) {
			c.Type = CertificateType(byte(c.Type))
			c.IssuedAt = time.Unix(c.IssuedAt.Unix(), 0).UTC()
			c.ExpiresAt = time.Unix(c.ExpiresAt.Unix(), 0).In(time.FixedZone("x", -7*3600))
			blocks := make([]Name, 0, len(c.IDChunk.Blocks))
			for _, b := range c.IDChunk.Blocks {
				blocks = append(blocks, Name{Type: b.Type, Label: append(make([]byte, 0, len(b.Label)), b.Label...)})
			}
			c.IDChunk.Blocks = blocks
			pk, pa := c.PublicKey, c.Parent
			c.PublicKey, c.Parent = pk, pa
		}
	case c04ModType:
		if m.Val < 0 || m.Val > 255 {
			return nil, nil, errC04Spec
		}
		s.Type = int(m.Val)
		apply = func(c *Certificate) { c.Type = CertificateType(m.Val) }
	case c04ModIss:
		s.Iss += m.Val
		if s.Iss < 0 {
			s.Iss = 0
		}
		iss := s.Iss
		apply = func(c *Certificate) { c.IssuedAt = time.Unix(iss, 0) }
	case c04ModExp:
		s.Exp += m.Val
		if s.Exp < 0 {
			s.Exp = 0
		}
		exp := s.Exp
		apply = func(c *Certificate) { c.ExpiresAt = time.Unix(exp, 0) }
	case c04ModNameAdd:
		if !inPool(m.Val) || len(s.Names) >= 6 {
			return nil, nil, errC04Spec
		}
		s.Names = append(s.Names, int(m.Val))
		apply = func(c *Certificate) { c.IDChunk.Blocks = append(c.IDChunk.Blocks, poolName(int(m.Val))) }
	case c04ModNameDrop:
		if n := len(s.Names); n > 0 {
			s.Names = s.Names[:n-1]
		}
		apply = func(c *Certificate) {
			if n := len(c.IDChunk.Blocks); n > 0 {
				c.IDChunk.Blocks = c.IDChunk.Blocks[:n-1]
			}
		}
	case c04ModNameSet:
		if !inPool(m.Val) {
			return nil, nil, errC04Spec
		}
		if len(s.Names) > 0 {
			s.Names[0] = int(m.Val)
		} else {
			s.Names = []int{int(m.Val)}
		}
		apply = func(c *Certificate) {
			if len(c.IDChunk.Blocks) > 0 {
				c.IDChunk.Blocks[0] = poolName(int(m.Val))
			} else {
				c.IDChunk.Blocks = []Name{poolName(int(m.Val))}
			}
		}
	case c04ModKey:
		if m.Val < 0 || m.Val > 64 {
			return nil, nil, errC04Spec
		}
		s.Key = int(m.Val)
		apply = func(c *Certificate) { copy(c.PublicKey[:], w.pub(int(m.Val))) }
	case c04ModParent:
		if m.Val < -1 || m.Val >= int64(len(w.objs)) {
			return nil, nil, errC04Spec
		}
		s.Parent = int(m.Val)
		var fp [32]byte
		if m.Val >= 0 {
			fp = w.objs[m.Val].fp
		}
		apply = func(c *Certificate) { c.Parent = fp }
	default:
		return nil, nil, errC04Spec
	}
	var raw []byte
	var pfp [32]byte
	if s.Parent == c04ParentJunk {
		// the junk fingerprint depends on the index: keep src's (the field is not touched by any other kind)
		s2 := s
		s2.Parent = c04ParentZero
		b, _, err := w.body(&s2, idx)
		if err != nil {
			return nil, nil, err
		}
		raw, pfp = b, src.parentFP
		copy(raw[52:84], pfp[:])
	} else {
		b, f, err := w.body(&s, idx)
		if err != nil {
			return nil, nil, err
		}
		raw, pfp = b, f
	}
	tbs := len(raw) - SignatureLen
	srcTbs := len(src.raw) - SignatureLen
	copy(raw[tbs:], src.raw[srcTbs:])
	o := &c04Obj{idx: idx, spec: s, raw: raw, fp: sha3.Sum256(raw), parentFP: pfp, sigKey: -1, modOf: src.idx}
	o.modSame = bytes.Equal(raw, src.raw)
	switch {
	case o.modSame:
		o.sigKey = src.sigKey
	case src.spec.Signer >= 0 && ed25519.Verify(ed25519.PublicKey(w.pub(src.spec.Signer)), raw[:tbs], raw[tbs:]):
		// the change restored exactly the body that had been signed (src was signed before a field was changed)
		o.sigKey = src.spec.Signer
	}
	return o, apply, nil
}

// c04MutOffsets lists the byte offsets a "bit-mutated copy" may be changed at
// without making it unparseable (everything with a fixed position except the
// sign bytes of the two timestamps; the name chunk is left alone).
func c04MutOffsets(rawLen int) []int {
	var out []int
	for i := 0; i < 4; i++ { // version, type, reserved
		out = append(out, i)
	}
	for i := 5; i < 12; i++ { // IssuedAt without its top byte
		out = append(out, i)
	}
	for i := 13; i < 20; i++ { // ExpiresAt without its top byte
		out = append(out, i)
	}
	for i := 20; i < 84; i++ { // public key, parent fingerprint
		out = append(out, i)
	}
	for i := rawLen - SignatureLen; i < rawLen; i++ {
		out = append(out, i)
	}
	return out
}

// mutatedCopy returns a parsed copy of certificate i with one bit changed.
func (w *c04World) mutatedCopy(i, mut int) (*Certificate, [32]byte, error) {
	raw := append([]byte(nil), w.objs[i].raw...)
	offs := c04MutOffsets(len(raw))
	b := (mut - 1) % (len(offs) * 8)
	raw[offs[b/8]] ^= 1 << (b % 8)
	c, err := c04Parse(raw)
	return c, sha3.Sum256(raw), err
}

// ---------------------------------------------------------------------------
// the model

// sigOK: does child's signature verify under parent's public key?  Decided by
// construction (who signed what) and cross-checked against crypto/ed25519 on the
// serialised bytes; a disagreement is a harness fault, reported through err.
func (w *c04World) sigOK(child, parent *c04Obj) (bool, error) {
	k := [2]int{child.idx, parent.idx}
	if r, ok := w.sigMemo[k]; ok {
		return r, nil
	}
	want := child.sigKey >= 0 && child.sigKey == parent.spec.Key
	tbsLen := len(child.raw) - SignatureLen
	got := ed25519.Verify(ed25519.PublicKey(w.pub(parent.spec.Key)), child.raw[:tbsLen], child.raw[tbsLen:])
	if got != want {
		return false, fmt.Errorf("forger ground truth (%v) disagrees with crypto/ed25519 (%v) for child %d under key of %d", want, got, child.idx, parent.idx)
	}
	w.sigMemo[k] = want
	return want, nil
}

func (o *c04Obj) validAt(sec int64) bool {
	// now = sec + nsec*1e-9 with 0 <= nsec < 1e9 and whole-second bounds:
	// IssuedAt <= now  <=>  Iss <= sec;  now < ExpiresAt  <=>  sec < Exp.
	return o.spec.Iss <= sec && sec < o.spec.Exp
}

func (o *c04Obj) hasName(n Name) bool {
	for _, i := range o.spec.Names {
		p := c04Pool[i]
		if p.Type == n.Type && string(p.Label) == string(n.Label) {
			return true
		}
	}
	return false
}

// Clause indices of the predicate, in the order of the property statement.
const (
	c04LeafType = iota
	c04NameOK
	c04LeafTime
	c04InterAvail // a certificate with the named fingerprint is presented or stored
	c04InterType
	c04InterTime
	c04LeafSig
	c04RootAvail // a certificate with the fingerprint the intermediate names is in the store
	c04RootType
	c04RootTime
	c04InterSig
	c04NClauses
)

var c04ClauseNames = [c04NClauses]string{"leaf-type", "name", "leaf-time", "intermediate-known", "intermediate-type", "intermediate-time",
	"leaf-signature", "root-in-store", "root-type", "root-time", "intermediate-signature"}

type c04Clauses [c04NClauses]bool

func (c c04Clauses) falseCount() (n int, first int) {
	first = -1
	for i, b := range c {
		if !b {
			if first < 0 {
				first = i
			}
			n++
		}
	}
	return
}

// valid is the predicate of the property statement.  pres is the ground truth of
// the presented intermediate (nil if none is presented or if the presented bytes
// are not those of any forged certificate — such a copy has a fingerprint no
// certificate names).  The clause vector is filled for classification: clauses
// about a certificate that is not available are evaluated on the forest's
// certificate of that fingerprint if there is one and are false otherwise.
func (w *c04World) valid(leaf, pres *c04Obj, store map[[32]byte]*c04Obj, name Name, sec int64) (bool, c04Clauses, error) {
	var cl c04Clauses
	cl[c04LeafType] = leaf.spec.Type == int(Leaf)
	cl[c04NameOK] = (name.Label == nil && name.Type == 0) || leaf.hasName(name)
	cl[c04LeafTime] = leaf.validAt(sec)

	var inter *c04Obj
	if pres != nil && pres.fp == leaf.parentFP {
		inter = pres
	} else if s, ok := store[leaf.parentFP]; ok {
		inter = s
	}
	cl[c04InterAvail] = inter != nil
	if inter == nil {
		inter = w.byFP[leaf.parentFP] // classification only
	}
	if inter != nil {
		cl[c04InterType] = inter.spec.Type == int(Intermediate)
		cl[c04InterTime] = inter.validAt(sec)
		ok, err := w.sigOK(leaf, inter)
		if err != nil {
			return false, cl, err
		}
		cl[c04LeafSig] = ok
		root, inStore := store[inter.parentFP]
		cl[c04RootAvail] = inStore
		if root == nil {
			root = w.byFP[inter.parentFP] // classification only
		}
		if root != nil {
			cl[c04RootType] = root.spec.Type == int(Root)
			cl[c04RootTime] = root.validAt(sec)
			ok, err := w.sigOK(inter, root)
			if err != nil {
				return false, cl, err
			}
			cl[c04InterSig] = ok
		}
	}
	n, _ := cl.falseCount()
	return n == 0, cl, nil
}

// parentPredicate is the predicate of VerifyParent: (must, may) — the call has
// to succeed when must holds and may only succeed when may holds.  For leaf and
// intermediate children the two coincide (type pairing, fingerprint link,
// signature).  For a root child the documentation only says "parent issued
// child"; the repository's own test requires a self-signed root to verify
// against itself, so must = root parent, zero parent fingerprint, valid
// signature, and may drops the zero-fingerprint requirement (the statement is
// silent on it).
func (w *c04World) parentPredicate(child, parent *c04Obj) (must, may bool, err error) {
	sig, err := w.sigOK(child, parent)
	if err != nil {
		return false, false, err
	}
	switch CertificateType(child.spec.Type) {
	case Leaf:
		p := parent.spec.Type == int(Intermediate) && child.parentFP == parent.fp && sig
		return p, p, nil
	case Intermediate:
		p := parent.spec.Type == int(Root) && child.parentFP == parent.fp && sig
		return p, p, nil
	case Root:
		may = parent.spec.Type == int(Root) && sig
		must = may && child.parentFP == [32]byte{}
		return must, may, nil
	}
	return false, false, nil
}
