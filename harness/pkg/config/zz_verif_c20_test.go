package config

// C20 — a client applies exactly the host blocks whose patterns match, in order.

import (
	"fmt"
	"testing"

	"pgregory.net/rapid"
	"verif.local/vlib"
	"verif.local/vlib/refglob"
)

type c20hCase struct {
	Blocks [][]string `json:"blocks"` // patterns per host block
	Host   string     `json:"host"`
}

func c20hRun(c c20hCase, v *vlib.Verdict) {
	cfg := ClientConfig{}
	cfg.Global.CAFiles = []string{"global"}
	var want []string
	want = append(want, "global")
	matching := 0
	for i, pats := range c.Blocks {
		tag := fmt.Sprintf("blk-%d", i)
		cfg.Hosts = append(cfg.Hosts, HostConfigOptional{Patterns: pats, CAFiles: []string{tag}})
		for _, p := range pats {
			if refglob.Match(p, c.Host) {
				want = append(want, tag)
				matching++
				break
			}
		}
	}
	var got []string
	if vlib.Guard(v, func() { got = cfg.MatchHost(c.Host).CAFiles }) {
		return
	}
	v.NonTrivial = len(c.Blocks) >= 2 && matching >= 1 && matching < len(c.Blocks)
	v.Labelf("blocks=%d", len(c.Blocks))
	v.Labelf("matching=%d", matching)
	if fmt.Sprint(got) != fmt.Sprint(want) {
		v.Failf("C20:matchhost-wrong-blocks", "MatchHost(%q) over %v merged %v, reference says %v", c.Host, c.Blocks, got, want)
	}
}

func c20hGen(t *rapid.T) c20hCase {
	pat := rapid.StringMatching(`[ab*]{0,5}|[ab]{1,3}\*|\*[ab]{1,3}|[ab]{0,2}\*[ab]{1,2}`)
	blocks := rapid.SliceOfN(rapid.SliceOfN(pat, 1, 3), 0, 6).Draw(t, "blocks")
	host := rapid.StringMatching(`[ab]{1,6}`).Draw(t, "host")
	return c20hCase{Blocks: blocks, Host: host}
}

func TestVerifC20MatchHost(t *testing.T) {
	vlib.Drive(t, vlib.Spec[c20hCase]{ID: "C20", Quick: 10000, Gen: c20hGen, Run: c20hRun})
}
