package config

// C20 — a client applies exactly the host blocks whose patterns match, in order.

import (
	"fmt"
	"io"
	"reflect"
	"strconv"
	"strings"
	"testing"
	"testing/fstest"

	"github.com/sirupsen/logrus"
	"pgregory.net/rapid"
	"verif.local/vlib"
	"verif.local/vlib/refglob"

	"hop.computer/hop/portforwarding"
)

type c20hCase struct {
	Blocks [][]string `json:"blocks"` // patterns per host block
	Host   string     `json:"host"`
}

func c20hRun(c c20hCase, v *vlib.Verdict) {
	cfg := ClientConfig{}
	cfg.Global.CAFiles = []string{"global"}
	var want []string
	want = append(want, "global")
	matching := 0
	for i, pats := range c.Blocks {
		tag := fmt.Sprintf("blk-%d", i)
		cfg.Hosts = append(cfg.Hosts, HostConfigOptional{Patterns: pats, CAFiles: []string{tag}})
		for _, p := range pats {
			if refglob.Match(p, c.Host) {
				want = append(want, tag)
				matching++
				break
			}
		}
	}
	var got []string
	if vlib.Guard(v, func() { got = cfg.MatchHost(c.Host).CAFiles }) {
		return
	}
	v.NonTrivial = len(c.Blocks) >= 2 && matching >= 1 && matching < len(c.Blocks)
	v.Labelf("blocks=%d", len(c.Blocks))
	v.Labelf("matching=%d", matching)
	c20hLabelShapes(c.Blocks, c.Host, v)
	if fmt.Sprint(got) != fmt.Sprint(want) {
		v.Failf("C20:matchhost-wrong-blocks", "MatchHost(%q) over %v merged %v, reference says %v", c.Host, c.Blocks, got, want)
	}
}

// c20hLabelShapes counts the degenerate block shapes: a block WITHOUT patterns (list nil or
// empty - what the TOML loader leaves for a [[Hosts]] table without a Patterns line resp. with
// "Patterns = []") matches no host at all, wherever it stands in the list and whatever the
// blocks around it do; a pattern that is the empty string matches the empty host only.
func c20hLabelShapes(blocks [][]string, host string, v *vlib.Verdict) {
	prevMatched := false
	for _, pats := range blocks {
		hit := false
		for _, p := range pats {
			if p == "" {
				v.Label("empty-string-pattern")
			}
			if refglob.Match(p, host) {
				hit = true
			}
		}
		if len(pats) == 0 {
			if pats == nil {
				v.Label("block-without-patterns:nil")
			} else {
				v.Label("block-without-patterns:empty-list")
			}
			if prevMatched {
				v.Label("block-without-patterns:after-a-matching-block")
			} else {
				v.Label("block-without-patterns:after-none-or-a-non-matching-block")
			}
		}
		prevMatched = hit
	}
	if host == "" {
		v.Label("empty-host")
	}
}

// c20Patterns draws the pattern list of one host block: usually 1..3 patterns, one time in
// five NO pattern (nil list or empty non-nil list), and the empty string is a pattern like any
// other (alone or among others).
func c20Patterns(t *rapid.T, tag string) []string {
	pat := rapid.StringMatching(`[ab*]{0,5}|[ab]{1,3}\*|\*[ab]{1,3}|[ab]{0,2}\*[ab]{1,2}`)
	switch rapid.IntRange(0, 9).Draw(t, tag+"-shape") {
	case 0:
		return nil
	case 1:
		return []string{}
	case 2:
		l := rapid.SliceOfN(pat, 0, 2).Draw(t, tag)
		at := rapid.IntRange(0, len(l)).Draw(t, tag+"-empty-at")
		return append(append(append([]string{}, l[:at]...), ""), l[at:]...)
	}
	return rapid.SliceOfN(pat, 1, 3).Draw(t, tag)
}

func c20hGen(t *rapid.T) c20hCase {
	n := rapid.IntRange(0, 6).Draw(t, "nblocks")
	blocks := make([][]string, 0, n)
	for i := 0; i < n; i++ {
		blocks = append(blocks, c20Patterns(t, fmt.Sprintf("blk%d", i)))
	}
	// the empty host now and then (Glob is total: only "" and runs of stars produce it)
	host := rapid.StringMatching(`[ab]{1,6}|[ab]{0,2}`).Draw(t, "host")
	return c20hCase{Blocks: blocks, Host: host}
}

func TestVerifC20MatchHost(t *testing.T) {
	vlib.Drive(t, vlib.Spec[c20hCase]{ID: "C20", Quick: 10000, Gen: c20hGen, Run: c20hRun})
}

// ---------------------------------------------------------------------------
// Sequences of lookups on ONE configuration object.
//
// "A client applies exactly the host blocks whose patterns match the requested
// host": the blocks applied are a function of the requested host and of the
// configuration, not of what was looked up before on the same object. A case is
// a configuration (Global + host blocks, each setting a generated subset of the
// options, built as a struct literal or rendered to TOML and parsed by the real
// loader) and a sequence of lookups; between lookups the caller may do with the
// returned block what flags.mergeClientFlagsAndConfig / mergeAddresses do
// (assign address fields, Cmd/UsePty/forwards, MergeWith a second lookup, Unwrap).
//
// Oracle, per lookup:
//   - the returned block equals the model merge (Global, then every block one of
//     whose patterns matches per the reference matcher, in order; MergeWith's
//     documented "non-default values overwrite, CAFiles accumulate");
//   - it equals the block returned by the same lookup on a freshly built copy of
//     the configuration (a second, model-free statement of the same thing);
//   - the configuration object renders exactly as a never-used copy, after the
//     lookup and after whatever the caller did to the returned block;
//   - a block handed out earlier and not touched by the caller still renders as
//     it did when it was returned.

type c20sBlock struct {
	Patterns     []string `json:"patterns,omitempty"`
	NoPatterns   int      `json:"nopatterns,omitempty"` // only when Patterns is empty: 0/1 = no Patterns key (nil list), 2 = "Patterns = []" (empty list)
	Hostname     string   `json:"hostname,omitempty"` // "" = not set
	User         string   `json:"user,omitempty"`
	Key          string   `json:"key,omitempty"`
	Cmd          string   `json:"cmd,omitempty"`
	Port         int      `json:"port,omitempty"` // 0 = not set
	CAFiles      []string `json:"cafiles,omitempty"`
	AutoSelfSign int      `json:"autoselfsign,omitempty"` // 0 not set, 1 false, 2 true
}

type c20sOp struct {
	Host  string `json:"host"`
	After int    `json:"after"` // what the caller does with the returned block (c20sAfter*)
}

const (
	c20sAfterNothing = iota
	c20sAfterAddress // flags.mergeAddresses: Hostname, Port, User assigned
	c20sAfterFlags   // flags.mergeClientFlagsAndConfig: Cmd, UsePty, forwards assigned
	c20sAfterMerge   // previous result .MergeWith(this result) (the default-config / user-config pattern)
	c20sAfterUnwrap  // Unwrap() only
	c20sAfterKinds
)

type c20sCase struct {
	Via    string      `json:"via"` // "literal" | "toml"
	Global c20sBlock   `json:"global"`
	Blocks []c20sBlock `json:"blocks"`
	Ops    []c20sOp    `json:"ops"`
}

func c20sPtr(s string) *string {
	if s == "" {
		return nil
	}
	return &s
}

func (b c20sBlock) literal() HostConfigOptional {
	h := HostConfigOptional{
		Hostname: c20sPtr(b.Hostname), User: c20sPtr(b.User), Key: c20sPtr(b.Key), Cmd: c20sPtr(b.Cmd), Port: b.Port,
	}
	if len(b.Patterns) > 0 {
		h.Patterns = append([]string(nil), b.Patterns...)
	} else if b.NoPatterns == 2 {
		h.Patterns = []string{}
	}
	if len(b.CAFiles) > 0 {
		h.CAFiles = append([]string(nil), b.CAFiles...)
	}
	if b.AutoSelfSign != 0 {
		x := b.AutoSelfSign == 2
		h.AutoSelfSign = &x
	}
	return h
}

func (b c20sBlock) toml(sb *strings.Builder) {
	list := func(name string, l []string) {
		if len(l) == 0 {
			return
		}
		q := make([]string, len(l))
		for i, s := range l {
			q[i] = strconv.Quote(s)
		}
		fmt.Fprintf(sb, "%s = [%s]\n", name, strings.Join(q, ", "))
	}
	str := func(name, s string) {
		if s != "" {
			fmt.Fprintf(sb, "%s = %s\n", name, strconv.Quote(s))
		}
	}
	list("Patterns", b.Patterns)
	if len(b.Patterns) == 0 && b.NoPatterns == 2 {
		sb.WriteString("Patterns = []\n")
	}
	str("Hostname", b.Hostname)
	str("User", b.User)
	str("Key", b.Key)
	str("Cmd", b.Cmd)
	if b.Port != 0 {
		fmt.Fprintf(sb, "Port = %d\n", b.Port)
	}
	list("CAFiles", b.CAFiles)
	if b.AutoSelfSign != 0 {
		fmt.Fprintf(sb, "AutoSelfSign = %v\n", b.AutoSelfSign == 2)
	}
}

// c20sBuild makes a new, independent configuration object from the case data.
func c20sBuild(c c20sCase) (*ClientConfig, error) {
	if c.Via != "toml" {
		cfg := &ClientConfig{Global: c.Global.literal()}
		for _, b := range c.Blocks {
			cfg.Hosts = append(cfg.Hosts, b.literal())
		}
		return cfg, nil
	}
	var sb strings.Builder
	sb.WriteString("[Global]\n")
	c.Global.toml(&sb)
	for _, b := range c.Blocks {
		sb.WriteString("\n[[Hosts]]\n")
		b.toml(&sb)
	}
	old := fileSystem
	defer func() { fileSystem = old }()
	fileSystem = fstest.MapFS{"verif/client.toml": &fstest.MapFile{Data: []byte(sb.String())}}
	return LoadClientConfigFromFile("verif/client.toml")
}

// c20sModel is the property: Global, then exactly the matching blocks, in order.
func c20sModel(c c20sCase, host string) (m c20sBlock, applied []int) {
	m = c.Global
	m.Patterns = nil
	m.CAFiles = append([]string(nil), c.Global.CAFiles...)
	for i, b := range c.Blocks {
		hit := false
		for _, p := range b.Patterns {
			if refglob.Match(p, host) {
				hit = true
				break
			}
		}
		if !hit {
			continue
		}
		applied = append(applied, i)
		if b.Hostname != "" {
			m.Hostname = b.Hostname
		}
		if b.User != "" {
			m.User = b.User
		}
		if b.Key != "" {
			m.Key = b.Key
		}
		if b.Cmd != "" {
			m.Cmd = b.Cmd
		}
		if b.Port != 0 {
			m.Port = b.Port
		}
		if b.AutoSelfSign != 0 {
			m.AutoSelfSign = b.AutoSelfSign
		}
		m.CAFiles = append(m.CAFiles, b.CAFiles...)
	}
	return m, applied
}

// c20sRender prints a value field by field, following pointers; a nil slice and
// an empty slice print alike (nothing in the property distinguishes them).
func c20sRender(x any) string {
	var sb strings.Builder
	var walk func(rv reflect.Value)
	walk = func(rv reflect.Value) {
		switch rv.Kind() {
		case reflect.Pointer, reflect.Interface:
			if rv.IsNil() {
				sb.WriteString("-")
				return
			}
			sb.WriteString("&")
			walk(rv.Elem())
		case reflect.Struct:
			sb.WriteString("{")
			for i := 0; i < rv.NumField(); i++ {
				f := rv.Field(i)
				if f.Kind() == reflect.Pointer || f.Kind() == reflect.Interface || f.Kind() == reflect.Slice {
					if f.IsNil() || (f.Kind() == reflect.Slice && f.Len() == 0) {
						continue // unset options are left out to keep messages readable
					}
				}
				fmt.Fprintf(&sb, "%s:", rv.Type().Field(i).Name)
				walk(f)
				sb.WriteString(" ")
			}
			sb.WriteString("}")
		case reflect.Slice, reflect.Array:
			sb.WriteString("[")
			for i := 0; i < rv.Len(); i++ {
				walk(rv.Index(i))
				sb.WriteString(",")
			}
			sb.WriteString("]")
		case reflect.String:
			sb.WriteString(strconv.Quote(rv.String()))
		default:
			fmt.Fprintf(&sb, "%v", rv)
		}
	}
	rv := reflect.ValueOf(x)
	for rv.Kind() == reflect.Pointer && !rv.IsNil() {
		rv = rv.Elem()
	}
	walk(rv)
	return sb.String()
}

func c20sRun(c c20sCase, v *vlib.Verdict) {
	logrus.SetOutput(io.Discard)
	pristine, err := c20sBuild(c)
	if err != nil {
		v.Discard = true
		v.Note = "configuration did not load: " + err.Error()
		return
	}
	cfg, _ := c20sBuild(c)
	wantCfg := c20sRender(pristine)
	if got := c20sRender(cfg); got != wantCfg {
		v.Inconclusive = "two builds of the same case differ: " + got + " / " + wantCfg
		return
	}
	type kept struct {
		i       int
		blk     *HostConfigOptional
		asGiven string
		touched bool
	}
	var handed []*kept
	appliedSets := map[string]bool{}
	settingApplied := false
	for i, op := range c.Ops {
		model, applied := c20sModel(c, op.Host)
		want := c20sRender(model.literal())
		appliedSets[fmt.Sprint(applied)] = true
		for _, bi := range applied {
			b := c.Blocks[bi]
			if b.Hostname != "" || b.User != "" || b.Key != "" || b.Cmd != "" || b.Port != 0 || len(b.CAFiles) > 0 || b.AutoSelfSign != 0 {
				settingApplied = true
			}
		}
		var got, single *HostConfigOptional
		if vlib.Guard(v, func() { got = cfg.MatchHost(op.Host) }) {
			return
		}
		fresh, _ := c20sBuild(c)
		if vlib.Guard(v, func() { single = fresh.MatchHost(op.Host) }) {
			return
		}
		gs, ss := c20sRender(got), c20sRender(single)
		switch {
		case ss != want:
			v.Failf("C20:matchhost-wrong-blocks", "MatchHost(%q) on a new configuration %s returned %s, model (blocks %v) says %s", op.Host, wantCfg, ss, applied, want)
			return
		case gs != want:
			v.Failf("C20:matchhost-result-depends-on-earlier-lookups", "lookup #%d MatchHost(%q) on a configuration that had answered %d lookups returned %s; a new copy of the same configuration returns %s (blocks %v match)", i, op.Host, i, gs, ss, applied)
			return
		}
		if now := c20sRender(cfg); now != wantCfg {
			v.Failf("C20:matchhost-modifies-configuration", "after lookup #%d MatchHost(%q) the configuration object reads %s, before the lookups it read %s", i, op.Host, now, wantCfg)
			return
		}
		k := &kept{i: i, blk: got, asGiven: gs}
		// the caller's use of the returned block
		vlib.Guard(v, func() {
			switch op.After {
			case c20sAfterAddress:
				h, u := "addr-"+op.Host, "user-"+op.Host
				got.Hostname, got.Port, got.User = &h, 7000+i, &u
				k.touched = true
			case c20sAfterFlags:
				cmd, pty := "cmd-"+op.Host, i%2 == 0
				got.Cmd, got.UsePty = &cmd, &pty
				got.LocalFwds, got.RemoteFwds = &portforwarding.Forward{}, nil
				k.touched = true
			case c20sAfterMerge:
				if len(handed) > 0 {
					p := handed[len(handed)-1]
					p.blk.MergeWith(got)
					p.touched = true
				}
			case c20sAfterUnwrap:
				_ = got.Unwrap()
			}
		})
		if !v.OK() {
			return
		}
		handed = append(handed, k)
		if now := c20sRender(cfg); now != wantCfg {
			v.Failf("C20:configuration-shares-state-with-returned-block", "after the caller used the block returned by lookup #%d (use kind %d) the configuration object reads %s, before it read %s", i, op.After, now, wantCfg)
			return
		}
		for _, p := range handed {
			if !p.touched && c20sRender(p.blk) != p.asGiven {
				v.Failf("C20:matchhost-result-changed-by-later-lookup", "the block returned by lookup #%d read %s when returned and reads %s after lookup #%d MatchHost(%q)", p.i, p.asGiven, c20sRender(p.blk), i, op.Host)
				return
			}
		}
	}
	v.NonTrivial = len(c.Ops) >= 2 && len(appliedSets) >= 2 && settingApplied
	v.Labelf("via=%s", c.Via)
	v.Labelf("lookups=%d", len(c.Ops))
	v.Labelf("distinct-applied-sets=%d", len(appliedSets))
	for i, b := range c.Blocks {
		if len(b.Patterns) == 0 {
			v.Labelf("block-without-patterns:%s", map[bool]string{false: "nil", true: "empty-list"}[b.NoPatterns == 2])
			if i > 0 {
				v.Label("block-without-patterns:not-first")
			}
		}
	}
}

func c20sGen(t *rapid.T) c20sCase {
	block := func(tag string, global bool) c20sBlock {
		var b c20sBlock
		if !global {
			b.Patterns = c20Patterns(t, tag+"-patterns")
			if len(b.Patterns) == 0 {
				b.NoPatterns = 1
				if b.Patterns != nil {
					b.NoPatterns = 2
				}
				b.Patterns = nil
			}
		}
		set := 0 // one bit per option
		for j, on := range rapid.SliceOfN(rapid.Bool(), 7, 7).Draw(t, tag+"-set") {
			if on {
				set |= 1 << j
			}
		}
		if set&1 != 0 {
			b.Hostname = tag + ".host"
		}
		if set&2 != 0 {
			b.User = tag + "-user"
		}
		if set&4 != 0 {
			b.Key = "/keys/" + tag + ".pem"
		}
		if set&8 != 0 {
			b.Cmd = "run-" + tag
		}
		if set&16 != 0 {
			b.Port = rapid.IntRange(1, 65535).Draw(t, tag+"-port")
		}
		if set&32 != 0 {
			n := rapid.IntRange(1, 2).Draw(t, tag+"-ncas")
			for j := 0; j < n; j++ {
				b.CAFiles = append(b.CAFiles, fmt.Sprintf("/ca/%s-%d.pem", tag, j))
			}
		}
		if set&64 != 0 {
			b.AutoSelfSign = rapid.IntRange(1, 2).Draw(t, tag+"-autoselfsign")
		}
		return b
	}
	c := c20sCase{Via: rapid.SampledFrom([]string{"literal", "toml"}).Draw(t, "via")}
	c.Global = block("global", true)
	nb := rapid.SampledFrom([]int{0, 1, 2, 2, 3, 3, 4, 5}).Draw(t, "nblocks")
	for i := 0; i < nb; i++ {
		c.Blocks = append(c.Blocks, block(fmt.Sprintf("blk%d", i), false))
	}
	host := rapid.StringMatching(`[ab]{1,6}|[ab]{0,2}`)
	nops := rapid.SampledFrom([]int{1, 2, 2, 3, 3, 4, 5, 6}).Draw(t, "nops")
	for i := 0; i < nops; i++ {
		op := c20sOp{After: rapid.SampledFrom([]int{c20sAfterNothing, c20sAfterNothing, c20sAfterAddress, c20sAfterFlags, c20sAfterMerge, c20sAfterUnwrap}).Draw(t, "after")}
		// a host asked before comes back now and then (a block matched twice piles up its CAFiles if state leaks)
		if i > 0 && rapid.IntRange(0, 3).Draw(t, "again") == 0 {
			op.Host = c.Ops[rapid.IntRange(0, i-1).Draw(t, "which")].Host
		} else {
			op.Host = host.Draw(t, "host")
		}
		c.Ops = append(c.Ops, op)
	}
	return c
}

func TestVerifC20MatchHostSequences(t *testing.T) {
	vlib.Drive(t, vlib.Spec[c20sCase]{ID: "C20", Quick: 10000, Gen: c20sGen, Run: c20sRun})
}
