//go:build go1.25

package codex

// C11 (decoder half) — the client-side reader of the execution tube: whatever
// bytes the server writes as its status answer, getStatus returns without
// panicking and without allocating out of proportion to the bytes received.
// getStatus demands a *tubes.Reliable, so the bytes travel over a real muxer
// pair on vlib/memconn inside a synctest bubble. The muxers' goroutines
// allocate while the call runs (read buffers, frames), hence the coarser
// allowance of 8 MiB + 16 x len(input). The delivery pattern of a case
// (wire.Delivery) decides whether the answer is there before getStatus starts
// (one write) or reaches the blocked reader in several writes, each delivered
// and read before the next is made.

import (
	"encoding/binary"
	"fmt"
	"io"
	"runtime"
	"sync"
	"testing"
	"time"

	"github.com/sirupsen/logrus"
	"pgregory.net/rapid"
	"verif.local/vlib"
	"verif.local/vlib/memconn"
	"verif.local/vlib/wire"

	"hop.computer/hop/common"
	"hop.computer/hop/tubes"
)

type c11sCase struct {
	First   int    `json:"first"`   // first byte (status)
	LenKind int    `json:"lenkind"` // how the 4 length bytes are chosen
	Body    int    `json:"body"`    // bytes of message actually sent
	Cut     int    `json:"cut"`     // >=0: whole input truncated to this many bytes
	Seed    uint64 `json:"seed"`
	Dlv     wire.Delivery `json:"dlv"` // Pieces(len, 24) = separate writes (zero value: one write, there before the reader starts)
}

var c11sLens = []uint32{0, 1, 0xFF, 0x100, 0xFFFF, 0x10000, 0x10001, 0xFFFFFF, 0x2000000, 0x3FFFFFF}

func (c c11sCase) input() []byte {
	in := []byte{byte(c.First)}
	var l uint32
	if c.LenKind < 0 {
		l = uint32(c.Body)
	} else {
		l = c11sLens[c.LenKind%len(c11sLens)]
	}
	// the 4-byte length field is written both ways round so that either interpretation of it is exercised
	if c.Seed%2 == 0 {
		in = binary.BigEndian.AppendUint32(in, l)
	} else {
		in = append(in, byte(l>>8), byte(l), byte(l>>24), byte(l>>16))
	}
	in = append(in, vlib.Fill(c.Seed, c.Body)...)
	if c.Cut >= 0 && c.Cut < len(in) {
		in = in[:c.Cut]
	}
	return in
}

var c11sQuietOnce sync.Once
var c11sLog *logrus.Entry

func c11sQuiet() *logrus.Entry {
	c11sQuietOnce.Do(func() {
		logrus.SetOutput(io.Discard)
		logrus.SetLevel(logrus.PanicLevel)
		l := logrus.New()
		l.SetOutput(io.Discard)
		l.SetLevel(logrus.PanicLevel)
		c11sLog = logrus.NewEntry(l)
	})
	return c11sLog
}

func c11sRun(t *testing.T) func(c c11sCase, v *vlib.Verdict) {
	return func(c c11sCase, v *vlib.Verdict) {
		in := c.input()
		pieces := c.Dlv.Pieces(len(in), 24)
		v.Labelf("delivery=%s", map[bool]string{true: "one-write", false: "several-writes"}[len(pieces) == 1])
		var alloc uint64
		returned := false
		problem := ""
		res := vlib.Bubble(t, 60*time.Second, func() {
			n := memconn.New(memconn.Params{}, memconn.Params{}, 8192)
			cfg := &tubes.Config{Timeout: 0, Log: c11sQuiet()}
			ma, mb := tubes.Client(n.A, cfg), tubes.Server(n.B, cfg)
			done := make(chan struct{})
			go func() {
				defer close(done)
				ta, err := ma.CreateReliableTube(common.ExecTube)
				if err != nil {
					problem = "create: " + err.Error()
					return
				}
				acc, err := mb.Accept()
				if err != nil {
					problem = "accept: " + err.Error()
					return
				}
				tb := acc.(*tubes.Reliable)
				go func() {
					left := in
					if len(pieces) > 1 {
						time.Sleep(600 * time.Millisecond) // the reader is blocked in Read by now
						for _, n := range pieces[:len(pieces)-1] {
							tb.Write(left[:n])
							left = left[n:]
							time.Sleep(5 * time.Millisecond) // virtual: elapses once the piece was delivered and read
						}
					}
					if len(left) > 0 {
						tb.Write(left)
					}
					time.Sleep(time.Second)
					tb.Close()
				}()
				time.Sleep(500 * time.Millisecond) // let the bytes arrive first, so the measurement covers the reader
				var m0, m1 runtime.MemStats
				runtime.ReadMemStats(&m0)
				vlib.Guard(v, func() { getStatus(ta); returned = true })
				runtime.ReadMemStats(&m1)
				alloc = m1.TotalAlloc - m0.TotalAlloc
				ta.Close()
			}()
			select {
			case <-done:
			case <-time.After(2 * time.Minute):
				problem = "did not finish within 2 virtual minutes"
			}
			sd := make(chan struct{}, 2)
			go func() { ma.Stop(); sd <- struct{}{} }()
			go func() { mb.Stop(); sd <- struct{}{} }()
			tm := time.NewTimer(time.Minute)
			defer tm.Stop()
			for i := 0; i < 2; i++ {
				select {
				case <-sd:
				case <-tm.C:
					return
				}
			}
			time.Sleep(time.Minute)
		})
		v.NonTrivial = c.LenKind >= 0 || c.Cut >= 0
		v.Label(fmt.Sprintf("first=%d", min(c.First, 3)))
		if !v.OK() {
			return
		}
		if res.Hung {
			v.Inconclusive = "bubble hung in real time (C11 getStatus)"
			return
		}
		if problem != "" {
			if !returned {
				v.Failf("C11:blocks-on-closed-stream:codex.getStatus", "getStatus did not return within 2 virtual minutes after the peer wrote %d bytes and closed the tube", len(in))
				return
			}
			v.Inconclusive = "tube fixture: " + problem
			return
		}
		if budget := uint64(8<<20 + 16*len(in)); alloc > budget {
			v.Failf("C11:alloc-out-of-proportion:codex.getStatus", "%d input bytes made getStatus allocate %d bytes (bound %d)", len(in), alloc, budget)
		}
	}
}

func TestVerifC11DecGetStatus(t *testing.T) {
	vlib.Drive(t, vlib.Spec[c11sCase]{ID: "C11", Quick: 1500, Run: c11sRun(t), Gen: func(t *rapid.T) c11sCase {
		c := c11sCase{Seed: rapid.Uint64().Draw(t, "seed"), Cut: -1, LenKind: -1, Dlv: wire.DrawDelivery(t)}
		c.First = rapid.SampledFrom([]int{0, 1, 2, 3, 255}).Draw(t, "first")
		c.Body = rapid.SampledFrom([]int{0, 1, 10, 300, 70000}).Draw(t, "body")
		if rapid.IntRange(0, 3).Draw(t, "lk") > 0 {
			c.LenKind = rapid.IntRange(0, len(c11sLens)-1).Draw(t, "lenkind")
		}
		if rapid.IntRange(0, 3).Draw(t, "cut") == 0 {
			c.Cut = rapid.IntRange(0, 8).Draw(t, "cutat")
		}
		return c
	}})
}
