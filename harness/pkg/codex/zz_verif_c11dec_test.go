package codex

// C11 (decoder half) — whatever bytes arrive on an execution or window-size
// tube, GetCmd / readSize return a value or an error without panicking, give up
// at end-of-stream, and allocate memory in proportion to the bytes received
// (<= 256 KiB + 16 x input length).
//
// HandleSize needs a *tubes.Reliable and a pty file; its reader, readSize, is
// exercised directly.
//
// Every input is handed to the decoder twice: in one piece, and delivered
// according to a generated pattern (wire.Delivery: one byte at a time, drawn
// chunk sizes, (0, nil) results, end-of-stream reported with the last bytes);
// the same oracles hold under every delivery. Enumerations derive the pattern
// from the input bytes (wire.DeliveryFor).

import (
	"encoding/binary"
	"testing"

	"github.com/creack/pty"
	"pgregory.net/rapid"
	"verif.local/vlib"
	"verif.local/vlib/wire"
)

// A 32-bit length field is limited to 32 MiB in these tests (c11dBoundLens).
// GetCmd allocates whatever the field says, twice, and copies both buffers into
// strings: the literal 0xFFFFFFFF of the design costs 16 GiB per call and gets
// the test processes OOM-killed, while 1 MiB or 32 MiB show the same unbounded
// allocation (the allowance for such an input is about 256 KiB).
// c11dBoundLens limits the two 32-bit length fields as GetCmd will see them
// (the second is located after the first was limited; GetCmd reuses its 4-byte
// length buffer, so a truncated second field inherits limited bytes of the
// first). level 0: < 4 KiB (never out of proportion by itself), 1: < 1 MiB
// (already four times the allowance of a small input, and cheap), 2: < 32 MiB.
func c11dBoundLens(in []byte, level int) []byte {
	masks := [][3]byte{{0x00, 0x00, 0x0F}, {0x00, 0x0F, 0xFF}, {0x01, 0xFF, 0xFF}}[level]
	bound := func(pos int) uint32 {
		var l [4]byte
		for k := 0; k < 3; k++ {
			if pos+k < len(in) {
				in[pos+k] &= masks[k]
			}
		}
		if pos < len(in) {
			copy(l[:], in[pos:])
		}
		return binary.BigEndian.Uint32(l[:])
	}
	cmdLen := bound(1)
	if pos := 5 + int(cmdLen); pos <= len(in) {
		bound(pos)
	}
	return in
}

type c11dExec struct {
	Base c18Exec    `json:"base"`
	Raw  int        `json:"raw"` // >= 0: input is Fill(seed, Raw) instead of a mutated valid request
	Flag int        `json:"flag"`
	Big  int        `json:"big"` // length fields stay below 4 KiB (0), 1 MiB (1), 32 MiB (2)
	Muts []wire.Mut `json:"muts"`
}

func (c c11dExec) input() []byte {
	if c.Raw >= 0 {
		in := vlib.Fill(c.Base.CmdSeed, c.Raw)
		if len(in) > 0 {
			in[0] = byte(c.Flag)
		}
		return c11dBoundLens(in, c.Big)
	}
	cmd, term := c.Base.strings()
	enc, fields := c18HandEncodeExec(byte(c.Flag), cmd, term, c.Base.Size.value())
	return c11dBoundLens(wire.Mutate(enc, fields, c.Muts, 0), c.Big)
}

// c11dExecShape classifies the input by how its length fields relate to its size.
func c11dExecShape(in []byte) string {
	if len(in) < 5 {
		return "shorter-than-header"
	}
	cl := int(binary.BigEndian.Uint32(in[1:]))
	if 5+cl+4 > len(in) {
		return "cmd-length-beyond-input"
	}
	tl := int(binary.BigEndian.Uint32(in[5+cl:]))
	need := 9 + cl + tl
	if in[0]&hasSizeFlag != 0 {
		need += 8
	}
	switch {
	case need > len(in):
		return "term-length-or-size-beyond-input"
	case need < len(in):
		return "trailing-bytes"
	}
	return "consistent"
}

func c11dExecRun(c c11dExec, v *vlib.Verdict) {
	in := c.input()
	shape := c11dExecShape(in)
	v.Label(shape)
	v.NonTrivial = shape != "consistent"
	if len(in) >= 5 && binary.BigEndian.Uint32(in[1:]) >= 1<<20 {
		v.Label("cmd-length>=1MiB")
	}
	var err error
	wire.DecoderCallBoth(v, "codex.GetCmd", in, c.Base.Dlv, func(st *wire.Stream) { _, _, _, _, err = GetCmd(&wire.Conn{Stream: st}) })
	if v.OK() {
		v.Label(map[bool]string{true: "returned-value", false: "returned-error"}[err == nil])
	}
}

func c11dExecGen(t *rapid.T) c11dExec {
	c := c11dExec{Raw: -1, Flag: rapid.IntRange(0, 255).Draw(t, "flag"), Big: rapid.SampledFrom([]int{0, 0, 0, 0, 0, 0, 0, 0, 0, 0, 0, 0, 0, 1, 1, 2}).Draw(t, "big")}
	if rapid.IntRange(0, 3).Draw(t, "raw") == 0 {
		c.Raw = rapid.SampledFrom([]int{0, 1, 2, 4, 5, 6, 8, 9, 10, 13, 17, 64, 300}).Draw(t, "rawlen")
		c.Base.CmdSeed = rapid.Uint64().Draw(t, "seed")
		c.Base.Dlv = wire.DrawDelivery(t)
		return c
	}
	c.Base = c18ExecGen(t)
	if c.Base.CmdLen > 2000 {
		c.Base.CmdLen %= 2000
	}
	if c.Base.TermLen > 2000 {
		c.Base.TermLen %= 2000
	}
	c.Muts = wire.GenMuts(t, 0, 3)
	return c
}

func TestVerifC11DecGetCmd(t *testing.T) {
	vlib.Drive(t, vlib.Spec[c11dExec]{ID: "C11", Quick: 12000, Gen: c11dExecGen, Run: c11dExecRun})
}

// every truncation and every (length field, value class) of a few valid requests
type c11dExecSweep struct {
	Base  int `json:"base"`
	Field int `json:"field"` // -1: none
	Class int `json:"class"`
	Cut   int `json:"cut"` // -1: none
}

var c11dExecBases = []c18Exec{
	{},
	{UsePty: true, CmdLen: 3, CmdSeed: 1, TermLen: 5, TermSeed: 2, Size: &c18Size{24, 80, 0, 0}},
	{UsePty: false, CmdLen: 0, TermLen: 0, Size: &c18Size{1, 2, 3, 4}},
	{UsePty: true, CmdLen: 300, CmdSeed: 3, TermLen: 14, TermSeed: 4},
}

func c11dExecSweepRun(c c11dExecSweep, v *vlib.Verdict) {
	b := c11dExecBases[c.Base]
	cmd, term := b.strings()
	var flags byte
	if b.UsePty {
		flags |= usePtyFlag
	}
	if b.Size != nil {
		flags |= hasSizeFlag
	}
	enc, fields := c18HandEncodeExec(flags, cmd, term, b.Size.value())
	var muts []wire.Mut
	if c.Field >= 0 {
		muts = append(muts, wire.Mut{Op: 0, A: uint64(c.Field), B: c.Class})
	}
	if c.Cut >= 0 {
		muts = append(muts, wire.Mut{Op: 1, A: uint64(c.Cut)})
	}
	level := 0
	if c.Field >= 1 && c.Class >= 5 {
		level = 1
		if c.Class == 6 && c.Cut%64 == 0 {
			level = 2
		}
	}
	in := c11dBoundLens(wire.Mutate(enc, fields, muts, 0), level)
	shape := c11dExecShape(in)
	v.Label(shape)
	v.NonTrivial = shape != "consistent"
	wire.DecoderCallBoth(v, "codex.GetCmd", in, wire.DeliveryFor(wire.Hash64(in)), func(st *wire.Stream) { GetCmd(&wire.Conn{Stream: st}) })
}

func TestVerifC11DecGetCmdSweep(t *testing.T) {
	if vlib.ReplayEnumerated(t, "C11", c11dExecSweepRun) {
		return
	}
	rec := vlib.Open(t, "C11")
	i := 0
	for bi, b := range c11dExecBases {
		total := 9 + b.CmdLen + b.TermLen
		if b.Size != nil {
			total += 8
		}
		for field := -1; field < 3; field++ {
			classes := []int{0}
			if field >= 0 {
				classes = []int{0, 1, 2, 3, 4, 5, 6}
			}
			for _, class := range classes {
				for cut := -1; cut <= total; cut++ {
					i++
					if !rec.Mine(i) {
						continue
					}
					if !vlib.Each(t, rec, c11dExecSweep{bi, field, class, cut}, c11dExecSweepRun) {
						return
					}
				}
			}
		}
	}
	rec.SetExhaustive(true)
	rec.Extra("enumerated", "4 valid requests x {no edit, each of flag/cmd-length/term-length set to 0,1,actual-1,actual+1,0xFF,0xFFFF,huge} x every truncation")
}

// window-size reader: every input length 0..24
type c11dSize struct {
	Len  int    `json:"len"`
	Seed uint64 `json:"seed"`
}

func c11dSizeRun(c c11dSize, v *vlib.Verdict) {
	in := vlib.Fill(c.Seed, c.Len)
	v.NonTrivial = c.Len%8 != 0
	v.Labelf("len%%8=%d", c.Len%8)
	var sz *pty.Winsize
	var err error
	wire.DecoderCallBoth(v, "codex.readSize", in, wire.DeliveryFor(c.Seed), func(st *wire.Stream) {
		// as HandleSize does: keep reading sizes until the reader reports an error
		for k := 0; k < 100; k++ {
			if sz, err = readSize(st); err != nil {
				return
			}
		}
	})
	if v.OK() && err == nil {
		v.Failf("C11:no-progress-after-eof:codex.readSize", "readSize still reports success after %d input bytes were consumed 100 times over (last %v)", c.Len, sz)
	}
}

func TestVerifC11DecReadSize(t *testing.T) {
	if vlib.ReplayEnumerated(t, "C11", c11dSizeRun) {
		return
	}
	rec := vlib.Open(t, "C11")
	i := 0
	for l := 0; l <= 24; l++ {
		for s := uint64(0); s < 8; s++ {
			i++
			if !rec.Mine(i) {
				continue
			}
			if !vlib.Each(t, rec, c11dSize{l, s}, c11dSizeRun) {
				return
			}
		}
	}
	rec.SetExhaustive(true)
	rec.Extra("enumerated", "window-size streams of every length 0..24 (8 fillings each)")
}
