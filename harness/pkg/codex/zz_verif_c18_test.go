package codex

// C18 — execution requests (execInitMsg.ToBytes / GetCmd) and window sizes
// (serializeSize / readSize) round-trip. Every decode is repeated with the same
// bytes delivered in pieces (wire.Delivery: short reads, (0, nil) results,
// end-of-stream reported with the last bytes) and must give the same result.

import (
	"bytes"
	"encoding/binary"
	"fmt"
	"io"
	"os"
	"testing"

	"github.com/creack/pty"
	"github.com/sirupsen/logrus"
	"pgregory.net/rapid"
	"verif.local/vlib"
	"verif.local/vlib/wire"
)

func init() { logrus.SetOutput(io.Discard) }

type c18Size struct {
	Rows, Cols, X, Y int
}

type c18Exec struct {
	UsePty   bool      `json:"pty"`
	CmdLen   int       `json:"clen"`
	CmdSeed  uint64    `json:"cseed"`
	TermLen  int       `json:"tlen"`
	TermSeed uint64    `json:"tseed"`
	Size     *c18Size  `json:"size"`
	Binary   bool      `json:"bin"` // arbitrary bytes instead of printable text
	// how the bytes are handed to GetCmd the second time (zero value: in one piece only)
	Dlv wire.Delivery `json:"dlv"`
}

// c18ExecRedeliver: GetCmd on the same bytes under the delivery pattern d.
func c18ExecRedeliver(v *vlib.Verdict, in []byte, sentinel bool, d wire.Delivery, accepted bool, consumed int, cmd, term string, usePty bool, size *pty.Winsize) {
	wire.Redeliver(v, "C18", "codex.GetCmd", in, sentinel, d, accepted, consumed, func(st *wire.Stream) (string, string, error) {
		aCmd, aTerm, aPty, aSize, err := GetCmd(&wire.Conn{Stream: st})
		switch {
		case err != nil:
			return "", "", err
		case aCmd != cmd:
			return "cmd", fmt.Sprintf("%d bytes %.40q instead of %d bytes %.40q", len(aCmd), aCmd, len(cmd), cmd), nil
		case aTerm != term:
			return "term", fmt.Sprintf("%d bytes %.40q instead of %d bytes %.40q", len(aTerm), aTerm, len(term), term), nil
		case aPty != usePty:
			return "usePty", fmt.Sprintf("%v instead of %v", aPty, usePty), nil
		case !c18SizeEq(aSize, size):
			return "size", fmt.Sprintf("%s instead of %s", c18SizeStr(aSize), c18SizeStr(size)), nil
		}
		return "", "", nil
	})
}

func (c c18Exec) strings() (cmd, term string) {
	if c.Binary {
		return string(vlib.Fill(c.CmdSeed, c.CmdLen)), string(vlib.Fill(c.TermSeed, c.TermLen))
	}
	return wire.Text(c.CmdSeed, c.CmdLen), wire.Text(c.TermSeed, c.TermLen)
}

func (s *c18Size) value() *pty.Winsize {
	if s == nil {
		return nil
	}
	return &pty.Winsize{Rows: uint16(s.Rows), Cols: uint16(s.Cols), X: uint16(s.X), Y: uint16(s.Y)}
}

func c18SizeEq(a, b *pty.Winsize) bool {
	if a == nil || b == nil {
		return a == nil && b == nil
	}
	return *a == *b
}

func c18SizeStr(s *pty.Winsize) string {
	if s == nil {
		return "nil"
	}
	return fmt.Sprintf("%+v", *s)
}

func c18ExecRunA(c c18Exec, v *vlib.Verdict) {
	cmd, term := c.strings()
	size := c.Size.value()
	v.NonTrivial = wire.AtLimit(len(cmd)) || wire.AtLimit(len(term))
	v.Labelf("pty=%v,size=%v", c.UsePty, size != nil)
	if len(cmd) >= 65535 || len(term) >= 65535 {
		v.Label("field>=65535")
	}
	if len(cmd) == 0 {
		v.Label("cmd-empty")
	}
	var enc []byte
	if vlib.Guard(v, func() { enc = newExecInitMsg(c.UsePty, cmd, term, size).ToBytes() }) {
		return
	}
	st := &wire.Stream{Data: enc, Sentinel: true, MaxSentinel: 1 << 20}
	var gCmd, gTerm string
	var gPty bool
	var gSize *pty.Winsize
	var derr error
	if vlib.Guard(v, func() { gCmd, gTerm, gPty, gSize, derr = GetCmd(&wire.Conn{Stream: st}) }) {
		return
	}
	switch {
	case derr != nil:
		v.Failf("C18:decode-rejects-own-encoding:codex.execInitMsg", "GetCmd: %v", derr)
	case gCmd != cmd:
		v.Failf("C18:roundtrip-mismatch:codex.execInitMsg:cmd", "%d-byte command decodes as %d bytes %.40q", len(cmd), len(gCmd), gCmd)
	case gTerm != term:
		v.Failf("C18:roundtrip-mismatch:codex.execInitMsg:term", "%d-byte TERM decodes as %d bytes %.40q", len(term), len(gTerm), gTerm)
	case gPty != c.UsePty:
		v.Failf("C18:roundtrip-mismatch:codex.execInitMsg:usePty", "usePty %v decodes as %v", c.UsePty, gPty)
	case !c18SizeEq(gSize, size):
		v.Failf("C18:roundtrip-mismatch:codex.execInitMsg:size", "size %s decodes as %s", c18SizeStr(size), c18SizeStr(gSize))
	case st.Consumed != len(enc):
		v.Failf("C18:consumed-length:codex.execInitMsg", "encoding has %d bytes, GetCmd consumed %d", len(enc), st.Consumed)
	default:
		c18ExecRedeliver(v, enc, true, c.Dlv, true, len(enc), gCmd, gTerm, gPty, gSize)
	}
}

var c18U16 = []int{0, 1, 24, 80, 255, 256, 0x1234, 65535}

func c18ExecGen(t *rapid.T) c18Exec {
	c := c18Exec{
		UsePty:   rapid.Bool().Draw(t, "pty"),
		CmdLen:   wire.DrawLen(t, "clen", 70000),
		CmdSeed:  rapid.Uint64().Draw(t, "cseed"),
		TermLen:  wire.DrawLen(t, "tlen", 70000),
		TermSeed: rapid.Uint64().Draw(t, "tseed"),
		Binary:   rapid.Bool().Draw(t, "bin"),
		Dlv:      wire.DrawDelivery(t),
	}
	if rapid.Bool().Draw(t, "shortterm") {
		c.TermLen = rapid.IntRange(0, 20).Draw(t, "tlen2")
	}
	if rapid.Bool().Draw(t, "hassize") {
		c.Size = &c18Size{Rows: rapid.SampledFrom(c18U16).Draw(t, "rows"), Cols: rapid.SampledFrom(c18U16).Draw(t, "cols"),
			X: rapid.SampledFrom(c18U16).Draw(t, "x"), Y: rapid.SampledFrom(c18U16).Draw(t, "y")}
	}
	return c
}

func TestVerifC18ExecEncDec(t *testing.T) {
	vlib.Drive(t, vlib.Spec[c18Exec]{ID: "C18", Quick: 10000, Gen: c18ExecGen, Run: c18ExecRunA})
}

// window-size messages: every combination of the edge values
func TestVerifC18WinsizeSweep(t *testing.T) {
	type sizeCase struct {
		c18Size
		Dlv wire.Delivery `json:"dlv"`
	}
	run := func(c sizeCase, v *vlib.Verdict) {
		v.NonTrivial = true
		v.Label("winsize")
		in := c.c18Size.value()
		b := make([]byte, 8)
		var got *pty.Winsize
		var err error
		st := &wire.Stream{Sentinel: true, MaxSentinel: 64}
		if vlib.Guard(v, func() {
			serializeSize(b, in)
			st.Data = b
			got, err = readSize(st)
		}) {
			return
		}
		if err != nil || !c18SizeEq(got, in) || st.Consumed != 8 {
			v.Failf("C18:roundtrip-mismatch:codex.Winsize", "size %s reads back as %s (err=%v), consumed %d of 8", c18SizeStr(in), c18SizeStr(got), err, st.Consumed)
			return
		}
		wire.Redeliver(v, "C18", "codex.readSize", b, true, c.Dlv, true, 8, func(st *wire.Stream) (string, string, error) {
			again, err := readSize(st)
			if err == nil && !c18SizeEq(again, got) {
				return "size", fmt.Sprintf("%s instead of %s", c18SizeStr(again), c18SizeStr(got)), nil
			}
			return "", "", err
		})
	}
	if vlib.ReplayEnumerated(t, "C18", run) {
		return
	}
	rec := vlib.Open(t, "C18")
	i := 0
	for _, r := range c18U16 {
		for _, c := range c18U16 {
			for _, x := range c18U16 {
				for _, y := range c18U16 {
					i++
					if !rec.Mine(i) {
						continue
					}
					if !vlib.Each(t, rec, sizeCase{c18Size{r, c, x, y}, wire.DeliveryFor(uint64(i))}, run) {
						return
					}
				}
			}
		}
	}
	rec.SetExhaustive(true)
	rec.Extra("enumerated", "window sizes: 8^4 combinations of 16-bit edge values; delivery pattern cycled through wire.DeliveryFor")
}

// c18HandEncodeExec builds a valid execution request by hand and lists its
// length fields (and the flag byte).
func c18HandEncodeExec(flags byte, cmd, term string, size *pty.Winsize) (enc []byte, fields []wire.Field) {
	fields = append(fields, wire.Field{Off: 0, Width: 1})
	enc = append(enc, flags)
	fields = append(fields, wire.Field{Off: len(enc), Width: 4})
	enc = binary.BigEndian.AppendUint32(enc, uint32(len(cmd)))
	enc = append(enc, cmd...)
	fields = append(fields, wire.Field{Off: len(enc), Width: 4})
	enc = binary.BigEndian.AppendUint32(enc, uint32(len(term)))
	enc = append(enc, term...)
	if size != nil {
		enc = binary.BigEndian.AppendUint16(enc, size.Rows)
		enc = binary.BigEndian.AppendUint16(enc, size.Cols)
		enc = binary.BigEndian.AppendUint16(enc, size.X)
		enc = binary.BigEndian.AppendUint16(enc, size.Y)
	}
	return
}

// c18ExecBoundLens clears the top 12 bits of the two 32-bit length fields as
// GetCmd will see them (second field located after the first was bounded), so
// that no mutation makes GetCmd allocate more than 1 MiB per field: GetCmd
// allocates whatever the length says (a C11 subject, checked there with a
// bounded size), and two multi-GiB buffers per case would exhaust the machine.
// GetCmd reuses its 4-byte length buffer, so a truncated second field inherits
// bytes of the first, which are bounded already.
func c18ExecBoundLens(in []byte) []byte {
	bound := func(pos int) uint32 {
		var l [4]byte
		if pos < len(in) {
			in[pos] = 0
		}
		if pos+1 < len(in) {
			in[pos+1] &= 0x0F
		}
		if pos < len(in) {
			copy(l[:], in[pos:])
		}
		return binary.BigEndian.Uint32(l[:])
	}
	cmdLen := bound(1)
	pos := 5 + int(cmdLen)
	if pos <= len(in) {
		bound(pos)
	}
	return in
}

// (B) mutated requests. GetCmd never reports an error, so every input
// "decodes successfully"; length fields are capped at 1 MiB here (what a
// 4-GiB length does is C11's subject).
type c18ExecB struct {
	Base  c18Exec    `json:"base"`
	Flags int        `json:"flags"` // whole flag byte, bits 0/1 forced to match the base when < 0
	Muts  []wire.Mut `json:"muts"`
}

func c18ExecRunB(c c18ExecB, v *vlib.Verdict) {
	cmd, term := c.Base.strings()
	size := c.Base.Size.value()
	flags := byte(c.Flags) &^ 3
	if c.Base.UsePty {
		flags |= usePtyFlag
	}
	if size != nil {
		flags |= hasSizeFlag
	}
	enc, fields := c18HandEncodeExec(flags, cmd, term, size)
	in := c18ExecBoundLens(wire.Mutate(enc, fields, c.Muts, 1<<20))
	var valid []any
	if len(c.Muts) == 0 && flags&^3 == 0 {
		valid = []any{cmd, term, c.Base.UsePty, c18SizeStr(size)}
	}
	c18ExecBytesB(in, valid, len(c.Muts) == 0, c.Base.Dlv, v)
}

// c18ExecBytesB: decode -> encode -> decode on raw bytes whose length fields
// were bounded by c18ExecBoundLens. valid, when not nil, is what the bytes were
// built from by hand. dlv: the delivery pattern under which the bytes are
// decoded once more.
func c18ExecBytesB(in []byte, valid []any, unmutated bool, dlv wire.Delivery, v *vlib.Verdict) {
	var sz *pty.Winsize
	dec := func(b []byte) (r [4]any, consumed int, err error, panicked bool) {
		st := &wire.Stream{Data: b}
		panicked = vlib.Guard(v, func() {
			var a, bb string
			var p bool
			a, bb, p, sz, err = GetCmd(&wire.Conn{Stream: st})
			r = [4]any{a, bb, p, c18SizeStr(sz)}
		})
		return r, st.Consumed, err, panicked
	}
	v1, consumed, derr, p := dec(in)
	if p {
		return
	}
	if derr == nil {
		c18ExecRedeliver(v, in, false, dlv, true, consumed, v1[0].(string), v1[1].(string), v1[2].(bool), sz)
	} else {
		c18ExecRedeliver(v, in, false, dlv, false, consumed, "", "", false, nil)
	}
	if !v.OK() {
		return
	}
	if derr != nil {
		if unmutated {
			v.Failf("C18:decode-rejects-valid-encoding:codex.execInitMsg", "GetCmd rejects a hand-built valid request: %v", derr)
			return
		}
		v.Label("decoder-rejected")
		return
	}
	sz1 := sz
	if valid != nil {
		if v1[0] != valid[0] || v1[1] != valid[1] || v1[2] != valid[2] || v1[3] != valid[3] {
			v.Failf("C18:roundtrip-mismatch:codex.execInitMsg:hand-encoding", "hand-built valid request decodes differently: %.60v", v1)
			return
		}
	}
	var re []byte
	if vlib.Guard(v, func() { re = newExecInitMsg(v1[2].(bool), v1[0].(string), v1[1].(string), sz1).ToBytes() }) {
		return
	}
	if consumed > len(in) || !bytes.Equal(re, in[:consumed]) {
		v.NonTrivial = true
		v.Label("accepted-non-canonical")
	} else {
		v.Label("accepted-canonical")
	}
	v2, _, derr2, p2 := dec(re)
	if p2 {
		return
	}
	if derr2 != nil {
		v.Failf("C18:redecode-fails:codex.execInitMsg", "GetCmd accepted %d bytes; the re-encoding of what it returned (%d bytes) is rejected: %v", len(in), len(re), derr2)
		return
	}
	if v1 != v2 {
		v.Failf("C18:reencode-changes-value:codex.execInitMsg", "first decode (cmd %d bytes, term %d bytes, pty %v, size %v) differs after re-encoding (cmd %d bytes, term %d bytes, pty %v, size %v)",
			len(v1[0].(string)), len(v1[1].(string)), v1[2], v1[3], len(v2[0].(string)), len(v2[1].(string)), v2[2], v2[3])
	}
}

func TestVerifC18ExecDecEncDec(t *testing.T) {
	vlib.Drive(t, vlib.Spec[c18ExecB]{ID: "C18", Quick: 8000, Run: c18ExecRunB, Gen: func(t *rapid.T) c18ExecB {
		c := c18ExecB{Base: c18ExecGen(t), Flags: rapid.IntRange(0, 255).Draw(t, "flags")}
		if c.Base.CmdLen > 600 {
			c.Base.CmdLen %= 600
		}
		if c.Base.TermLen > 600 {
			c.Base.TermLen %= 600
		}
		if rapid.Bool().Draw(t, "plainflags") {
			c.Flags = 0
		}
		c.Muts = wire.GenMuts(t, 0, 3)
		return c
	}})
}

// FuzzVerifC18ExecInit: native fuzzing of the execution-request decode ->
// encode -> decode oracle (only does work when VERIF_FUZZ is set).
func FuzzVerifC18ExecInit(f *testing.F) {
	if os.Getenv("VERIF_FUZZ") == "" {
		f.Skip("native fuzzing runs in the thorough tier only")
	}
	f.Add(newExecInitMsg(true, "ls -l", "xterm", &pty.Winsize{Rows: 24, Cols: 80}).ToBytes())
	f.Add(newExecInitMsg(false, "", "", nil).ToBytes())
	f.Fuzz(func(t *testing.T, in []byte) {
		var v vlib.Verdict
		c18ExecBytesB(c18ExecBoundLens(append([]byte(nil), in...)), nil, false, wire.DeliveryFor(wire.Hash64(in)), &v)
		for _, vi := range v.Violations {
			if !vlib.KnownOpen(vi.Sig) {
				t.Fatalf("VERIF-VIOLATION sig=%s detail=%s", vi.Sig, vi.Detail)
			}
		}
	})
}
