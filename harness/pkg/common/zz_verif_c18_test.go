package common

// C18 — one-byte-length strings (WriteString / ReadString) round-trip; a string
// that does not fit the one-byte length must be rejected by the encoder instead
// of being written with a wrapped length. Every decode is repeated with the
// same bytes delivered in pieces (wire.Delivery) and must give the same result.

import (
	"bytes"
	"fmt"
	"io"
	"testing"

	"github.com/sirupsen/logrus"
	"pgregory.net/rapid"
	"verif.local/vlib"
	"verif.local/vlib/wire"
)

func init() { logrus.SetOutput(io.Discard) }

// the length prefix is one byte: 255 is the longest representable string
const c18StrMax = 255

type c18StrCase struct {
	Len  int    `json:"len"`
	Seed uint64 `json:"seed"`
	Text bool   `json:"text"` // printable ASCII instead of arbitrary bytes
	// how the encoded bytes are handed to the reader the second time (zero value: in one piece only)
	Dlv wire.Delivery `json:"dlv"`
}

// c18StrRedeliver: the bytes decoded again under the case's delivery pattern.
func c18StrRedeliver(v *vlib.Verdict, in []byte, sentinel bool, d wire.Delivery, accepted bool, consumed int, whole string) {
	wire.Redeliver(v, "C18", "common.ReadString", in, sentinel, d, accepted, consumed, func(st *wire.Stream) (string, string, error) {
		got, _, err := ReadString(st)
		if err == nil && got != whole {
			return "value", fmt.Sprintf("%d bytes %.40q instead of %d bytes %.40q", len(got), got, len(whole), whole), nil
		}
		return "", "", err
	})
}

func (c c18StrCase) value() string {
	if c.Text {
		return wire.Text(c.Seed, c.Len)
	}
	return string(vlib.Fill(c.Seed, c.Len))
}

// (A) encode -> decode from a stream that continues with sentinel bytes.
func c18StrRunA(c c18StrCase, v *vlib.Verdict) {
	s := c.value()
	fits := len(s) <= c18StrMax
	v.NonTrivial = wire.AtLimit(len(s))
	switch {
	case len(s) == 0:
		v.Label("len=0")
	case len(s) < 252:
		v.Label("len<252")
	case len(s) <= 255:
		v.Label("len=252..255")
	case len(s) <= 257:
		v.Label("len=256..257")
	default:
		v.Label("len>257")
	}
	var buf bytes.Buffer
	var err error
	if vlib.Guard(v, func() { _, err = WriteString(s, &buf) }) {
		return
	}
	if err != nil {
		v.Label("encoder-rejected")
		if fits {
			v.Failf("C18:encode-rejects-representable:common.WriteString", "WriteString rejects a %d-byte string: %v", len(s), err)
		}
		return
	}
	enc := buf.Bytes()
	st := &wire.Stream{Data: enc, Sentinel: true, MaxSentinel: 1 << 20}
	var got string
	var derr error
	if vlib.Guard(v, func() { got, _, derr = ReadString(st) }) {
		return
	}
	if !fits {
		// the value cannot be represented, so the encoder had to reject it; it did not. Report what the reader sees instead.
		if derr != nil || got != s || st.Consumed != len(enc) {
			v.Failf("C18:encode-accepted-misframed:common.WriteString", "WriteString accepted a %d-byte string (limit %d) and wrote %d bytes with length byte %d; ReadString then returns %d bytes (err=%v) and consumes %d of the %d encoded bytes",
				len(s), c18StrMax, len(enc), enc[0], len(got), derr, st.Consumed, len(enc))
		} else {
			v.Label("beyond-assumed-limit-but-round-trips")
		}
		return
	}
	if derr != nil {
		v.Failf("C18:decode-rejects-own-encoding:common.ReadString", "ReadString fails on the encoding of a %d-byte string: %v", len(s), derr)
		return
	}
	if got != s {
		v.Failf("C18:roundtrip-mismatch:common.String:value", "%d-byte string decodes to a different %d-byte string", len(s), len(got))
		return
	}
	if st.Consumed != len(enc) {
		v.Failf("C18:consumed-length:common.String", "encoding has %d bytes, ReadString consumed %d", len(enc), st.Consumed)
		return
	}
	c18StrRedeliver(v, enc, true, c.Dlv, true, len(enc), got)
}

func c18StrGen(t *rapid.T) c18StrCase {
	return c18StrCase{Len: wire.DrawLen(t, "len", 70000), Seed: rapid.Uint64().Draw(t, "seed"), Text: rapid.Bool().Draw(t, "text"), Dlv: wire.DrawDelivery(t)}
}

func TestVerifC18StringEncDec(t *testing.T) {
	vlib.Drive(t, vlib.Spec[c18StrCase]{ID: "C18", Quick: 6000, Gen: c18StrGen, Run: c18StrRunA})
}

// every length 0..600 and around 64 KiB (finite sub-space, both alphabets)
func TestVerifC18StringSweep(t *testing.T) {
	if vlib.ReplayEnumerated(t, "C18", c18StrRunA) {
		return
	}
	rec := vlib.Open(t, "C18")
	var lens []int
	for l := 0; l <= 600; l++ {
		lens = append(lens, l)
	}
	lens = append(lens, 65534, 65535, 65536, 65537)
	i := 0
	for _, l := range lens {
		for _, text := range []bool{false, true} {
			for _, dlv := range wire.SweepDeliveries() {
				i++
				if !rec.Mine(i) {
					continue
				}
				if !vlib.Each(t, rec, c18StrCase{Len: l, Seed: uint64(l)*2 + 1, Text: text, Dlv: dlv}, c18StrRunA) {
					return
				}
			}
		}
	}
	rec.SetExhaustive(true)
	rec.Extra("enumerated", "string lengths 0..600 and 65534..65537, binary and text, each under the 8 delivery patterns of wire.SweepDeliveries")
}

// (B) decode -> encode -> decode on mutated encodings.
type c18StrBCase struct {
	Base c18StrCase `json:"base"`
	Muts []wire.Mut `json:"muts"`
}

func c18StrRunB(c c18StrBCase, v *vlib.Verdict) {
	s := c.Base.value()
	if len(s) > c18StrMax {
		s = s[:c18StrMax]
	}
	enc := append([]byte{byte(len(s))}, s...) // valid encoding, built by hand
	in := wire.Mutate(enc, []wire.Field{{Off: 0, Width: 1}}, c.Muts, 0)
	st := &wire.Stream{Data: in}
	var val string
	var err error
	if vlib.Guard(v, func() { val, _, err = ReadString(st) }) {
		return
	}
	if c18StrRedeliver(v, in, false, c.Base.Dlv, err == nil, st.Consumed, val); !v.OK() {
		return
	}
	if err != nil {
		v.Label("decoder-rejected")
		return
	}
	v.Label("decoder-accepted")
	var buf bytes.Buffer
	var werr error
	if vlib.Guard(v, func() { _, werr = WriteString(val, &buf) }) {
		return
	}
	if werr != nil {
		v.Label("re-encode-rejected")
		return
	}
	re := buf.Bytes()
	if !bytes.Equal(re, in) {
		v.NonTrivial = true
		v.Label("accepted-non-canonical")
	}
	st2 := &wire.Stream{Data: re}
	var val2 string
	var err2 error
	if vlib.Guard(v, func() { val2, _, err2 = ReadString(st2) }) {
		return
	}
	if err2 != nil {
		v.Failf("C18:redecode-fails:common.String", "ReadString accepted %d bytes as a %d-byte string; its re-encoding (%d bytes) is rejected: %v", len(in), len(val), len(re), err2)
		return
	}
	if val2 != val {
		v.Failf("C18:reencode-changes-value:common.String", "ReadString accepted %d bytes as a %d-byte string; decoding the re-encoding yields a different %d-byte string", len(in), len(val), len(val2))
	}
}

func TestVerifC18StringDecEncDec(t *testing.T) {
	vlib.Drive(t, vlib.Spec[c18StrBCase]{ID: "C18", Quick: 4000, Run: c18StrRunB, Gen: func(t *rapid.T) c18StrBCase {
		return c18StrBCase{Base: c18StrCase{Len: wire.DrawLen(t, "len", 300), Seed: rapid.Uint64().Draw(t, "seed"), Dlv: wire.DrawDelivery(t)}, Muts: wire.GenMuts(t, 0, 3)}
	}})
}
