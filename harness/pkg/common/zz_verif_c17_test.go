//go:build go1.25

package common

// C17 (queue half) — a deadline-aware queue is safe under concurrent use:
// every call returns, Close is idempotent, items are taken at most once and in
// order, and everything queued before Close is returned before end-of-stream.

import (
	"errors"
	"fmt"
	"io"
	"os"
	"runtime"
	"sort"
	"strings"
	"sync"
	"sync/atomic"
	"testing"
	"time"

	"pgregory.net/rapid"
	"hop.computer/hop/pkg/verifhook"
	"verif.local/vlib"
)

type c17Op struct {
	Kind    int `json:"kind"` // 0 send 1 recv 2 setdeadline 3 cancel 4 close
	Arg     int `json:"arg"`  // setdeadline: ms from now (<0 past, 0 = zero time)
	DelayMs int `json:"delay"`
	// setdeadline with an ABSOLUTE instant: Abs > 0 = the deadline is Abs ms after the start of the case (instead of Arg ms from
	// "now"), so that several calls - of one goroutine or of several - pass the very same time.Time; Rep = the call is repeated
	// Rep more times with that same value (an application re-applying its deadline before each call, or SetDeadline followed by
	// SetReadDeadline with the same instant).
	Abs int `json:"abs,omitempty"`
	Rep int `json:"rep,omitempty"`
}

type c17Yield struct {
	Point int `json:"p"`
	Hit   int `json:"hit"`
	Us    int `json:"us"`
}

type c17Case struct {
	Cap    int        `json:"cap"`
	Procs  [][]c17Op  `json:"procs"`
	Yields []c17Yield `json:"yields"`
}

var c17Points = []string{
	"common.DeadlineChan.Recv.enter", "common.DeadlineChan.Recv.afterPoll", "common.DeadlineChan.Recv.afterClosedCheck",
	"common.DeadlineChan.Recv.beforeWait", "common.DeadlineChan.Send.enter", "common.DeadlineChan.Close.enter",
	"common.DeadlineChan.SetDeadline.afterClosedCheck", "common.DeadlineChan.Cancel.afterClosedCheck",
}

var c17OpNames = []string{"Send", "Recv", "SetDeadline", "Cancel", "Close"}

type c17Event struct {
	Proc, Op int
	Kind     int
	DL       time.Duration // setdeadline: the deadline as time since start (0 = cleared)
	Val      int // send: id; recv: id received (or -1)
	Err      error
	Start    time.Duration
	End      time.Duration
	seqStart int64
	seqEnd   int64
}

var c17Realtime atomic.Bool

func c17Scenario(c c17Case, v *vlib.Verdict) {
	d := NewDeadlineChan[int](c.Cap)
	start := time.Now()
	wait := 30 * time.Second
	if c17Realtime.Load() {
		wait = 3 * time.Second // real-time re-run of a frozen bubble: operations take microseconds
	}
	var mu sync.Mutex
	var events []*c17Event
	pending := map[string]bool{}
	var seq atomic.Int64
	// yield schedule: one visit of a point is delayed (virtual sleep: none of these points is reached with a mutex held)
	sched := map[string]map[int]int{}
	for _, y := range c.Yields {
		pt := c17Points[y.Point%len(c17Points)]
		if sched[pt] == nil {
			sched[pt] = map[int]int{}
		}
		sched[pt][y.Hit] = y.Us
	}
	hits := map[string]int{}
	var hmu sync.Mutex
	verifhook.Set(func(point string) {
		m := sched[point]
		if m == nil {
			return
		}
		hmu.Lock()
		k := hits[point]
		hits[point]++
		hmu.Unlock()
		if us, ok := m[k]; ok {
			if us > 0 {
				time.Sleep(time.Duration(us) * time.Microsecond)
			} else {
				runtime.Gosched()
			}
		}
	})
	defer verifhook.Set(nil)
	nextID := atomic.Int64{}
	sendSem := make(chan struct{}, 1)
	var wg sync.WaitGroup
	for pi, pr := range c.Procs {
		wg.Add(1)
		go func(pi int, pr []c17Op) {
			defer wg.Done()
			for oi, op := range pr {
				if op.DelayMs > 0 {
					time.Sleep(time.Duration(op.DelayMs) * time.Millisecond)
				}
				ev := &c17Event{Proc: pi, Op: oi, Kind: op.Kind, Val: -1, Start: time.Since(start), seqStart: seq.Add(1)}
				key := fmt.Sprintf("g%d.%d:%s", pi, oi, c17OpNames[op.Kind])
				mu.Lock()
				pending[key] = true
				mu.Unlock()
				switch op.Kind {
				case 0:
					// Send serialises callers on an internal mutex and holds it while it waits for room. The harness
					// admits one goroutine at a time through a CHANNEL semaphore instead, so that the others wait in
					// a way synctest recognises as blocked (a mutex wait would freeze the bubble's clock); the
					// serialisation itself is the same.
					sendSem <- struct{}{}
					ev.Val = int(nextID.Add(1))
					ev.Err = d.Send(ev.Val)
					<-sendSem
				case 1:
					val, err := d.Recv()
					ev.Err = err
					if err == nil {
						ev.Val = val
					}
				case 2:
					var dl time.Time
					switch {
					case op.Abs > 0:
						dl = start.Add(time.Duration(op.Abs) * time.Millisecond)
					case op.Arg != 0:
						dl = time.Now().Add(time.Duration(op.Arg) * time.Millisecond)
					}
					if !dl.IsZero() {
						ev.DL = dl.Sub(start)
						if ev.DL == 0 {
							ev.DL = 1
						}
					}
					ev.Err = d.SetDeadline(dl)
					// the same value again: each repetition is a call of its own in the history
					for r := 0; r < op.Rep && r < 3; r++ {
						ev.End = time.Since(start)
						ev.seqEnd = seq.Add(1)
						mu.Lock()
						events = append(events, ev)
						mu.Unlock()
						ev = &c17Event{Proc: pi, Op: oi, Kind: op.Kind, Val: -1, DL: ev.DL, Start: time.Since(start), seqStart: seq.Add(1)}
						ev.Err = d.SetDeadline(dl)
					}
				case 3:
					ev.Err = d.Cancel(errors.New("cancelled by the program"))
				case 4:
					ev.Err = d.Close()
				}
				ev.End = time.Since(start)
				ev.seqEnd = seq.Add(1)
				mu.Lock()
				delete(pending, key)
				events = append(events, ev)
				mu.Unlock()
			}
		}(pi, pr)
	}
	procsDone := make(chan struct{})
	go func() { wg.Wait(); close(procsDone) }()
	// let the program run; whatever still blocks after 30 s must be released by Close
	select {
	case <-procsDone:
	case <-time.After(wait):
	}
	closeSeq := seq.Add(1)
	closeDone := make(chan error, 1)
	go func() { closeDone <- d.Close() }()
	select {
	case <-closeDone:
	case <-time.After(wait):
		mu.Lock()
		var p []string
		for k := range pending {
			p = append(p, k)
		}
		mu.Unlock()
		sort.Strings(p)
		v.Failf("C17:queue:close-does-not-return:"+c17Kinds(p), "DeadlineChan.Close did not return within 30 s; calls still blocked: %v", p)
		return
	}
	select {
	case <-procsDone:
	case <-time.After(wait):
		mu.Lock()
		var p []string
		for k := range pending {
			p = append(p, k)
		}
		mu.Unlock()
		sort.Strings(p)
		v.Failf("C17:queue:call-not-released-by-close:"+c17Kinds(p), "30 s after Close returned these calls are still blocked: %v", p)
		return
	}
	// drain: everything that was successfully queued and not yet received must come out before end-of-stream
	var drained []int
	for i := 0; i < 10000; i++ {
		x, err := d.Recv()
		if err != nil {
			if err != io.EOF {
				v.Failf("C17:queue:recv-after-close-error", "Recv after Close returned %v instead of queued data or io.EOF", err)
				return
			}
			break
		}
		drained = append(drained, x)
	}
	if x, err := d.Recv(); err == nil {
		v.Failf("C17:queue:item-after-eof", "Recv returned item %d after an earlier Recv had already reported end-of-stream", x)
		return
	}
	// ---- history oracle
	mu.Lock()
	defer mu.Unlock()
	sent := map[int]*c17Event{}
	recvd := map[int]int{}
	receivers := map[int]bool{}
	closers := 0
	for _, e := range events {
		switch e.Kind {
		case 0:
			if e.Err == nil {
				sent[e.Val] = e
			}
		case 1:
			receivers[e.Proc] = true
			if e.Err == nil {
				recvd[e.Val]++
			}
		case 4:
			closers++
		}
	}
	for _, x := range drained {
		recvd[x]++
	}
	for id, n := range recvd {
		if n > 1 {
			v.Failf("C17:queue:item-taken-twice", "item %d was received %d times", id, n)
			return
		}
		if sent[id] == nil {
			v.Failf("C17:queue:item-never-sent", "item %d was received but no successful Send produced it", id)
			return
		}
	}
	for id := range sent {
		if recvd[id] == 0 {
			v.Failf("C17:queue:queued-item-lost", "item %d was accepted by Send (nil error) but never came out, not even when draining after Close", id)
			return
		}
	}
	// per-receiver order: ids were assigned in Send-call order; with a single sender goroutine the queue order is
	// the id order, so every receiver must see increasing ids
	senders := map[int]bool{}
	for _, e := range events {
		if e.Kind == 0 {
			senders[e.Proc] = true
		}
	}
	if len(senders) == 1 {
		byProc := map[int][]*c17Event{}
		for _, e := range events {
			if e.Kind == 1 && e.Err == nil {
				byProc[e.Proc] = append(byProc[e.Proc], e)
			}
		}
		for p, lst := range byProc {
			sort.Slice(lst, func(i, j int) bool { return lst[i].Op < lst[j].Op })
			for i := 1; i < len(lst); i++ {
				if lst[i].Val < lst[i-1].Val {
					v.Failf("C17:queue:order-violated", "receiver g%d got item %d after item %d (single sender)", p, lst[i].Val, lst[i-1].Val)
					return
				}
			}
		}
		for i := 1; i < len(drained); i++ {
			if drained[i] < drained[i-1] {
				v.Failf("C17:queue:order-violated", "drain after Close returned item %d after item %d (single sender)", drained[i], drained[i-1])
				return
			}
		}
	}
	// "data queued before close is still returned before end-of-stream": let C be the start of the effective Close
	// (the first Close call that returned nil, or the harness's final Close). Every item whose Send had COMPLETED
	// before C is in the queue (or already taken) when the queue closes, so no Recv may report end-of-stream while it
	// is still queued. A taker may have removed the item before that Recv looked and recorded its result later; only
	// a taker that STARTED after the Recv had already returned proves the item was still queued.
	effClose := closeSeq
	for _, e := range events {
		if e.Kind == 4 && e.Err == nil && e.seqStart < effClose {
			effClose = e.seqStart
		}
	}
	for _, r := range events {
		if r.Kind != 1 || r.Err != io.EOF {
			continue
		}
		for id, s := range sent {
			if s.seqEnd >= effClose {
				continue
			}
			taken := false
			for _, r2 := range events {
				if r2.Kind == 1 && r2.Err == nil && r2.Val == id && r2.seqStart < r.seqEnd {
					taken = true
				}
			}
			if !taken {
				v.Failf("C17:queue:eof-before-queued-item", "a Recv reported end-of-stream although item %d, queued before Close began, was still in the queue (it came out later)", id)
				return
			}
		}
	}
	if os.Getenv("VERIF_VERBOSE") != "" {
		sort.Slice(events, func(i, j int) bool { return events[i].seqStart < events[j].seqStart })
		for _, e := range events {
			fmt.Printf("EV g%d.%d %-11s seq[%d,%d] t[%v,%v] val=%d dl=%v err=%v\n", e.Proc, e.Op, c17OpNames[e.Kind], e.seqStart, e.seqEnd, e.Start, e.End, e.Val, e.DL, e.Err)
		}
	}
	// deadline in force: for a Send/Recv that did not overlap any SetDeadline or Cancel call, the last SetDeadline that
	// completed before it started determines the deadline D (none / cleared => no deadline). A timeout without a
	// deadline in force, or before D, is not "an expired deadline"; a call that was still blocked a second after D
	// was not released by it.
	for _, e := range events {
		if e.Kind > 1 {
			continue
		}
		var last *c17Event
		var over []*c17Event
		for _, sd := range events {
			if sd.Kind != 2 && sd.Kind != 3 {
				continue
			}
			if sd.seqStart < e.seqEnd && sd.seqEnd > e.seqStart {
				over = append(over, sd)
			}
			if sd.seqEnd < e.seqStart && (last == nil || sd.seqEnd > last.seqEnd) {
				last = sd
			}
		}
		if last != nil && (last.Kind == 3 || last.Err != nil) {
			continue
		}
		// A deadline change that sets the SAME instant as the one in force changes nothing ("t will override the current
		// deadline"): calls that overlap the judged call, or the last change before it, do not make the deadline in force
		// ambiguous when they set that very value again.
		same := func(sd *c17Event) bool {
			return last != nil && last.DL != 0 && sd.Kind == 2 && sd.Err == nil && sd.DL == last.DL
		}
		overlap := false
		for _, sd := range over {
			if !same(sd) {
				overlap = true
			}
		}
		if overlap {
			continue
		}
		if last != nil {
			// the effective order of two overlapping deadline changes is not observable: only judge when the last
			// change before this call is unambiguous
			ambiguous := false
			for _, sd := range events {
				if sd != last && (sd.Kind == 2 || sd.Kind == 3) && sd.seqStart < last.seqEnd && sd.seqEnd > last.seqStart && !same(sd) {
					ambiguous = true
				}
			}
			if ambiguous {
				continue
			}
		}
		var D time.Duration
		if last != nil {
			D = last.DL
		}
		timedOut := e.Err != nil && errors.Is(e.Err, os.ErrDeadlineExceeded)
		switch {
		case timedOut && D == 0:
			v.Failf("C17:queue:timeout-without-deadline", "%s g%d.%d returned %v at %v although no deadline was in force (last SetDeadline before it cleared it, or none)", c17OpNames[e.Kind], e.Proc, e.Op, e.Err, e.End)
			return
		case timedOut && e.End+time.Millisecond < D:
			v.Failf("C17:queue:timeout-before-deadline", "%s g%d.%d returned %v at %v, before its deadline %v", c17OpNames[e.Kind], e.Proc, e.Op, e.Err, e.End, D)
			return
		// (a call that only the harness's final Close released has waited the full 30 virtual s; in the real-time re-run of a
		// frozen bubble that wait is 3 s of wall-clock time and such calls are not judged)
		case D > 0 && e.End > D+time.Second && e.End > e.Start+time.Second && (e.seqEnd < closeSeq || !c17Realtime.Load()):
			v.Failf("C17:queue:deadline-not-honoured", "%s g%d.%d started at %v with deadline %v in force and was still blocked at %v", c17OpNames[e.Kind], e.Proc, e.Op, e.Start, D, e.End)
			return
		}
	}
	// error kinds
	for _, e := range events {
		if e.Err == nil || e.Kind > 1 {
			continue
		}
		if e.Err != io.EOF && !errors.Is(e.Err, os.ErrDeadlineExceeded) && !strings.Contains(e.Err.Error(), "cancelled by the program") {
			v.Failf("C17:queue:unexpected-error-kind", "%s returned %v (neither end-of-stream, a timeout error, nor the Cancel error)", c17OpNames[e.Kind], e.Err)
			return
		}
	}
	// classification
	racing := 0
	for _, pr := range c.Procs {
		for _, op := range pr {
			if op.Kind >= 2 {
				racing++
				break
			}
		}
	}
	v.NonTrivial = len(c.Procs) >= 3 && racing >= 1
	v.Labelf("cap=%d", c.Cap)
	v.Labelf("goroutines=%d", len(c.Procs))
	if len(c.Yields) > 0 {
		v.Label("with-yield-schedule")
	}
	if closers > 0 {
		v.Label("close-in-program")
	}
	// the same absolute deadline set more than once (successfully) while it was still in the future
	sameDL := map[time.Duration]int{}
	for _, e := range events {
		if e.Kind == 2 && e.Err == nil && e.DL > 0 && e.End < e.DL {
			sameDL[e.DL]++
		}
	}
	for _, n := range sameDL {
		if n > 1 {
			v.Label("same-future-deadline-set-again")
			break
		}
	}
	if len(drained) > 0 {
		v.Label("items-drained-after-close")
	}
}

func c17Kinds(p []string) string {
	seen := map[string]bool{}
	for _, k := range p {
		if i := strings.Index(k, ":"); i >= 0 {
			seen[k[i+1:]] = true
		}
	}
	var out []string
	for k := range seen {
		out = append(out, k)
	}
	sort.Strings(out)
	return strings.Join(out, "+")
}

func c17RunFn(t *testing.T) func(c c17Case, v *vlib.Verdict) {
	return func(c c17Case, v *vlib.Verdict) {
		res := vlib.Bubble(t, 10*time.Second, func() { c17Scenario(c, v) })
		verifhook.Set(nil)
		if res.Hung {
			// frozen bubble (a goroutine waits for a mutex whose holder is blocked): decide in real time
			v2 := &vlib.Verdict{}
			done := make(chan struct{})
			c17Realtime.Store(true)
			go func() { defer close(done); c17Scenario(c, v2) }()
			select {
			case <-done:
			case <-time.After(150 * time.Second):
				v2.Failf("C17:queue:deadlock", "scenario does not finish in real time either")
			}
			c17Realtime.Store(false)
			verifhook.Set(nil)
			*v = vlib.Verdict{Labels: []string{"bubble-froze:re-run-in-real-time"}}
			if !v2.OK() {
				v.Failf(v2.Violations[0].Sig+":confirmed-in-real-time", "%s", v2.Violations[0].Detail)
			} else {
				v.Inconclusive = "bubble froze but the case completes in real time"
			}
			return
		}
		if res.Panic != "" && v.OK() {
			if res.Leak() || res.Deadlock() {
				v.Failf("C17:queue:goroutines-left", "goroutines remain blocked after Close and drain: %v", vlib.BlockedHopFrames(res.Stacks))
			} else {
				v.Failf(vlib.PanicSig(res.Panic, res.Stacks), "panic: %s", res.Panic)
			}
		}
	}
}

func c17Gen(t *rapid.T) c17Case {
	c := c17Case{Cap: rapid.IntRange(0, 4).Draw(t, "cap")}
	// the absolute deadlines of this case (ms after its start): one or two values that the SetDeadline operations share
	absPool := rapid.SliceOfNDistinct(rapid.SampledFrom([]int{2, 30, 250, 2000, 8000}), 1, 2, rapid.ID[int]).Draw(t, "absPool")
	op := rapid.Custom(func(t *rapid.T) c17Op {
		o := c17Op{Kind: rapid.SampledFrom([]int{0, 0, 0, 1, 1, 1, 2, 3, 4}).Draw(t, "kind")}
		if o.Kind == 2 {
			o.Arg = rapid.SampledFrom([]int{-100, 0, 1, 50, 5000}).Draw(t, "dl")
			// four in ten: one of the case's absolute instants (so that the same time.Time is set again, by this goroutine or
			// another one, before or while somebody waits), possibly repeated at once
			if rapid.IntRange(0, 9).Draw(t, "absolute") < 4 {
				o.Abs = rapid.SampledFrom(absPool).Draw(t, "abs")
				o.Rep = rapid.SampledFrom([]int{0, 0, 1, 1, 2, 3}).Draw(t, "rep")
			}
		}
		o.DelayMs = rapid.SampledFrom([]int{0, 0, 0, 1, 10, 200}).Draw(t, "delay")
		return o
	})
	c.Procs = rapid.SliceOfN(rapid.SliceOfN(op, 1, 6), 2, 6).Draw(t, "procs")
	c.Yields = rapid.SliceOfN(rapid.Custom(func(t *rapid.T) c17Yield {
		return c17Yield{Point: rapid.IntRange(0, len(c17Points)-1).Draw(t, "pt"), Hit: rapid.IntRange(0, 3).Draw(t, "hit"), Us: rapid.SampledFrom([]int{0, 1, 500, 20000}).Draw(t, "us")}
	}), 0, 5).Draw(t, "yields")
	return c
}

func TestVerifC17Queue(t *testing.T) {
	vlib.Drive(t, vlib.Spec[c17Case]{ID: "C17", Quick: 10000, Gen: c17Gen, Run: c17RunFn(t)})
}
