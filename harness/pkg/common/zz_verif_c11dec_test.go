package common

// C11 (decoder half) — whatever bytes arrive, ReadString returns a value or an
// error without panicking, gives up at end-of-stream, and allocates memory in
// proportion to the bytes received (<= 256 KiB + 16 x input length).
//
// Every input is handed to the decoder twice: in one piece, and delivered
// according to a generated pattern (wire.Delivery: one byte at a time, drawn
// chunk sizes, (0, nil) results, end-of-stream reported with the last bytes);
// the same oracles hold under every delivery. Enumerations derive the pattern
// from the input bytes (wire.DeliveryFor).

import (
	"fmt"
	"testing"

	"pgregory.net/rapid"
	"verif.local/vlib"
	"verif.local/vlib/wire"
)

type c11dStr struct {
	Len  int        `json:"len"`  // length of the valid base string
	Seed uint64     `json:"seed"`
	Raw  bool       `json:"raw"`  // input is Fill(seed, len) itself instead of a mutated valid encoding
	Muts []wire.Mut `json:"muts"`
	Dlv  wire.Delivery `json:"dlv"` // second delivery of the same bytes
}

func (c c11dStr) input() (in []byte, consistent bool) {
	if c.Raw {
		in = vlib.Fill(c.Seed, c.Len)
	} else {
		n := c.Len
		if n > 255 {
			n = 255
		}
		enc := append([]byte{byte(n)}, vlib.Fill(c.Seed, n)...)
		in = wire.Mutate(enc, []wire.Field{{Off: 0, Width: 1}}, c.Muts, 0)
	}
	consistent = len(in) >= 1 && len(in) == 1+int(in[0])
	return
}

func c11dStrRun(c c11dStr, v *vlib.Verdict) {
	in, consistent := c.input()
	v.NonTrivial = !consistent
	if consistent {
		v.Label("consistent")
	} else if len(in) == 0 {
		v.Label("empty")
	} else if len(in) < 1+int(in[0]) {
		v.Label("length-beyond-input")
	} else {
		v.Label("trailing-bytes")
	}
	var err error
	wire.DecoderCallBoth(v, "common.ReadString", in, c.Dlv, func(st *wire.Stream) { _, _, err = ReadString(st) })
	if v.OK() {
		v.Label(map[bool]string{true: "returned-value", false: "returned-error"}[err == nil])
	}
}

func TestVerifC11DecReadString(t *testing.T) {
	vlib.Drive(t, vlib.Spec[c11dStr]{ID: "C11", Quick: 8000, Run: c11dStrRun, Gen: func(t *rapid.T) c11dStr {
		c := c11dStr{Seed: rapid.Uint64().Draw(t, "seed"), Raw: rapid.IntRange(0, 2).Draw(t, "raw") == 0, Dlv: wire.DrawDelivery(t)}
		if c.Raw {
			c.Len = rapid.IntRange(0, 600).Draw(t, "rawlen")
		} else {
			c.Len = wire.DrawLen(t, "len", 255)
			c.Muts = wire.GenMuts(t, 0, 3)
		}
		return c
	}})
}

// every length byte x every truncation of a 0..3-byte / 255-byte payload
func TestVerifC11DecReadStringSweep(t *testing.T) {
	type sw struct {
		LenByte int `json:"lb"`
		Have    int `json:"have"` // payload bytes present
	}
	run := func(c sw, v *vlib.Verdict) {
		in := append([]byte{byte(c.LenByte)}, vlib.Fill(uint64(c.LenByte), c.Have)...)
		v.NonTrivial = c.Have != c.LenByte
		v.Label(fmt.Sprintf("have%scl", map[bool]string{true: "==", false: "!="}[c.Have == c.LenByte]))
		wire.DecoderCallBoth(v, "common.ReadString", in, wire.DeliveryFor(wire.Hash64(in)), func(st *wire.Stream) { ReadString(st) })
	}
	if vlib.ReplayEnumerated(t, "C11", run) {
		return
	}
	rec := vlib.Open(t, "C11")
	i := 0
	for lb := 0; lb <= 255; lb++ {
		for _, have := range []int{0, 1, 2, 3, lb - 1, lb, lb + 1, 255, 256, 300} {
			if have < 0 {
				continue
			}
			i++
			if !rec.Mine(i) {
				continue
			}
			if !vlib.Each(t, rec, sw{lb, have}, run) {
				return
			}
		}
	}
	// the empty stream
	if rec.Mine(0) {
		vlib.Each(t, rec, sw{-1, 0}, func(c sw, v *vlib.Verdict) {
		v.Label("empty-stream")
			wire.DecoderCallBoth(v, "common.ReadString", nil, wire.DeliveryFor(3), func(st *wire.Stream) { ReadString(st) })
		})
	}
	rec.SetExhaustive(true)
	rec.Extra("enumerated", "every length byte x payload sizes {0,1,2,3,len-1,len,len+1,255,256,300}, and the empty stream")
}
