package keys

// C18 — key encodings round-trip: DH and signing public keys (text form), DH and
// signing private keys and KEM seeds (PEM), KEM public and private keys
// (text / binary form).

import (
	"bytes"
	"encoding/base64"
	"encoding/pem"
	"io"
	"strings"
	"testing"

	"github.com/sirupsen/logrus"
	"pgregory.net/rapid"
	"verif.local/vlib"
)

func init() { logrus.SetOutput(io.Discard) }

type c18Key struct {
	Kind int    `json:"kind"` // 0 dh public, 1 dh private pem, 2 signing public, 3 signing private pem, 4 kem seed/pem + public text + private binary
	Fill int    `json:"fill"` // 0 keyed bytes, 1 all 0x00, 2 all 0xFF
	Seed uint64 `json:"seed"`
}

func (c c18Key) bytes(n int) []byte {
	b := vlib.Fill(c.Seed, n)
	switch c.Fill {
	case 1:
		for i := range b {
			b[i] = 0
		}
	case 2:
		for i := range b {
			b[i] = 0xFF
		}
	}
	return b
}

func c18KeyRun(c c18Key, v *vlib.Verdict) {
	v.NonTrivial = true
	vlib.Guard(v, func() {
		switch c.Kind {
		case 0:
			v.Label("dh-public-text")
			var k DHPublicKey
			copy(k[:], c.bytes(32))
			got, err := ParseDHPublicKey(k.String())
			if err != nil || *got != k {
				v.Failf("C18:roundtrip-mismatch:keys.DHPublicKey", "String/ParseDHPublicKey: err=%v", err)
			}
		case 1:
			v.Label("dh-private-pem")
			var kp X25519KeyPair
			copy(kp.Private[:], c.bytes(32))
			kp.PublicFromPrivate()
			var buf bytes.Buffer
			if err := EncodeDHKeyToPEM(&buf, &kp); err != nil {
				v.Failf("C18:encode-rejects-representable:keys.DHPrivateKey", "%v", err)
				return
			}
			if buf.String() != kp.Private.String() {
				v.Failf("C18:roundtrip-mismatch:keys.DHPrivateKey:String", "EncodeDHKeyToPEM and DHPrivateKey.String disagree")
				return
			}
			p, rest := pem.Decode(buf.Bytes())
			if p == nil || len(rest) != 0 {
				v.Failf("C18:decode-rejects-own-encoding:keys.DHPrivateKey", "pem.Decode: block=%v rest=%d", p != nil, len(rest))
				return
			}
			got, err := DHKeyFromPEM(p)
			if err != nil || got.Private != kp.Private || got.Public != kp.Public {
				v.Failf("C18:roundtrip-mismatch:keys.DHPrivateKey", "DHKeyFromPEM: err=%v", err)
			}
		case 2:
			v.Label("signing-public-text")
			var k SigningPublicKey
			copy(k[:], c.bytes(32))
			got, err := ParseSigningPublicKey(k.String())
			if err != nil || *got != k {
				v.Failf("C18:roundtrip-mismatch:keys.SigningPublicKey", "String/ParseSigningPublicKey: err=%v", err)
			}
		case 3:
			v.Label("signing-private-pem")
			var kp SigningKeyPair
			copy(kp.Private[:], c.bytes(32))
			kp.PublicFromPrivate()
			var buf bytes.Buffer
			if err := EncodeSigningKeyToPEM(&buf, &kp); err != nil {
				v.Failf("C18:encode-rejects-representable:keys.SigningPrivateKey", "%v", err)
				return
			}
			got, err := ReadSigningKeyPEM(buf.Bytes())
			if err != nil || got.Private != kp.Private || got.Public != kp.Public {
				v.Failf("C18:roundtrip-mismatch:keys.SigningPrivateKey", "ReadSigningKeyPEM: err=%v", err)
			}
		default:
			v.Label("kem")
			seed := c.bytes(MlKem512KeySeedSize)
			kp, err := GenerateKEMKeyPairFromSeed(seed)
			if err != nil {
				v.Failf("C18:encode-rejects-representable:keys.KEMSeed", "GenerateKEMKeyPairFromSeed: %v", err)
				return
			}
			// seed <-> PEM
			var buf bytes.Buffer
			if err := EncodeKEMKeyToPEM(&buf, *kp); err != nil {
				v.Failf("C18:encode-rejects-representable:keys.KEMSeed", "%v", err)
				return
			}
			p, _ := pem.Decode(buf.Bytes())
			if p == nil {
				v.Failf("C18:decode-rejects-own-encoding:keys.KEMSeed", "pem.Decode finds no block")
				return
			}
			kp2, err := KEMKeyFromPEM(p)
			if err != nil || !kp2.Public.Equal(kp.Public) || !kp2.Private.Equal(kp.Private) || !bytes.Equal(kp2.Seed, seed) {
				v.Failf("C18:roundtrip-mismatch:keys.KEMSeed", "KEMKeyFromPEM: err=%v", err)
				return
			}
			// public key <-> text
			text := KEMPublicKeyToString(&kp.Public)
			pub, err := ParseKEMPublicKey(text)
			if err != nil || !(*pub).Equal(kp.Public) {
				v.Failf("C18:roundtrip-mismatch:keys.KEMPublicKey", "KEMPublicKeyToString/ParseKEMPublicKey: err=%v", err)
				return
			}
			// public key <-> bytes
			raw, err := kp.Public.MarshalBinary()
			if err != nil {
				v.Failf("C18:encode-rejects-representable:keys.KEMPublicKey", "%v", err)
				return
			}
			pub2, err := ParseKEMPublicKeyFromBytes(raw)
			if err != nil || !(*pub2).Equal(kp.Public) {
				v.Failf("C18:roundtrip-mismatch:keys.KEMPublicKey:bytes", "ParseKEMPublicKeyFromBytes: err=%v", err)
				return
			}
			// private key <-> bytes
			priv, err := kp.MarshalBinary()
			if err != nil {
				v.Failf("C18:encode-rejects-representable:keys.KEMPrivateKey", "%v", err)
				return
			}
			kp3, err := ParseKEMPrivateKeyFromBytes(priv)
			if err != nil || !kp3.Private.Equal(kp.Private) || !kp3.Public.Equal(kp.Public) {
				v.Failf("C18:roundtrip-mismatch:keys.KEMPrivateKey", "ParseKEMPrivateKeyFromBytes: err=%v", err)
			}
		}
	})
}

func TestVerifC18KeysEncDec(t *testing.T) {
	vlib.Drive(t, vlib.Spec[c18Key]{ID: "C18", Quick: 4000, Run: c18KeyRun, Gen: func(t *rapid.T) c18Key {
		return c18Key{Kind: rapid.SampledFrom([]int{0, 0, 1, 2, 2, 3, 4}).Draw(t, "kind"), Fill: rapid.SampledFrom([]int{0, 0, 0, 0, 1, 2}).Draw(t, "fill"), Seed: rapid.Uint64().Draw(t, "seed")}
	}})
}

// (B) text public keys in non-canonical spellings: whatever the parser accepts
// must re-encode to something that parses to the same key.
type c18KeyText struct {
	Kind  int    `json:"kind"` // 0 dh, 1 signing
	Seed  uint64 `json:"seed"`
	Style int    `json:"style"` // 0 canonical, 1 newline inside, 2 trailing newline, 3 non-zero padding bits, 4 no padding, 5 url alphabet, 6 extra byte, 7 short, 8 upper-case prefix, 9 leading space
}

func c18KeyTextRun(c c18KeyText, v *vlib.Verdict) {
	raw := vlib.Fill(c.Seed, 32)
	b64 := base64.StdEncoding.EncodeToString(raw)
	switch c.Style {
	case 1:
		b64 = b64[:10] + "\n" + b64[10:]
	case 2:
		b64 += "\n"
	case 3:
		// 32 bytes -> 43 significant characters + "=": the last character carries 4 unused bits
		const alpha = "ABCDEFGHIJKLMNOPQRSTUVWXYZabcdefghijklmnopqrstuvwxyz0123456789+/"
		i := strings.IndexByte(alpha, b64[42])
		b64 = b64[:42] + string(alpha[i|1]) + b64[43:]
	case 4:
		b64 = strings.TrimRight(b64, "=")
	case 5:
		b64 = base64.URLEncoding.EncodeToString(raw)
	case 6:
		b64 = base64.StdEncoding.EncodeToString(append(raw, 7))
	case 7:
		b64 = base64.StdEncoding.EncodeToString(raw[:31])
	}
	prefix := DHPublicKeyPrefix
	if c.Kind == 1 {
		prefix = SigningPublicKeyPrefix
	}
	if c.Style == 8 {
		prefix = strings.ToUpper(prefix)
	}
	text := prefix + b64
	if c.Style == 9 {
		text = " " + text
	}
	v.Labelf("style=%d", c.Style)
	vlib.Guard(v, func() {
		var k1, k2 [32]byte
		var re string
		if c.Kind == 0 {
			p, err := ParseDHPublicKey(text)
			if err != nil {
				v.Label("decoder-rejected")
				return
			}
			k1 = *p
			re = p.String()
			p2, err := ParseDHPublicKey(re)
			if err != nil {
				v.Failf("C18:redecode-fails:keys.DHPublicKey", "%q accepted, re-encoding %q rejected: %v", text, re, err)
				return
			}
			k2 = *p2
		} else {
			p, err := ParseSigningPublicKey(text)
			if err != nil {
				v.Label("decoder-rejected")
				return
			}
			k1 = *p
			re = p.String()
			p2, err := ParseSigningPublicKey(re)
			if err != nil {
				v.Failf("C18:redecode-fails:keys.SigningPublicKey", "%q accepted, re-encoding %q rejected: %v", text, re, err)
				return
			}
			k2 = *p2
		}
		v.Label("decoder-accepted")
		if re != text {
			v.NonTrivial = true
			v.Label("accepted-non-canonical")
		}
		if k1 != k2 {
			v.Failf("C18:reencode-changes-value:keys.PublicKeyText", "%q parses to a key whose text form parses to a different key", text)
		}
	})
}

func TestVerifC18KeysTextDecEncDec(t *testing.T) {
	vlib.Drive(t, vlib.Spec[c18KeyText]{ID: "C18", Quick: 2000, Run: c18KeyTextRun, Gen: func(t *rapid.T) c18KeyText {
		return c18KeyText{Kind: rapid.IntRange(0, 1).Draw(t, "kind"), Seed: rapid.Uint64().Draw(t, "seed"), Style: rapid.IntRange(0, 9).Draw(t, "style")}
	}})
}
