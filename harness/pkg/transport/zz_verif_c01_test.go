//go:build go1.25

package transport

// C01 — a handshake completes only with a peer that proved its certified key,
// under every verification policy, in both modes and both directions.
//
// The counterpart is the REAL endpoint code with a deliberately inconsistent
// configuration (identity attributes below); the oracle is a policy predicate
// over the ground truth of how the identity was built.

import (
	"bytes"
	"crypto/ed25519"
	"crypto/rand"
	"encoding/binary"
	"encoding/hex"
	"errors"
	"fmt"
	"net"
	"runtime"
	"runtime/debug"
	"sort"
	"strings"
	"sync"
	"testing"
	"time"

	"golang.org/x/crypto/curve25519"
	"pgregory.net/rapid"

	"hop.computer/hop/authkeys"
	"hop.computer/hop/certs"
	"hop.computer/hop/cyclist"
	"hop.computer/hop/keys"
	"hop.computer/hop/pkg/verifhook"
	"verif.local/vlib"
	"verif.local/vlib/simnet"
)

// identity of the counterpart (the party being judged)
type c01Ident struct {
	Chain    int  `json:"chain"`    // 0 trusted chain, 1 chain under an untrusted root, 2 self-signed leaf, 3 trusted leaf but unrelated intermediate presented, 4 trusted leaf, no intermediate presented, 5 leaf properly issued by a forged intermediate that names the trusted root as its parent but is not signed by it, 6 bait (below), 7 hand-signed world with per-element validity windows (below)
	Time     int  `json:"time"`     // 0 valid, 1 expired, 2 not yet valid
	TypeLeaf bool `json:"typeLeaf"` // false: an intermediate-typed certificate is presented as the leaf
	Name     int  `json:"name"`     // names on the leaf, see c01IdentNames: 0 the expected label (raw type), 1 another label, 2 same label but DNS type, 3 several names, the expected raw label last, 4 several names without the expected raw label, 5 only the explicitly empty raw name, 6 no name at all, 7 only the empty DNS name, 8 the expected label and the empty raw name
	HoldsKey bool `json:"holdsKey"` // false: presents a certificate for a key it does not hold (impostor)
	InSet    bool `json:"inSet"`    // the certified key is in the judge's authorized-key set
	Removed  bool `json:"removed"`  // the certified key WAS added to the judge's authorized-key set and then removed again
	// Chain == 6 ("bait"): a hand-made certificate whose Parent field is the fingerprint of the certificate presented in
	// the intermediate slot; Bait says which certificate that is: 1 the untrusted root, 2 the untrusted intermediate, 3 a
	// leaf of the untrusted world, 4 the TRUSTED root, 5 the trusted intermediate. Never signed by a trusted key.
	Bait       int  `json:"bait,omitempty"`
	BaitSigned bool `json:"baitSigned,omitempty"` // Bait 1 and 2: the hand-made certificate is signed with the presented certificate's key
	// Chain == 7 ("hand-signed world"): a root, an intermediate and the leaf written and signed by hand with the proper
	// keys (the issuing API clamps every certificate to its parent's lifetime; somebody who still holds the key of an
	// expired CA certificate is not bound by that), so that every element has its OWN validity window: the leaf's is Time,
	// the intermediate's InterTime, the root's RootTime (0 valid at the judge's clock, 1 expired, 2 not yet valid). The root
	// is in the judge's trust store whenever the policy has a store. InterWhere: 0 the intermediate is presented in the
	// handshake, 1 it is held in the judge's store and not presented, 2 both.
	RootTime   int `json:"rootTime,omitempty"`
	InterTime  int `json:"interTime,omitempty"`
	InterWhere int `json:"interWhere,omitempty"`
	// LowOrder > 0: the certificate names the (LowOrder-1)-th small-order X25519 point (c01LowOrderPoints) as its public
	// key. Nobody holds a private key for such a point: every scalar maps it to the all-zero string. With HoldsKey the
	// counterpart does the best anybody can - it uses 32 zero bytes as every static Diffie-Hellman result (through the
	// keys.Exchangable interface the endpoints take their static key by); without, it uses an unrelated key pair.
	LowOrder int `json:"lowOrder,omitempty"`
}

// verification policy of the judging party
type c01Policy struct {
	Nil      bool `json:"nil"`      // server only: ClientVerify == nil
	Store    bool `json:"store"`    // trust store contains the honest root
	AuthKeys bool `json:"authKeys"` // AuthKeysAllowed
	Skip     bool `json:"skip"`     // InsecureSkipVerify
	Name     int  `json:"name"`     // expected name, see c01PolicyName: 0 zero, 1 the label (raw), 2 same label DNS type, 3 other label, 4 certs.RawStringName(""), 5 certs.DNSName(""), 6 certs.Name{Label: []byte{}}, 7 the other label that some leaves carry
	Callback int  `json:"cb"`       // 0 none, 1 accepting, 2 rejecting
}

type c01Case struct {
	Hidden      bool      `json:"hidden"`
	JudgeClient bool      `json:"judgeIsClient"` // true: the client judges the server; false: the server judges the client
	Ident       c01Ident  `json:"ident"`
	Policy      c01Policy `json:"policy"`
}

const (
	c01Label      = "peer.verif.test"
	c01OtherLabel = "somebody-else.verif.test"
)

// c01IdentNames: the names on the counterpart's leaf, by code (c01Ident.Name).
func c01IdentNames(k int) []certs.Name {
	raw, dns := certs.RawStringName, certs.DNSName
	emptyRaw := certs.Name{Label: []byte{}, Type: certs.TypeRaw}
	switch k {
	case 0:
		return []certs.Name{raw(c01Label)}
	case 1:
		return []certs.Name{raw(c01OtherLabel)}
	case 2:
		return []certs.Name{dns(c01Label)}
	case 3:
		return []certs.Name{raw(c01OtherLabel), dns(c01Label), raw(c01Label)}
	case 4:
		return []certs.Name{raw(c01OtherLabel), dns(c01Label), dns(c01OtherLabel)}
	case 5:
		return []certs.Name{emptyRaw}
	case 6:
		return nil
	case 7:
		return []certs.Name{dns("")}
	default:
		return []certs.Name{raw(c01Label), emptyRaw}
	}
}

const c01IdentNameKinds = 9

// c01PolicyName: the judge's expected name, by code (c01Policy.Name).
func c01PolicyName(k int) certs.Name {
	switch k {
	case 1:
		return certs.RawStringName(c01Label)
	case 2:
		return certs.DNSName(c01Label)
	case 3:
		return certs.RawStringName("not-this-one.verif.test")
	case 4:
		return certs.RawStringName("") // what a caller gets from an empty configuration string
	case 5:
		return certs.DNSName("")
	case 6:
		return certs.Name{Label: []byte{}, Type: certs.TypeRaw}
	case 7:
		return certs.RawStringName(c01OtherLabel)
	}
	return certs.Name{}
}

const c01PolicyNameKinds = 8

// c01NameGiven is the documented meaning of "an expected name is configured" (ASSUMPTION, stated in the propdef):
// VerifyConfig.Name is "compared to the certificate when non-empty", VerifyOptions.Name "if it is non-zero", and the
// zero value is certs.Name{} - nil label, type 0; "When Label is []byte{} (0-length, non-nil), it does not count as
// zero. It's an explicitly empty, raw name" (certs.Name.IsZero). A typed name is never zero, whatever its label.
func c01NameGiven(n certs.Name) bool { return !(n.Label == nil && n.Type == certs.TypeRaw) }

// c01NameOK: reference decision of the name check: no name given, or the leaf carries a name with the same type and
// the same label bytes (certs.Certificate.MatchesName: "matches the provided name").
func c01NameOK(policyName, identName int) bool {
	want := c01PolicyName(policyName)
	if !c01NameGiven(want) {
		return true
	}
	for _, have := range c01IdentNames(identName) {
		if have.Type == want.Type && string(have.Label) == string(want.Label) {
			return true
		}
	}
	return false
}

type c01Built struct {
	key     *keys.X25519KeyPair // the key the counterpart actually uses (nil when it uses exch)
	exch    keys.Exchangable    // low-order certified key: the all-zero "agreement"
	leaf    *certs.Certificate
	inter   *certs.Certificate
	certKey keys.DHPublicKey // the key named in the certificate
	// Chain 7: the hand-signed root (goes into the judge's trust store) and intermediate (InterWhere 1, 2: goes into the store too)
	hmRoot, hmInter *certs.Certificate
}

// exchanger: what the counterpart computes its static Diffie-Hellman results with.
func (b c01Built) exchanger() keys.Exchangable {
	if b.exch != nil {
		return b.exch
	}
	return b.key
}

// c01LowOrderPoints: the small-order points of Curve25519 in X25519's encoding (the list of cr.yp.to/ecdh.html#validate as
// used by libsodium's blacklist: 0, 1, the two points of order 8, p-1, p, p+1 - the last two being non-canonical encodings
// of 0 and 1 - and each of them again with the ignored top bit set). Every scalar maps each of them to the all-zero string;
// c01SelfTest checks that against x/crypto's X25519.
var c01LowOrderPoints = func() []keys.DHPublicKey {
	hexes := []string{
		"0000000000000000000000000000000000000000000000000000000000000000",
		"0100000000000000000000000000000000000000000000000000000000000000",
		"e0eb7a7c3b41b8ae1656e3faf19fc46ada098deb9c32b1fd866205165f49b800",
		"5f9c95bca3508c24b1d0b1559c83ef5b04445cc4581c8e86d8224eddd09f1157",
		"ecffffffffffffffffffffffffffffffffffffffffffffffffffffffffffff7f",
		"edffffffffffffffffffffffffffffffffffffffffffffffffffffffffffff7f",
		"eeffffffffffffffffffffffffffffffffffffffffffffffffffffffffffff7f",
	}
	var out []keys.DHPublicKey
	for _, h := range hexes {
		b, err := hex.DecodeString(h)
		if err != nil || len(b) != 32 {
			panic("verif fixture: bad low-order point " + h)
		}
		out = append(out, keys.DHPublicKey(b))
	}
	// X25519 ignores the top bit of the u-coordinate: the same seven points with that bit set
	for _, pt := range out[:7] {
		pt[31] |= 0x80
		out = append(out, pt)
	}
	return out
}()

// c01NullExchanger is the static "key" of a counterpart whose certificate names a low-order point: it shares that point
// and agrees on 32 zero bytes with everybody (which is what x25519(k, point) is for every k).
type c01NullExchanger struct{ pub keys.DHPublicKey }

func (e *c01NullExchanger) Share() []byte                  { return e.pub[:] }
func (e *c01NullExchanger) Agree([]byte) ([]byte, error) { return make([]byte, 32), nil }

// c01Window: a validity window relative to the judge's clock (vWorld.Now): 0 contains it, 1 ended before it, 2 begins after it.
func c01Window(k int) (from, to time.Time) {
	now := vGetWorld().Now
	switch k {
	case 1:
		return now.Add(-72 * time.Hour), now.Add(-time.Hour)
	case 2:
		return now.Add(24 * time.Hour), now.Add(96 * time.Hour)
	}
	return now.Add(-time.Hour), now.Add(48 * time.Hour)
}

// c01HandSignedCA: the root and the intermediate of a hand-signed world (Chain 7), one per (root window, intermediate
// window), made once per process. Both are properly signed (the root by itself, the intermediate by the root's key).
type c01HandCA struct {
	root, inter *certs.Certificate
	interKey    *keys.SigningKeyPair
}

var c01HandCAs = map[[2]int]*c01HandCA{}

func c01HandSignedCA(rootTime, interTime int) *c01HandCA {
	k := [2]int{rootTime, interTime}
	if ca := c01HandCAs[k]; ca != nil {
		return ca
	}
	rk, ik := keys.GenerateNewSigningKeyPair(), keys.GenerateNewSigningKeyPair()
	rf, rt := c01Window(rootTime)
	itf, itt := c01Window(interTime)
	ca := &c01HandCA{interKey: ik}
	ca.root = c01HandMade(certs.Root, keys.DHPublicKey(rk.Public), []certs.Name{certs.RawStringName("hand-signed-root")}, &certs.Certificate{}, rk, rf, rt)
	ca.inter = c01HandMade(certs.Intermediate, keys.DHPublicKey(ik.Public), []certs.Name{certs.RawStringName("hand-signed-intermediate")}, ca.root, rk, itf, itt)
	c01HandCAs[k] = ca
	return ca
}

var (
	c01Other        *vWorld // an unrelated certificate world (untrusted root)
	c01OtherRootKey *keys.SigningKeyPair
	c01OtherIntKey  *keys.SigningKeyPair
	c01OtherLeaf    *certs.Certificate
)

func c01OtherWorld() *vWorld {
	if c01Other == nil {
		w := &vWorld{}
		mk := func(name string, parent *certs.Certificate) (*certs.Certificate, *keys.SigningKeyPair) {
			k := keys.GenerateNewSigningKeyPair()
			id := certs.Identity{PublicKey: k.Public, Names: []certs.Name{certs.RawStringName(name)}}
			var c *certs.Certificate
			var err error
			if parent == nil {
				c, err = certs.SelfSignRoot(&id, k)
			} else {
				c, err = certs.IssueIntermediate(parent, &id)
			}
			vMust(err)
			vMust(c.ProvideKey((*[32]byte)(&k.Private)))
			return c, k
		}
		w.Root, c01OtherRootKey = mk("other-root", nil)
		w.Inter, c01OtherIntKey = mk("other-intermediate", w.Root)
		_, c01OtherLeaf = vLeaf(w.Inter, "other-leaf")
		c01Other = w
	}
	return c01Other
}

var c01Forged *certs.Certificate

// c01ForgedInter: an intermediate issued by an impostor's own root key whose Parent field was overwritten
// with the fingerprint of the TRUSTED root (so the signature does not verify under the trusted root's key).
func c01ForgedInter() *certs.Certificate {
	if c01Forged != nil {
		return c01Forged
	}
	w := vGetWorld()
	fakeRoot := vSigningCert("forger-root", nil)
	k := keys.GenerateNewSigningKeyPair()
	inter, err := certs.IssueIntermediate(fakeRoot, &certs.Identity{PublicKey: k.Public, Names: []certs.Name{certs.RawStringName("forged-intermediate")}})
	vMust(err)
	inter.Parent = w.Root.Fingerprint
	raw, err := inter.Marshal()
	vMust(err)
	re := &certs.Certificate{}
	_, err = re.ReadFrom(bytes.NewReader(raw))
	vMust(err)
	re.ProvideKey((*[32]byte)(&k.Private))
	c01Forged = re
	return re
}

// c01HandMade builds a certificate without the issuing API: the fields are written by hand, Parent names an arbitrary
// certificate, and the signature is either absent (zero) or made with signer's key. It is serialised and parsed again,
// so that it is exactly what a peer could put on the wire.
func c01HandMade(typ certs.CertificateType, key keys.DHPublicKey, names []certs.Name, parent *certs.Certificate, signer *keys.SigningKeyPair, from, to time.Time) *certs.Certificate {
	c := &certs.Certificate{Version: certs.Version, Type: typ, IssuedAt: from, ExpiresAt: to, IDChunk: certs.IDChunk{Blocks: names}, PublicKey: key, Parent: parent.Fingerprint}
	raw, err := c.Marshal()
	vMust(err)
	if signer != nil {
		sig := ed25519.Sign(ed25519.NewKeyFromSeed(signer.Private[:]), raw[:len(raw)-certs.SignatureLen])
		copy(c.Signature[:], sig)
		raw, err = c.Marshal()
		vMust(err)
	}
	re := &certs.Certificate{}
	_, err = re.ReadFrom(bytes.NewReader(raw))
	vMust(err)
	return re
}

func c01Build(id c01Ident) c01Built {
	w := vGetWorld()
	certKP := keys.GenerateNewX25519KeyPair()
	if id.LowOrder > 0 {
		// the certificate names a small-order point; there is no private key (issuers do not look at the key bytes)
		certKP = &keys.X25519KeyPair{Public: c01LowOrderPoints[(id.LowOrder-1)%len(c01LowOrderPoints)]}
	}
	names := c01IdentNames(id.Name)
	ident := &certs.Identity{PublicKey: certKP.Public, Names: names}
	// the issuing API requires the parent to be valid at issuance time; the world's CA certificates were
	// issued at T0 (= w.Now - 1 min), so every leaf is issued inside [T0, ...)
	t0 := w.Inter.IssuedAt
	if o := c01OtherWorld().Inter.IssuedAt; o.After(t0) {
		t0 = o
	}
	issuedAt := t0
	validity := 48 * time.Hour
	switch id.Time {
	case 1:
		validity = 5 * time.Second // expired well before w.Now
	case 2:
		issuedAt = w.Now.Add(24 * time.Hour)
	}
	var b c01Built
	var err error
	parent := w.Inter
	if id.Chain == 1 {
		parent = c01OtherWorld().Inter
	}
	if id.Chain == 5 {
		parent = c01ForgedInter()
	}
	switch {
	case id.Chain == 7:
		// hand-signed world: every element properly signed, each with its own validity window
		ca := c01HandSignedCA(id.RootTime, id.InterTime)
		b.hmRoot = ca.root
		typ := certs.Leaf
		if !id.TypeLeaf {
			typ = certs.Intermediate
		}
		lf, lt := c01Window(id.Time)
		b.leaf = c01HandMade(typ, certKP.Public, names, ca.inter, ca.interKey, lf, lt)
		if id.InterWhere != 1 {
			b.inter = ca.inter
		}
		if id.InterWhere != 0 {
			b.hmInter = ca.inter
		}
	case id.Chain == 6:
		// bait: Parent names whatever is presented in the intermediate slot
		o := c01OtherWorld()
		var signer *keys.SigningKeyPair
		switch id.Bait {
		case 2:
			b.inter, signer = o.Inter, c01OtherIntKey
		case 3:
			b.inter = c01OtherLeaf
		case 4:
			b.inter = w.Root
		case 5:
			b.inter = w.Inter
		default:
			b.inter, signer = o.Root, c01OtherRootKey
		}
		if !id.BaitSigned {
			signer = nil
		}
		typ := certs.Leaf
		if !id.TypeLeaf {
			typ = certs.Intermediate
		}
		b.leaf = c01HandMade(typ, certKP.Public, names, b.inter, signer, issuedAt, issuedAt.Add(validity))
	case id.Chain == 2:
		// self-signed leaf (always "valid now": SelfSignLeaf has no validity knobs) unless a non-leaf type is wanted
		b.leaf, err = certs.SelfSignLeaf(ident)
	case !id.TypeLeaf:
		// an intermediate-typed certificate (signed by the root of the respective world) presented as the leaf
		root := w.Root
		if id.Chain == 1 {
			root = c01OtherWorld().Root
		}
		b.leaf, err = certs.IssueIntermediate(root, ident)
	default:
		b.leaf, err = certs.IssueLeafAt(parent, ident, issuedAt, validity)
	}
	vMust(err)
	switch id.Chain {
	case 0:
		b.inter = w.Inter
	case 1:
		b.inter = c01OtherWorld().Inter
	case 3:
		b.inter = c01OtherWorld().Inter
	case 5:
		b.inter = c01ForgedInter()
	}
	b.certKey = certKP.Public
	b.key = certKP
	if id.LowOrder > 0 {
		b.key, b.exch = nil, &c01NullExchanger{pub: certKP.Public}
	}
	if !id.HoldsKey {
		b.key, b.exch = keys.GenerateNewX25519KeyPair(), nil
	}
	return b
}

// c01Trust puts the CA certificates of a hand-signed world (Chain 7) into the judge's trust store: the root always, the
// intermediate when the case says the judge holds it. A policy without a store trusts neither.
func c01Trust(vc *VerifyConfig, p c01Policy, b c01Built) {
	if vc == nil || !p.Store {
		return
	}
	if b.hmRoot != nil {
		vc.Store.AddCertificate(b.hmRoot)
	}
	if b.hmInter != nil {
		vc.Store.AddCertificate(b.hmInter)
	}
}

// c01ServerIdentity makes the server present b. A server whose static key is not a keys.X25519KeyPair (the null exchanger
// of a low-order certificate) is configured through the certificate callbacks, exactly as Server.init builds them from the
// static fields.
func c01ServerIdentity(scfg *ServerConfig, b c01Built) {
	if b.exch == nil {
		scfg.KeyPair, scfg.Certificate, scfg.Intermediate = b.key, b.leaf, b.inter
		return
	}
	tc := &Certificate{Exchanger: b.exch, KEMKeyPair: scfg.KEMKeyPair, Leaf: b.leaf}
	var err error
	tc.RawLeaf, err = b.leaf.Marshal()
	vMust(err)
	if b.inter != nil {
		tc.RawIntermediate, err = b.inter.Marshal()
		vMust(err)
	}
	for _, n := range b.leaf.IDChunk.Blocks {
		tc.HostNames = append(tc.HostNames, n.String())
	}
	scfg.KeyPair, scfg.Certificate, scfg.Intermediate = nil, nil, nil
	scfg.GetCertificate = func(ClientHandshakeInfo) (*Certificate, error) { return tc, nil }
	scfg.GetCertList = func() ([]*Certificate, error) { return []*Certificate{tc}, nil }
}

// c01Truth: does the identity satisfy the policy (ground truth from construction)?
func c01Truth(id c01Ident, p c01Policy, b c01Built) (ok bool, why string) {
	if id.LowOrder > 0 {
		// proof of possession is impossible: the point has no private key, its "shared secret" is public
		return false, "certified-key-is-a-low-order-point"
	}
	if !id.HoldsKey {
		return false, "does-not-hold-certified-key"
	}
	if p.Nil {
		return true, "no-verification-configured"
	}
	if p.Callback == 2 {
		return false, "additional-callback-rejects"
	}
	if p.Skip {
		return true, "verification-skipped"
	}
	typeLeaf := id.TypeLeaf || id.Chain == 2
	nameOK := c01NameOK(p.Name, id.Name)
	if p.AuthKeys && typeLeaf && nameOK && id.InSet {
		return true, "authorized-key"
	}
	timeOK := id.Time == 0
	if id.Chain == 2 {
		timeOK = true
	}
	if !id.TypeLeaf && id.Chain != 2 {
		// an intermediate-typed certificate issued through IssueIntermediate has the default validity window
		timeOK = true
	}
	if id.Chain == 7 {
		timeOK = id.Time == 0 // a hand-made certificate has exactly the window asked for, whatever its type
	}
	if p.Store && typeLeaf && nameOK && timeOK && id.Chain == 0 {
		return true, "trusted-chain"
	}
	if p.Store && typeLeaf && nameOK && timeOK && id.Chain == 7 && id.InterTime == 0 && id.RootTime == 0 {
		// properly signed up to a root the judge trusts, every element valid at the judge's clock
		return true, "trusted-chain"
	}
	switch {
	case !typeLeaf:
		return false, "not-a-leaf"
	case !nameOK:
		return false, "name-mismatch"
	case (id.Chain != 0 && id.Chain != 7) || !p.Store:
		return false, "untrusted-chain"
	case !timeOK:
		return false, "time-invalid"
	case id.Chain == 7 && id.InterTime != 0:
		return false, "intermediate-time-invalid"
	case id.Chain == 7:
		return false, "root-time-invalid"
	default:
		return false, "time-invalid"
	}
}

func c01Verify(p c01Policy, b c01Built) *VerifyConfig {
	if p.Nil {
		return nil
	}
	w := vGetWorld()
	vc := &VerifyConfig{CurrentTime: w.Now, AuthKeysAllowed: p.AuthKeys, InsecureSkipVerify: p.Skip}
	if p.Store {
		vc.Store = w.store()
	} else {
		vc.Store = certs.Store{}
	}
	vc.AuthKeys = authkeys.NewSyncAuthKeySet()
	vc.AuthKeys.AddKey(keys.GenerateNewX25519KeyPair().Public) // some unrelated key
	vc.Name = c01PolicyName(p.Name)
	switch p.Callback {
	case 1:
		vc.AddVerifyCallback = func(*certs.Certificate) error { return nil }
	case 2:
		vc.AddVerifyCallback = func(*certs.Certificate) error { return fmt.Errorf("rejected by additional verify callback") }
	}
	return vc
}

type c01Result struct {
	cliErr    error
	accepted  bool
	delivered bool
	timedOut  bool
}

func c01Scenario(c c01Case, v *vlib.Verdict) (r c01Result) {
	w := vGetWorld()
	b := c01Build(c.Ident)
	vc := c01Verify(c.Policy, b)
	if vc != nil && c.Ident.InSet {
		vc.AuthKeys.AddKey(b.certKey)
	}
	if vc != nil && c.Ident.Removed && !c.Ident.InSet {
		vc.AuthKeys.AddKey(b.certKey)
		vc.AuthKeys.RemoveKey(b.certKey)
	}
	c01Trust(vc, c.Policy, b)
	scfg := w.ServerConfig(c.Hidden)
	ccfg := w.ClientConfig(c.Hidden, false)
	if c.JudgeClient {
		// the server is the counterpart with the inconsistent identity; the client judges it
		c01ServerIdentity(&scfg, b)
		ccfg.Verify = *vc
	} else {
		ccfg.Exchanger, ccfg.Leaf, ccfg.Intermediate = b.exchanger(), b.leaf, b.inter
		scfg.ClientVerify = vc
		ccfg.Verify.Name = w.ServerName
	}
	env := vStartServer(scfg)
	defer env.Stop()
	cli, _ := env.NewClient(vCliAddr, ccfg)
	hsDone := make(chan error, 1)
	go func() { hsDone <- cli.Handshake() }()
	select {
	case r.cliErr = <-hsDone:
	case <-time.After(20 * time.Second):
		cli.Close()
		r.cliErr = <-hsDone
		if r.cliErr == nil {
			r.cliErr = fmt.Errorf("handshake did not return within 20 virtual seconds")
		}
		r.timedOut = true
	}
	h, err := env.Srv.AcceptTimeout(2 * time.Second)
	if err == nil && h != nil {
		r.accepted = true
		if r.cliErr == nil {
			msg := []byte("c01 probe payload from the client")
			if cli.WriteMsg(msg) == nil {
				buf := make([]byte, 200)
				h.SetReadDeadline(time.Now().Add(2 * time.Second))
				if _, err := h.ReadMsg(buf); err == nil { // ANY message handed to the application counts, an empty one too
					r.delivered = true
				}
			}
		}
	}
	cli.Close()
	return r
}

func c01Run(t *testing.T) func(c c01Case, v *vlib.Verdict) {
	return func(c c01Case, v *vlib.Verdict) {
		var r c01Result
		res := vlib.Bubble(t, 60*time.Second, func() { r = c01Scenario(c, v) })
		if res.Hung {
			v.Inconclusive = "bubble hung in real time (C01)"
			return
		}
		if res.Panic != "" {
			if res.Leak() || res.Deadlock() {
				v.Failf("C01:goroutines-left:"+fmt.Sprint(vlib.BlockedHopFrames(res.Stacks)), "after closing client and server goroutines remain: %v", vlib.BlockedHopFrames(res.Stacks))
			} else {
				v.Failf(vlib.PanicSig(res.Panic, res.Stacks), "panic: %s", res.Panic)
			}
			return
		}
		mode := map[bool]string{false: "discoverable", true: "hidden"}[c.Hidden]
		side := map[bool]string{true: "client-judges-server", false: "server-judges-client"}[c.JudgeClient]
		_, why := c01Truth(c.Ident, c.Policy, c01Built{})
		v.Label(mode + ":" + side)
		v.Label("expected:" + why)
		c01NameLabels(v, c.Ident, c.Policy)
		v.NonTrivial = !c01Honest(c.Ident)
		v.Key = fmt.Sprintf("%+v", c)
		c01Judge(v, c.Hidden, c.JudgeClient, c.Ident, c.Policy, r, "", true, "")
	}
}

func c01Honest(id c01Ident) bool {
	id.InSet = false
	if id.Chain == 7 {
		// a hand-signed world whose every element is valid is as good as the issued one, wherever the intermediate is held
		id.Chain, id.InterWhere = 0, 0
	}
	return id == c01Ident{TypeLeaf: true, HoldsKey: true}
}

// c01NameLabels classifies the degenerate-but-legal expected names.
func c01NameLabels(v *vlib.Verdict, id c01Ident, p c01Policy) {
	if p.Nil || p.Skip {
		return
	}
	want := c01PolicyName(p.Name)
	if c01NameGiven(want) && len(want.Label) == 0 {
		v.Label(fmt.Sprintf("expected-name:empty-label-but-given:leaf-carries-it=%v", c01NameOK(p.Name, id.Name)))
	}
	if c01NameGiven(want) && len(c01IdentNames(id.Name)) > 1 {
		v.Label(fmt.Sprintf("expected-name:leaf-with-several-names:one-matches=%v", c01NameOK(p.Name, id.Name)))
	}
}

// c01Judge applies the oracle (implications only) to the outcome r of ONE handshake of the counterpart id judged under
// policy p. suffix qualifies the signatures of a family (empty for the matrix), where goes into the detail text, sanity
// says whether the honest-identity clause applies to this handshake. It returns false when a violation was reported.
func c01Judge(v *vlib.Verdict, hidden, judgeClient bool, id c01Ident, p c01Policy, r c01Result, suffix string, sanity bool, where string) bool {
	ok, why := c01Truth(id, p, c01Built{})
	mode := map[bool]string{false: "discoverable", true: "hidden"}[hidden]
	honest := c01Honest(id)
	if judgeClient {
		if r.cliErr == nil && !ok {
			v.Failf(fmt.Sprintf("C01:client-accepts-server:%s:%s%s", mode, why, suffix), "Client.Handshake succeeded although the server %s (identity %+v, policy %+v)%s", why, id, p, where)
			return false
		}
		if sanity && r.cliErr != nil && ok && honest {
			v.Failf("C01:sanity:honest-server-rejected:"+mode+suffix, "honest valid server rejected under policy %+v: %v%s", p, r.cliErr, where)
			return false
		}
		return true
	}
	// the server judges the client
	if !ok {
		if !hidden && r.accepted {
			v.Failf(fmt.Sprintf("C01:server-offers-connection:%s:%s%s", mode, why, suffix), "Accept offered a connection although the client %s (identity %+v, policy %+v)%s", why, id, p, where)
			return false
		}
		if r.delivered {
			v.Failf(fmt.Sprintf("C01:server-delivers-data:%s:%s%s", mode, why, suffix), "the server delivered application data although the client %s (identity %+v, policy %+v)%s", why, id, p, where)
			return false
		}
		if hidden && r.accepted {
			v.Label("hidden:connection-offered-before-proof(allowed)")
		}
	} else if sanity && honest && (!r.accepted || !r.delivered) {
		v.Failf("C01:sanity:honest-client-rejected:"+mode+suffix, "honest valid client not served under policy %+v: client err %v accepted %v delivered %v%s", p, r.cliErr, r.accepted, r.delivered, where)
		return false
	}
	return true
}

func c01Policies(server bool) []c01Policy {
	var out []c01Policy
	for _, store := range []bool{true, false} {
		for _, ak := range []bool{false, true} {
			for _, skip := range []bool{false, true} {
				for name := 0; name < c01PolicyNameKinds; name++ {
					for cb := 0; cb <= 2; cb++ {
						if name > 3 && cb != 0 {
							continue // the degenerate expected names are not crossed with the additional callback
						}
						out = append(out, c01Policy{Store: store, AuthKeys: ak, Skip: skip, Name: name, Callback: cb})
					}
				}
			}
		}
	}
	if server {
		out = append(out, c01Policy{Nil: true})
	}
	return out
}

func c01Idents() []c01Ident {
	honest := c01Ident{TypeLeaf: true, HoldsKey: true}
	out := []c01Ident{honest}
	add := func(f func(*c01Ident)) {
		x := honest
		f(&x)
		out = append(out, x)
		y := x
		y.InSet = true
		out = append(out, y)
	}
	add(func(i *c01Ident) {})
	add(func(i *c01Ident) { i.HoldsKey = false })
	for ch := 1; ch <= 5; ch++ {
		ch := ch
		add(func(i *c01Ident) { i.Chain = ch })
	}
	add(func(i *c01Ident) { i.Time = 1 })
	add(func(i *c01Ident) { i.Time = 2 })
	add(func(i *c01Ident) { i.TypeLeaf = false })
	add(func(i *c01Ident) { i.Name = 1 })
	add(func(i *c01Ident) { i.Name = 2 })
	add(func(i *c01Ident) { i.Chain = 2; i.HoldsKey = false })
	out = append(out, c01Ident{TypeLeaf: true, HoldsKey: true, Chain: 2, Removed: true}, c01Ident{TypeLeaf: true, HoldsKey: true, Chain: 1, Removed: true})
	add(func(i *c01Ident) { i.Chain = 1; i.Time = 1 })
	for n := 3; n < c01IdentNameKinds; n++ {
		n := n
		add(func(i *c01Ident) { i.Name = n })
	}
	for bait := 1; bait <= 5; bait++ {
		bait := bait
		add(func(i *c01Ident) { i.Chain = 6; i.Bait = bait })
	}
	add(func(i *c01Ident) { i.Chain = 6; i.Bait = 1; i.BaitSigned = true })
	// hand-signed world: each element of the chain outside its validity window ALONE, the intermediate presented by the
	// peer, held by the judge, or both; and the all-valid controls (sanity: must be served)
	one := func(f func(*c01Ident)) {
		x := honest
		f(&x)
		out = append(out, x)
	}
	add(func(i *c01Ident) { i.Chain = 7; i.InterTime = 1 })
	one(func(i *c01Ident) { i.Chain = 7; i.InterTime = 2 })
	one(func(i *c01Ident) { i.Chain = 7; i.InterTime = 1; i.InterWhere = 1 })
	one(func(i *c01Ident) { i.Chain = 7; i.InterTime = 1; i.InterWhere = 2 })
	one(func(i *c01Ident) { i.Chain = 7; i.InterTime = 2; i.InterWhere = 2 })
	one(func(i *c01Ident) { i.Chain = 7; i.RootTime = 1 })
	one(func(i *c01Ident) { i.Chain = 7; i.RootTime = 2 })
	one(func(i *c01Ident) { i.Chain = 7; i.Time = 1 })
	one(func(i *c01Ident) { i.Chain = 7 })
	one(func(i *c01Ident) { i.Chain = 7; i.InterWhere = 1 })
	one(func(i *c01Ident) { i.Chain = 7; i.InterWhere = 2 })
	// a CA-issued leaf naming each small-order point, presented by a counterpart that "agrees" on zeros
	for k := 1; k <= len(c01LowOrderPoints); k++ {
		k := k
		one(func(i *c01Ident) { i.LowOrder = k })
	}
	one(func(i *c01Ident) { i.LowOrder = 1; i.InSet = true })
	one(func(i *c01Ident) { i.LowOrder = 2; i.Chain = 2; i.InSet = true })
	return out
}

// TestVerifC01Matrix enumerates mode x direction x counterpart kind x policy.
func TestVerifC01Matrix(t *testing.T) {
	c01SelfTest(t)
	run := c01Run(t)
	if vlib.ReplayEnumerated(t, "C01", run) {
		return
	}
	rec := vlib.Open(t, "C01")
	idx := 0
	for _, hidden := range []bool{false, true} {
		for _, judgeClient := range []bool{true, false} {
			for _, id := range c01Idents() {
				for _, p := range c01Policies(!judgeClient) {
					idx++
					if !rec.Mine(idx) {
						continue
					}
					if !vlib.Each(t, rec, c01Case{Hidden: hidden, JudgeClient: judgeClient, Ident: id, Policy: p}, run) {
						return
					}
				}
			}
		}
	}
	rec.SetExhaustive(true)
	rec.Extra("enumerated", fmt.Sprintf("2 modes x 2 directions x %d counterpart kinds x %d policies (+nil policy on the server side)", len(c01Idents()), len(c01Policies(false))))
}

// c01SelfTest checks the fixtures the new dimensions rest on (machinery, never a violation).
func c01SelfTest(t *testing.T) {
	// every listed point really is of small order: the standard X25519 function (x/crypto, not the code under test)
	// refuses it for a random scalar, i.e. the shared secret anybody would compute is the all-zero string
	for i, pt := range c01LowOrderPoints {
		sc := keys.GenerateNewX25519KeyPair()
		if out, err := curve25519.X25519(sc.Private[:], pt[:]); err == nil {
			t.Fatalf("VERIF-MACHINERY point #%d %x is not a small-order point (x25519 gives %x)", i, pt, out)
		}
	}
	// the hand-signed world: with every element valid it verifies under a store holding its root (so a rejection of one
	// of its variants is due to the window that was moved, not to the hand-made signatures); the reference decision
	// refuses each moved window alone
	// (inside a bubble, like every case: the fixture world is dated by the clock of the first bubble)
	var bad string
	res := vlib.Bubble(t, 60*time.Second, func() {
		for _, where := range []int{0, 1, 2} {
			for _, x := range []struct {
				rootT, interT, leafT int
				ok                   bool
			}{{0, 0, 0, true}, {0, 1, 0, false}, {0, 2, 0, false}, {1, 0, 0, false}, {2, 0, 0, false}, {0, 0, 1, false}, {0, 0, 2, false}} {
				id := c01Ident{TypeLeaf: true, HoldsKey: true, Chain: 7, RootTime: x.rootT, InterTime: x.interT, Time: x.leafT, InterWhere: where}
				b := c01Build(id)
				vc := &VerifyConfig{Store: certs.Store{}}
				c01Trust(vc, c01Policy{Store: true}, b)
				err := vc.Store.VerifyLeaf(b.leaf, certs.VerifyOptions{PresentedIntermediate: b.inter, CurrentTime: vGetWorld().Now})
				if truth, _ := c01Truth(id, c01Policy{Store: true}, b); truth != x.ok {
					bad = fmt.Sprintf("reference decision for the hand-signed chain %+v is %v", id, truth)
				}
				if x.ok && err != nil {
					bad = fmt.Sprintf("the all-valid hand-signed chain (intermediate where=%d) does not verify: %v", where, err)
				}
			}
		}
	})
	if bad != "" || res.Hung || res.Panic != "" {
		t.Fatalf("VERIF-MACHINERY hand-signed world: %s %s", bad, res.Panic)
	}
	if n := certs.RawStringName(""); n.Label == nil || len(n.Label) != 0 {
		t.Fatalf("VERIF-MACHINERY certs.RawStringName(\"\") does not yield the explicitly empty name (label %#v): the empty-expected-name dimension would be vacuous", n.Label)
	}
	for k := 0; k < c01PolicyNameKinds; k++ {
		if want := k != 0; c01NameGiven(c01PolicyName(k)) != want {
			t.Fatalf("VERIF-MACHINERY expected-name code %d: given=%v, want %v", k, !want, want)
		}
	}
	// the reference name decision against the table it was written from
	for _, x := range []struct {
		p, id int
		ok    bool
	}{{0, 1, true}, {0, 6, true}, {1, 0, true}, {1, 2, false}, {1, 3, true}, {1, 4, false}, {2, 2, true}, {2, 3, true}, {2, 0, false}, {3, 3, false},
		{4, 0, false}, {4, 5, true}, {4, 6, false}, {4, 7, false}, {4, 8, true}, {5, 5, false}, {5, 7, true}, {6, 5, true}, {6, 1, false}, {7, 1, true}, {7, 4, true}, {7, 0, false}} {
		if c01NameOK(x.p, x.id) != x.ok {
			t.Fatalf("VERIF-MACHINERY name reference: expected name %d against leaf names %d gives %v", x.p, x.id, !x.ok)
		}
	}
}

func c01GenIdent(t *rapid.T) c01Ident {
	id := c01Ident{
		Chain:    rapid.SampledFrom([]int{0, 0, 1, 2, 3, 4, 5, 6, 7, 7}).Draw(t, "chain"),
		Time:     rapid.SampledFrom([]int{0, 0, 1, 2}).Draw(t, "time"),
		TypeLeaf: rapid.SampledFrom([]bool{true, true, true, false}).Draw(t, "typeLeaf"),
		Name:     rapid.SampledFrom([]int{0, 0, 0, 1, 2, 3, 4, 5, 6, 7, 8}).Draw(t, "name"),
		HoldsKey: rapid.SampledFrom([]bool{true, true, false}).Draw(t, "holdsKey"),
		InSet:    rapid.Bool().Draw(t, "inSet"),
		Removed:  rapid.Bool().Draw(t, "removed"),
	}
	if id.Chain == 6 {
		id.Bait = rapid.IntRange(1, 5).Draw(t, "bait")
		id.BaitSigned = id.Bait <= 2 && rapid.Bool().Draw(t, "baitSigned")
	}
	c01GenExtra(t, &id, 10)
	return id
}

// c01GenExtra draws the attributes of the later dimensions: one identity in lowOrderOneIn names a small-order point; a
// hand-signed world (Chain 7) gets a window per CA certificate and a place for its intermediate.
func c01GenExtra(t *rapid.T, id *c01Ident, lowOrderOneIn int) {
	if id.Chain == 7 {
		id.InterTime = rapid.SampledFrom([]int{0, 1, 1, 2}).Draw(t, "interTime")
		id.RootTime = rapid.SampledFrom([]int{0, 0, 0, 1, 2}).Draw(t, "rootTime")
		id.InterWhere = rapid.SampledFrom([]int{0, 0, 1, 2}).Draw(t, "interWhere")
	}
	if rapid.IntRange(1, lowOrderOneIn).Draw(t, "lowOrderDie") == 1 {
		id.LowOrder = rapid.IntRange(1, len(c01LowOrderPoints)).Draw(t, "lowOrder")
	}
}

func c01GenPolicy(t *rapid.T, server bool) c01Policy {
	p := c01Policy{
		Store:    rapid.SampledFrom([]bool{true, true, false}).Draw(t, "store"),
		AuthKeys: rapid.Bool().Draw(t, "authKeys"),
		Skip:     rapid.SampledFrom([]bool{false, false, false, true}).Draw(t, "skip"),
		Name:     rapid.SampledFrom([]int{0, 1, 1, 2, 3, 4, 4, 5, 6, 7}).Draw(t, "pname"),
		Callback: rapid.SampledFrom([]int{0, 0, 1, 2}).Draw(t, "cb"),
	}
	if server && rapid.SampledFrom([]int{0, 0, 0, 0, 0, 0, 0, 1}).Draw(t, "nilpolicy") == 1 {
		p = c01Policy{Nil: true}
	}
	return p
}

func TestVerifC01Random(t *testing.T) {
	c01SelfTest(t)
	vlib.Drive(t, vlib.Spec[c01Case]{ID: "C01", Quick: 3000, Run: c01Run(t), Gen: func(t *rapid.T) c01Case {
		c := c01Case{Hidden: rapid.Bool().Draw(t, "hidden"), JudgeClient: rapid.Bool().Draw(t, "judgeClient")}
		c.Ident = c01GenIdent(t)
		c.Policy = c01GenPolicy(t, !c.JudgeClient)
		return c
	}})
}

// ---------------------------------------------------------------------------------------------------------------------
// Family "interrupted": no peer ever proves anything (or the proof arrives late), several goroutines share one Client,
// Close lands at a generated virtual time. Every entry point that reports success implies a completed handshake:
// Handshake()==nil, and Write/WriteMsg/Read/ReadMsg returning nil (they run the handshake first). The oracle's ground
// truth is what the network delivered: success requires that the server's PROVING message (ServerAuth in discoverable
// mode, ServerResponseHidden in hidden mode) had been delivered to the client's socket before the call returned.

type c01iCaller struct {
	Entry   int `json:"entry"`   // 0 Handshake, 1 WriteMsg, 2 Write, 3 ReadMsg, 4 Read
	DelayUs int `json:"delayUs"` // virtual start delay
}

type c01iYield struct {
	Point int `json:"p"`
	Hit   int `json:"hit"`
	Us    int `json:"us"`
}

type c01iCase struct {
	Hidden      bool         `json:"hidden"`
	Reach       bool         `json:"reach"`     // the client's datagrams reach the server (false: the server is absent)
	Pass        int          `json:"pass"`      // how many of the server's handshake answers reach the client (0: silent; 1: stops answering after the first; >=2: all)
	LatencyUs   int          `json:"latencyUs"` // one-way latency of the network
	HSTimeoutMs int          `json:"hsTimeoutMs"`
	Callers     []c01iCaller `json:"callers"`
	CloseAtUs   int          `json:"closeAtUs"` // virtual time of Close; <0: only after every caller returned (or 20 s)
	Closers     int          `json:"closers"`   // concurrent Close calls
	Yields      []c01iYield  `json:"yields"`
}

var c01iEntries = []string{"Handshake", "WriteMsg", "Write", "ReadMsg", "Read"}

// all of them are reached with no mutex held (see C17, which sleeps at the same points)
var c01iPoints = []string{
	"transport.Client.Handshake.elected", "transport.Client.Handshake.beforeOpen", "transport.Client.Handshake.beforeDone",
	"transport.Client.Close.elected", "transport.Client.Close.connClosed", "transport.Client.Close.beforePublish",
}

type c01iResult struct {
	entry     int
	err       error
	proof     bool   // the proving message had been delivered to the client when the call returned
	panicked  string // panic value of the call itself
	panicSig  string
	probePan  string // panic of the write that followed a successful Handshake()
	probeSig  string
	returned  bool
}

func c01iScenario(c c01iCase, v *vlib.Verdict) (out []c01iResult, closeReturned bool) {
	w := vGetWorld()
	env := vStartServer(w.ServerConfig(c.Hidden))
	defer env.Stop()
	proofType := byte(MessageTypeServerAuth)
	if c.Hidden {
		proofType = byte(MessageTypeServerResponseHidden)
	}
	var fmu sync.Mutex
	answers := 0
	lat := time.Duration(c.LatencyUs) * time.Microsecond
	env.Net.Filter = func(d simnet.Datagram) []simnet.Datagram {
		if simnetEq(d.Dst, vCliAddr) {
			fmu.Lock()
			k := answers
			answers++
			fmu.Unlock()
			if k >= c.Pass {
				return nil
			}
		} else if !c.Reach {
			return nil
		}
		d.Delay = lat
		return []simnet.Datagram{d}
	}
	proofDelivered := func() bool {
		for _, d := range env.Net.DeliveredSnapshot() {
			if simnetEq(d.Dst, vCliAddr) && simnetEq(d.Src, vSrvAddr) && len(d.Data) > 0 && d.Data[0] == proofType {
				return true
			}
		}
		return false
	}
	ccfg := w.ClientConfig(c.Hidden, false)
	ccfg.HSTimeout = time.Duration(c.HSTimeoutMs) * time.Millisecond
	cli, _ := env.NewClient(vCliAddr, ccfg)
	// yield schedule
	sched := map[string]map[int]int{}
	for _, y := range c.Yields {
		pt := c01iPoints[y.Point%len(c01iPoints)]
		if sched[pt] == nil {
			sched[pt] = map[int]int{}
		}
		sched[pt][y.Hit] = y.Us
	}
	hits := map[string]int{}
	var hmu sync.Mutex
	verifhook.Set(func(point string) {
		m := sched[point]
		if m == nil {
			return
		}
		hmu.Lock()
		k := hits[point]
		hits[point]++
		hmu.Unlock()
		us, ok := m[k]
		if !ok {
			return
		}
		if us == 0 {
			runtime.Gosched()
			return
		}
		time.Sleep(time.Duration(us) * time.Microsecond)
	})
	defer verifhook.Set(nil)
	out = make([]c01iResult, len(c.Callers))
	var omu sync.Mutex
	var wg sync.WaitGroup
	// one reader at a time: Handle.Read takes a sync.Mutex, and a goroutine waiting for a mutex whose holder is parked on the
	// virtual clock freezes the bubble (see C17)
	readSem := make(chan struct{}, 1)
	guarded := func(f func()) (val, sig string) {
		defer func() {
			if r := recover(); r != nil {
				val = fmt.Sprint(r)
				sig = vlib.PanicSig(r, string(debug.Stack()))
			}
		}()
		f()
		return
	}
	for i, ca := range c.Callers {
		wg.Add(1)
		go func(i int, ca c01iCaller) {
			defer wg.Done()
			r := &c01iResult{entry: ca.Entry}
			defer func() { omu.Lock(); out[i] = *r; omu.Unlock() }()
			if ca.DelayUs > 0 {
				time.Sleep(time.Duration(ca.DelayUs) * time.Microsecond)
			}
			buf := make([]byte, 2000)
			r.panicked, r.panicSig = guarded(func() {
				switch ca.Entry {
				case 0:
					r.err = cli.Handshake()
				case 1:
					r.err = cli.WriteMsg(vlib.Fill(uint64(i), 40))
				case 2:
					_, r.err = cli.Write(vlib.Fill(uint64(i), 40))
				case 3:
					readSem <- struct{}{}
					defer func() { <-readSem }()
					_, r.err = cli.ReadMsg(buf)
				default:
					readSem <- struct{}{}
					defer func() { <-readSem }()
					_, r.err = cli.Read(buf)
				}
			})
			r.proof = proofDelivered()
			if r.panicked == "" && r.err == nil && ca.Entry == 0 {
				// what every caller does after a successful handshake: use the connection
				r.probePan, r.probeSig = guarded(func() { _ = cli.WriteMsg(vlib.Fill(uint64(100+i), 40)) })
			}
			r.returned = true
		}(i, ca)
	}
	callersDone := make(chan struct{})
	go func() { wg.Wait(); close(callersDone) }()
	if c.CloseAtUs >= 0 {
		time.Sleep(time.Duration(c.CloseAtUs) * time.Microsecond)
	} else {
		select {
		case <-callersDone:
		case <-time.After(20 * time.Second):
		}
	}
	closed := make(chan struct{}, 4)
	for i := 0; i < 1+c.Closers%3; i++ {
		go func() { cli.Close(); closed <- struct{}{} }()
	}
	select {
	case <-closed:
		closeReturned = true
	case <-time.After(30 * time.Second):
	}
	select {
	case <-callersDone:
	case <-time.After(30 * time.Second):
	}
	// a copy, so that a caller that never returns cannot race with the verdict
	res := make([]c01iResult, len(out))
	omu.Lock()
	defer omu.Unlock()
	for i := range out {
		if out[i].returned {
			res[i] = out[i]
		} else {
			res[i] = c01iResult{entry: c.Callers[i].Entry}
		}
	}
	return res, closeReturned
}

func c01iRun(t *testing.T) func(c c01iCase, v *vlib.Verdict) {
	return func(c c01iCase, v *vlib.Verdict) {
		var rs []c01iResult
		res := vlib.Bubble(t, 60*time.Second, func() { rs, _ = c01iScenario(c, v) })
		verifhook.Set(nil)
		if res.Hung {
			v.Inconclusive = "bubble hung in real time (C01 interrupted)"
			return
		}
		mode := map[bool]string{false: "discoverable", true: "hidden"}[c.Hidden]
		if res.Panic != "" {
			if res.Leak() || res.Deadlock() {
				// termination of every call is C17's clause; here it only means that the case cannot be judged
				v.Inconclusive = "calls not released (C17's clause): " + fmt.Sprint(vlib.BlockedHopFrames(res.Stacks))
			} else {
				v.Failf(vlib.PanicSig(res.Panic, res.Stacks), "panic: %s", res.Panic)
			}
			return
		}
		need := 2
		if c.Hidden {
			need = 1
		}
		possible := c.Reach && c.Pass >= need
		succ, fails := 0, 0
		for i, r := range rs {
			name := c01iEntries[r.entry]
			if r.panicked != "" {
				v.Failf(r.panicSig, "Client.%s (caller %d of %d on one client, proof possible: %v) panicked: %s", name, i, len(rs), possible, r.panicked)
				return
			}
			if !r.returned {
				v.Inconclusive = "caller did not return (C17's clause)"
				return
			}
			if r.err == nil {
				succ++
				if !r.proof {
					what := map[bool]string{true: "the server's proving message had not reached the client", false: "no proving message can ever reach this client"}[possible]
					v.Failf(fmt.Sprintf("C01:client-reports-success-without-server-proof:%s:%s", mode, name), "Client.%s returned nil (caller %d of %d concurrent callers, Close at %d us) although %s (reach=%v pass=%d latency=%dus)", name, i, len(rs), c.CloseAtUs, what, c.Reach, c.Pass, c.LatencyUs)
					return
				}
				if r.probePan != "" {
					v.Failf(r.probeSig, "after Client.Handshake returned nil the first WriteMsg panicked: %s", r.probePan)
					return
				}
			} else {
				fails++
			}
		}
		// sanity / non-vacuity: an honest reachable peer, no early Close, a timeout far above the round trips: the writers and
		// handshakers succeed
		if possible && c.CloseAtUs < 0 && (c.HSTimeoutMs == 0 || c.HSTimeoutMs >= 1000) {
			for i, r := range rs {
				if r.entry <= 2 && r.err != nil {
					v.Failf("C01:sanity:honest-server-rejected:"+mode+":concurrent-callers", "caller %d (Client.%s) failed against an honest reachable server without any Close: %v", i, c01iEntries[r.entry], r.err)
					return
				}
			}
		}
		v.Label("interrupted:" + mode)
		switch {
		case !c.Reach:
			v.Label("interrupted:server-absent")
		case c.Pass == 0:
			v.Label("interrupted:server-silent")
		case c.Pass < need:
			v.Label("interrupted:server-stops-answering-mid-handshake")
		default:
			v.Label("interrupted:server-honest")
		}
		if c.CloseAtUs >= 0 {
			v.Label("interrupted:close-at-generated-time")
		}
		if succ > 0 && fails > 0 {
			v.Label("interrupted:some-callers-succeed-some-fail")
		}
		if succ > 0 {
			v.Label("interrupted:success-with-proof")
		}
		if len(c.Yields) > 0 {
			v.Label("interrupted:with-yield-schedule")
		}
		v.NonTrivial = len(c.Callers) >= 2 && c.CloseAtUs >= 0
	}
}

func c01iGen(t *rapid.T) c01iCase {
	c := c01iCase{Hidden: rapid.Bool().Draw(t, "hidden")}
	c.Reach = rapid.SampledFrom([]bool{true, true, true, false}).Draw(t, "reach")
	c.Pass = rapid.SampledFrom([]int{0, 0, 1, 9}).Draw(t, "pass")
	c.LatencyUs = rapid.SampledFrom([]int{0, 1, 1000, 20000, 200000}).Draw(t, "latency")
	c.HSTimeoutMs = rapid.SampledFrom([]int{0, 50, 2000, 2000}).Draw(t, "hst")
	c.Callers = rapid.SliceOfN(rapid.Custom(func(t *rapid.T) c01iCaller {
		return c01iCaller{
			Entry:   rapid.SampledFrom([]int{0, 0, 0, 0, 1, 2, 3, 4}).Draw(t, "entry"),
			DelayUs: rapid.SampledFrom([]int{0, 0, 1, 100, 1000, 30000, 500000}).Draw(t, "delay"),
		}
	}), 1, 6).Draw(t, "callers")
	c.CloseAtUs = rapid.SampledFrom([]int{-1, 0, 1, 500, 2000, 40000, 90000, 450000, 900000, 3000000}).Draw(t, "closeAt")
	c.Closers = rapid.IntRange(0, 2).Draw(t, "closers")
	c.Yields = rapid.SliceOfN(rapid.Custom(func(t *rapid.T) c01iYield {
		return c01iYield{Point: rapid.IntRange(0, len(c01iPoints)-1).Draw(t, "pt"), Hit: rapid.IntRange(0, 1).Draw(t, "hit"), Us: rapid.SampledFrom([]int{0, 1, 500, 50000}).Draw(t, "us")}
	}), 0, 4).Draw(t, "yields")
	return c
}

// TestVerifC01Interrupted: concurrent callers on one client, a peer that never proves anything (or late), Close at a
// generated time.
func TestVerifC01Interrupted(t *testing.T) {
	vlib.Drive(t, vlib.Spec[c01iCase]{ID: "C01", Quick: 4000, Gen: c01iGen, Run: c01iRun(t)})
}

// ---------------------------------------------------------------------------------------------------------------------
// Family "real clock": VerifyConfig.CurrentTime is left zero on both sides (what production callers do, config.go), so
// certificate validity is judged against the clock - the bubble's virtual clock. One long-running server, a generated
// SEQUENCE of handshakes separated by generated sleeps, certificates whose validity windows begin and end while the
// sequence runs. Reference decision: the certificate is valid at the virtual instant of THAT handshake.

type c01rWin struct {
	FromS int `json:"fromS"` // valid from (start of the case + FromS seconds) ...
	ForS  int `json:"forS"`  // ... for ForS seconds
}

type c01rClient struct {
	Win   c01rWin `json:"win"`
	InSet bool    `json:"inSet"` // its key is in the server's authorized-key set
}

type c01rStep struct {
	SleepS int `json:"sleepS"` // whole seconds slept before this handshake; it then starts at the next half second
	Client int `json:"client"` // which client identity connects
}

type c01rCase struct {
	Hidden   bool         `json:"hidden"`
	AuthKeys bool         `json:"authKeys"` // server policy: authorized keys allowed in addition to the CA store
	Server   c01rWin      `json:"server"`
	Clients  []c01rClient `json:"clients"`
	Steps    []c01rStep   `json:"steps"`
}

type c01rStepResult struct {
	atMs      int64 // virtual time of the handshake, ms since the start of the case
	cliErr    error
	accepted  bool
	delivered bool
}

func (w c01rWin) validAt(ms int64) bool {
	return ms >= int64(w.FromS)*1000 && ms < int64(w.FromS+w.ForS)*1000
}

func c01rScenario(c c01rCase) (out []c01rStepResult) {
	w := vGetWorld() // only for the ML-KEM key pair (one per process)
	t0 := time.Now()
	if t0.Nanosecond() != 0 {
		panic("verif fixture: the bubble's clock does not start on a whole second")
	}
	root := vSigningCert("rc-root", nil)
	inter := vSigningCert("rc-intermediate", root)
	store := certs.Store{}
	store.AddCertificate(root)
	leaf := func(name string, win c01rWin) (*keys.X25519KeyPair, *certs.Certificate) {
		kp := keys.GenerateNewX25519KeyPair()
		lf, err := certs.IssueLeafAt(inter, &certs.Identity{PublicKey: kp.Public, Names: []certs.Name{certs.RawStringName(name)}},
			t0.Add(time.Duration(win.FromS)*time.Second), time.Duration(win.ForS)*time.Second)
		vMust(err)
		return kp, lf
	}
	srvKey, srvLeaf := leaf("server.verif.test", c.Server)
	set := authkeys.NewSyncAuthKeySet()
	set.AddKey(keys.GenerateNewX25519KeyPair().Public)
	type ident struct {
		key  *keys.X25519KeyPair
		leaf *certs.Certificate
	}
	var ids []ident
	for i, cl := range c.Clients {
		k, l := leaf(fmt.Sprintf("client-%d", i), cl.Win)
		ids = append(ids, ident{k, l})
		if cl.InSet {
			set.AddKey(k.Public)
		}
	}
	env := vStartServer(ServerConfig{
		KEMKeyPair: w.SrvKEM, KeyPair: srvKey, Certificate: srvLeaf, Intermediate: inter, HandshakeTimeout: 5 * time.Second, IsHidden: c.Hidden,
		ClientVerify: &VerifyConfig{Store: store, AuthKeysAllowed: c.AuthKeys, AuthKeys: set}, // CurrentTime zero: the clock decides
	})
	defer env.Stop()
	for i, st := range c.Steps {
		time.Sleep(time.Duration(st.SleepS) * time.Second)
		// validity windows begin and end on whole seconds; handshakes happen on half seconds (the fake network has no latency,
		// so both sides verify at this very instant)
		now := time.Since(t0)
		next := now.Truncate(time.Second) + 500*time.Millisecond
		if next < now {
			next += time.Second
		}
		time.Sleep(next - now)
		r := c01rStepResult{atMs: time.Since(t0).Milliseconds()}
		id := ids[st.Client%len(ids)]
		ccfg := ClientConfig{Exchanger: id.key, Leaf: id.leaf, Intermediate: inter, HSTimeout: 2 * time.Second,
			Verify: VerifyConfig{Store: store, Name: certs.RawStringName("server.verif.test")}} // CurrentTime zero
		if c.Hidden {
			pk := w.SrvKEM.Public
			ccfg.ServerKEMKey = &pk
		}
		cli, _ := env.NewClient(simnet.Addr("10.0.0.2", 41000+i), ccfg)
		hsDone := make(chan error, 1)
		go func() { hsDone <- cli.Handshake() }()
		select {
		case r.cliErr = <-hsDone:
		case <-time.After(20 * time.Second):
			cli.Close()
			if r.cliErr = <-hsDone; r.cliErr == nil {
				r.cliErr = fmt.Errorf("handshake did not return within 20 virtual seconds")
			}
		}
		h, err := env.Srv.AcceptTimeout(2 * time.Second)
		if err == nil && h != nil {
			r.accepted = true
			if r.cliErr == nil {
				if cli.WriteMsg([]byte(fmt.Sprintf("c01 real-clock probe of step %d", i))) == nil {
					buf := make([]byte, 200)
					h.SetReadDeadline(time.Now().Add(2 * time.Second))
					if _, err := h.ReadMsg(buf); err == nil {
						r.delivered = true
					}
				}
			}
			h.Close()
		}
		cli.Close()
		out = append(out, r)
	}
	return out
}

func c01rRun(t *testing.T) func(c c01rCase, v *vlib.Verdict) {
	return func(c c01rCase, v *vlib.Verdict) {
		var rs []c01rStepResult
		res := vlib.Bubble(t, 60*time.Second, func() { rs = c01rScenario(c) })
		if res.Hung {
			v.Inconclusive = "bubble hung in real time (C01 real clock)"
			return
		}
		mode := map[bool]string{false: "discoverable", true: "hidden"}[c.Hidden]
		if res.Panic != "" {
			if res.Leak() || res.Deadlock() {
				v.Failf("C01:goroutines-left:"+fmt.Sprint(vlib.BlockedHopFrames(res.Stacks)), "after closing clients and server goroutines remain: %v", vlib.BlockedHopFrames(res.Stacks))
			} else {
				v.Failf(vlib.PanicSig(res.Panic, res.Stacks), "panic: %s", res.Panic)
			}
			return
		}
		seenValid := map[string]map[bool]bool{}
		note := func(who string, ok bool) {
			if seenValid[who] == nil {
				seenValid[who] = map[bool]bool{}
			}
			seenValid[who][ok] = true
		}
		invalidSeen := false
		for i, r := range rs {
			st := c.Steps[i]
			ci := st.Client % len(c.Clients)
			cl := c.Clients[ci]
			srvOK := c.Server.validAt(r.atMs)
			cliTimeOK := cl.Win.validAt(r.atMs)
			cliOK := cliTimeOK || (c.AuthKeys && cl.InSet)
			note("server", srvOK)
			note(fmt.Sprintf("client-%d", ci), cliTimeOK)
			if !srvOK || !cliTimeOK {
				invalidSeen = true
			}
			where := fmt.Sprintf("handshake #%d of %d at +%d ms (server certificate valid [%d s,%d s), client %d certificate valid [%d s,%d s), in authorized keys: %v, authorized keys allowed: %v)",
				i, len(rs), r.atMs, c.Server.FromS, c.Server.FromS+c.Server.ForS, ci, cl.Win.FromS, cl.Win.FromS+cl.Win.ForS, cl.InSet, c.AuthKeys)
			if r.cliErr == nil && !srvOK {
				v.Failf(fmt.Sprintf("C01:client-accepts-server:%s:time-invalid:real-clock", mode), "Client.Handshake succeeded although the server's certificate is not valid at that instant: %s", where)
				return
			}
			if !cliOK {
				if !c.Hidden && r.accepted {
					v.Failf(fmt.Sprintf("C01:server-offers-connection:%s:time-invalid:real-clock", mode), "Accept offered a connection although the client's certificate is not valid at that instant: %s", where)
					return
				}
				if r.delivered {
					v.Failf(fmt.Sprintf("C01:server-delivers-data:%s:time-invalid:real-clock", mode), "the server delivered application data although the client's certificate is not valid at that instant: %s", where)
					return
				}
			}
			if srvOK && cliOK && (r.cliErr != nil || !r.accepted || !r.delivered) {
				v.Failf("C01:sanity:valid-certificates-rejected:"+mode+":real-clock", "both certificates are valid at that instant, yet client err %v, accepted %v, delivered %v: %s", r.cliErr, r.accepted, r.delivered, where)
				return
			}
			switch {
			case !srvOK:
				v.Label("real-clock:server-certificate-invalid-at-handshake")
			case !cliTimeOK && cliOK:
				v.Label("real-clock:client-certificate-invalid-but-authorized-key")
			case !cliOK:
				v.Label("real-clock:client-certificate-invalid-at-handshake")
			default:
				v.Label("real-clock:both-valid-at-handshake")
			}
		}
		changed := false
		var who []string
		for k, m := range seenValid {
			if m[true] && m[false] {
				changed = true
				who = append(who, strings.SplitN(k, "-", 2)[0])
			}
		}
		sort.Strings(who)
		v.Label("real-clock:" + mode)
		if changed {
			v.Label("real-clock:validity-of-one-identity-differs-between-handshakes:" + strings.Join(who, "+"))
		}
		v.NonTrivial = len(rs) >= 2 && invalidSeen
	}
}

func c01rGen(t *rapid.T) c01rCase {
	c := c01rCase{Hidden: rapid.Bool().Draw(t, "hidden")}
	c.AuthKeys = rapid.SampledFrom([]bool{false, false, false, true}).Draw(t, "authKeys")
	c.Server = c01rWin{FromS: rapid.SampledFrom([]int{0, 0, 0, 0, 3, 20}).Draw(t, "srvFrom"), ForS: rapid.SampledFrom([]int{100000, 100000, 100000, 5, 30, 100}).Draw(t, "srvFor")}
	c.Clients = rapid.SliceOfN(rapid.Custom(func(t *rapid.T) c01rClient {
		return c01rClient{
			Win:   c01rWin{FromS: rapid.SampledFrom([]int{0, 0, 0, 3, 10, 40}).Draw(t, "from"), ForS: rapid.SampledFrom([]int{2, 4, 10, 30, 100, 100000}).Draw(t, "for")},
			InSet: rapid.SampledFrom([]bool{false, false, false, true}).Draw(t, "inSet"),
		}
	}), 1, 3).Draw(t, "clients")
	n := len(c.Clients)
	c.Steps = rapid.SliceOfN(rapid.Custom(func(t *rapid.T) c01rStep {
		return c01rStep{SleepS: rapid.SampledFrom([]int{0, 0, 1, 3, 8, 25, 70}).Draw(t, "sleep"), Client: rapid.IntRange(0, n-1).Draw(t, "client")}
	}), 1, 6).Draw(t, "steps")
	return c
}

// TestVerifC01RealClock: sequences of handshakes under the (virtual) clock with CurrentTime left zero.
func TestVerifC01RealClock(t *testing.T) {
	vlib.Drive(t, vlib.Spec[c01rCase]{ID: "C01", Quick: 2000, Gen: c01rGen, Run: c01rRun(t)})
}

// ---------------------------------------------------------------------------------------------------------------------
// Family "long-lived verifier": a SEQUENCE of handshakes by generated counterparts against ONE verifier - one Server with
// one ClientVerify (server judges), or one VerifyConfig value reused by successive Clients, each facing its own server
// (client judges; the copies share the trust store's map and the authorized-key set, as successive connections of one
// process do). Reference decision of every handshake: the decision for that identity ALONE (c01Truth) - verification
// must not depend on what earlier peers presented. The identities include "bait" chains: a hand-made certificate whose
// Parent names whatever certificate is presented in the intermediate slot (a root, an intermediate, a leaf; the
// attacker's or the trusted ones).
//
// Family "certificate lookups fail" (server judges): the server is configured the way hopserver.NewHopServer configures
// it - ServerConfig.GetCertificate / GetCertList callbacks over a host table - and the callbacks FAIL at generated call
// numbers, from a generated call number on, or for the host name the certificate list advertises (the pair disagrees
// while a reload is in progress). Besides the real Client the counterpart can be a PUPPET: a harness-side client that
// writes the handshake messages with the package's own writers, presents a certificate chain (typically the victim's
// public chain, without its private key), and then sends data packets sealed under EVERY set of session keys it can
// compute - from its transcript after each of its own messages, and after the server's answer processed with the key it
// really holds. It learns the session ID from the wire (handshake answer, or the greeting the server application writes
// on an offered connection) or is told it (session IDs travel in the clear in every packet). Oracle unchanged.

type c01sStep struct {
	Ident  c01Ident `json:"ident"`
	Puppet bool     `json:"puppet,omitempty"` // server judges: the counterpart is the puppet, not the real Client
	Grant  bool     `json:"grant,omitempty"`  // puppet: told the session ID when it did not see one on the wire
	SNI    int      `json:"sni,omitempty"`    // server judges: 0 the client asks for the server's name, 1 for a name the host table does not know
	Forge  uint64   `json:"forge,omitempty"`  // puppet: seed of the tag (and payload) bytes of its forged transport packets
	// Baits (puppet, discoverable mode): SEVERAL ClientAuth messages on the ONE pending handshake. Before the ClientAuth for
	// the identity it really has (Ident), the puppet sends one ClientAuth per bait identity: that identity's chain, encrypted
	// under the puppet's running transcript with a correct tag, and a final MAC of seeded random bytes (nobody holds a bait's
	// key, so a bait message can never complete a handshake by itself). The puppet keeps following the transcript: a message
	// the server refuses while verifying the certificates leaves both sides in step, and the next ClientAuth is well-formed.
	Baits []c01Ident `json:"baits,omitempty"`
}

type c01sCase struct {
	Hidden      bool       `json:"hidden"`
	JudgeClient bool       `json:"judgeIsClient"`
	Policy      c01Policy  `json:"policy"`
	Steps       []c01sStep `json:"steps"`
	// server judges only: certificate callbacks and their fault plan
	Custom       bool `json:"custom,omitempty"`       // GetCertificate / GetCertList callbacks instead of the Certificate / KeyPair fields
	CertFail     int  `json:"certFail,omitempty"`     // bit k: the k-th GetCertificate call of the server's life fails
	CertFailFrom int  `json:"certFailFrom,omitempty"` // > 0: every GetCertificate call with number >= CertFailFrom-1 fails
	ListFail     int  `json:"listFail,omitempty"`     // bit k: the k-th GetCertList call fails
	Alias        bool `json:"alias,omitempty"`        // GetCertList advertises the certificate under a host name GetCertificate's table does not know
	Greets       bool `json:"greets,omitempty"`       // the server application writes a greeting on every connection Accept offers
}

type c01Lookup struct {
	mu                   sync.Mutex
	certCalls, listCalls int
	failures             int
}

func (l *c01Lookup) failed() int { l.mu.Lock(); defer l.mu.Unlock(); return l.failures }

// c01CallbackConfig replaces the static certificate fields of base by callbacks over a one-entry host table.
func c01CallbackConfig(base ServerConfig, c c01sCase, lk *c01Lookup) ServerConfig {
	tc, err := MakeCert(base.KeyPair, base.Certificate, base.Intermediate, base.KEMKeyPair)
	vMust(err)
	host := string(vGetWorld().ServerName.Label)
	tc.HostNames = []string{host}
	if c.Alias {
		tc.HostNames = []string{"alias-being-reloaded.verif.test", host}
	}
	table := map[string]*Certificate{host: tc}
	cfg := base
	cfg.KeyPair, cfg.KEMKeyPair, cfg.Certificate, cfg.Intermediate = nil, nil, nil, nil
	cfg.GetCertificate = func(info ClientHandshakeInfo) (*Certificate, error) {
		lk.mu.Lock()
		defer lk.mu.Unlock()
		k := lk.certCalls
		lk.certCalls++
		if (k < 30 && c.CertFail>>uint(k)&1 == 1) || (c.CertFailFrom > 0 && k >= c.CertFailFrom-1) {
			lk.failures++
			return nil, errors.New("certificate lookup failed: reload in progress")
		}
		if h, ok := table[string(info.ServerName.Label)]; ok {
			return h, nil
		}
		lk.failures++
		return nil, fmt.Errorf("%q did not match a host block", info.ServerName.Label)
	}
	cfg.GetCertList = func() ([]*Certificate, error) {
		lk.mu.Lock()
		defer lk.mu.Unlock()
		k := lk.listCalls
		lk.listCalls++
		if k < 30 && c.ListFail>>uint(k)&1 == 1 {
			lk.failures++
			return nil, errors.New("certificate list unavailable: reload in progress")
		}
		return []*Certificate{tc}, nil
	}
	return cfg
}

// --- the puppet

type c01Cut struct {
	name   string
	duplex cyclist.Cyclist // the puppet's transcript at that point (a value: copying it is a snapshot)
}

type c01Puppet struct {
	sock    *simnet.Sock
	addr    *net.UDPAddr
	hs      *HandshakeState
	cuts    []c01Cut
	sid     SessionID
	haveSid bool
	buf     []byte
	// ClientAuth messages for other identities sent on the pending handshake before the real one (see c01sStep.Baits)
	baits     []c01Built
	baitSeed  uint64
	baitsSent int
}

// baitClientAuth writes and sends a ClientAuth for the chain of b on the pending handshake: header, session ID, the
// certificates encrypted under the running transcript and the correct tag - exactly what writePQClientAuth produces up to
// there - followed by a final MAC of random bytes instead of one made with DH(se): the puppet has no key for b.
func (p *c01Puppet) baitClientAuth(b c01Built, seed uint64) {
	leaf, err := b.leaf.Marshal()
	if err != nil {
		return
	}
	var inter []byte
	if b.inter != nil {
		if inter, err = b.inter.Marshal(); err != nil {
			return
		}
	}
	encLen := EncryptedCertificatesLength(leaf, inter)
	if encLen > 0xffff {
		return
	}
	d := &p.hs.duplex
	msg := make([]byte, 0, HeaderLen+SessionIDLen+encLen+2*MacLen)
	msg = append(msg, byte(MessageTypeClientAuth), 0, byte(encLen>>8), byte(encLen))
	d.Absorb(msg[:HeaderLen])
	msg = append(msg, p.hs.sessionID[:]...)
	d.Absorb(p.hs.sessionID[:])
	enc, err := EncryptCertificates(d, leaf, inter)
	if err != nil {
		return
	}
	msg = append(msg, enc...)
	var tag [MacLen]byte
	d.Squeeze(tag[:])
	msg = append(msg, tag[:]...)
	msg = append(msg, vlib.Fill(seed, MacLen)...)
	p.send(msg)
	p.baitsSent++
	p.cut(fmt.Sprintf("after-its-client-auth-for-bait-identity-%d", p.baitsSent))
	time.Sleep(2 * time.Millisecond) // the server has dealt with it before the next message leaves
}

func c01NewPuppet(n *simnet.Net, addr *net.UDPAddr, b c01Built, sni certs.Name) *c01Puppet {
	p := &c01Puppet{sock: n.Dial(addr, vSrvAddr), addr: addr, buf: make([]byte, 65535)}
	hs := new(HandshakeState)
	hs.duplex.InitializeEmpty()
	hs.dh = new(dhState)
	hs.dh.ephemeral.Generate()
	hs.dh.static = b.exchanger() // the key the puppet really holds (or the null exchanger of a low-order certificate)
	hs.kem = new(kemState)
	eph, err := keys.GenerateKEMKeyPair(rand.Reader)
	vMust(err)
	hs.kem.ephemeral = *eph
	hs.leaf, err = b.leaf.Marshal()
	vMust(err)
	if b.inter != nil {
		hs.intermediate, err = b.inter.Marshal()
		vMust(err)
	}
	hs.remoteAddr = vSrvAddr
	hs.certVerify = &VerifyConfig{InsecureSkipVerify: true, Name: sni} // the puppet does not judge the server
	p.hs = hs
	return p
}

func (p *c01Puppet) cut(name string) { p.cuts = append(p.cuts, c01Cut{name, p.hs.duplex}) }

func (p *c01Puppet) send(b []byte) { p.sock.WriteMsgUDP(b, nil, vSrvAddr) }

func (p *c01Puppet) recv(d time.Duration) []byte {
	p.sock.SetReadDeadline(time.Now().Add(d))
	n, _, _, _, err := p.sock.ReadMsgUDP(p.buf, nil)
	if err != nil {
		return nil
	}
	return append([]byte(nil), p.buf[:n]...)
}

// note learns the session ID from a datagram of the server that carries one in the clear.
func (p *c01Puppet) note(d []byte) {
	if len(d) < HeaderLen+SessionIDLen {
		return
	}
	switch MessageType(d[0]) {
	case MessageTypeServerAuth, MessageTypeServerResponseHidden, MessageTypeTransport, MessageTypeControl:
		copy(p.sid[:], d[HeaderLen:HeaderLen+SessionIDLen])
		p.haveSid = true
	}
}

// handshake plays the client's part with the package's own message writers and readers, whatever they answer.
func (p *c01Puppet) handshake(hidden bool, kem *keys.KEMPublicKey) {
	hs := p.hs
	if hidden {
		hs.duplex.Absorb([]byte(PostQuantumHiddenProtocolName))
		hs.RekeyFromSqueeze(PostQuantumHiddenProtocolName)
		n, err := hs.writePQClientRequestHidden(p.buf, kem)
		if err != nil {
			return
		}
		p.cut("after-its-own-request")
		p.send(p.buf[:n])
		resp := p.recv(time.Second)
		if len(resp) < HeaderLen+SessionIDLen+KemCtLen+2*MacLen || MessageType(resp[0]) != MessageTypeServerResponseHidden {
			return
		}
		p.note(resp)
		if encLen := int(resp[2])<<8 + int(resp[3]); len(resp) >= HeaderLen+SessionIDLen+KemCtLen+encLen+2*MacLen {
			// everything the response contributes except DH(static, static)
			d := hs.duplex
			d.Absorb(resp[:HeaderLen])
			d.Absorb(resp[HeaderLen : HeaderLen+SessionIDLen])
			if ek, err := hs.kem.ephemeral.Decapsulate(resp[HeaderLen+SessionIDLen : HeaderLen+SessionIDLen+KemCtLen]); err == nil {
				d.Absorb(ek)
				off := HeaderLen + SessionIDLen + KemCtLen
				if _, _, err := DecryptCertificates(&d, resp[off:off+encLen]); err == nil {
					var tag [MacLen]byte
					d.Squeeze(tag[:])
					p.cuts = append(p.cuts, c01Cut{"after-the-response-without-static-dh", d})
				}
			}
		}
		hs.readPQServerResponseHidden(resp) // with the static key it holds; the result does not matter to a puppet
		p.cut("after-the-response")
		return
	}
	hs.duplex.Absorb([]byte(PostQuantumProtocolName))
	n, err := writePQClientHello(hs, p.buf)
	if err != nil {
		return
	}
	p.send(p.buf[:n])
	sh := p.recv(time.Second)
	if sh == nil {
		return
	}
	if n, err := readPQServerHello(hs, sh); err != nil || n != len(sh) {
		return
	}
	hs.RekeyFromSqueeze(PostQuantumProtocolName)
	if n, err = hs.writePQClientAck(p.buf); err != nil {
		return
	}
	p.cut("after-its-own-ack")
	p.send(p.buf[:n])
	sa := p.recv(time.Second)
	if sa == nil {
		return
	}
	p.note(sa)
	_, err = hs.readPQServerAuth(sa)
	p.cut("after-server-auth")
	if err != nil {
		return
	}
	for i, b := range p.baits {
		p.baitClientAuth(b, p.baitSeed+uint64(1000*i))
	}
	if n, err = hs.writePQClientAuth(p.buf); err != nil {
		return
	}
	p.cut("after-its-own-client-auth")
	p.send(p.buf[:n])
}

// learn looks at everything the network delivered to the puppet's address.
func (p *c01Puppet) learn(n *simnet.Net) {
	for _, d := range n.DeliveredSnapshot() {
		if simnetEq(d.Dst, p.addr) {
			p.note(d.Data)
		}
	}
}

const c01PuppetPayload = "c01 puppet payload, sealed under the keys of its transcript "

// sendData sends one data packet per key set the puppet can compute.
func (p *c01Puppet) sendData() {
	for i, c := range p.cuts {
		tmp := HandshakeState{duplex: c.duplex}
		ss := &SessionState{sessionID: p.sid}
		if tmp.deriveFinalKeys(&ss.clientToServerKey, &ss.serverToClientKey) != nil {
			continue
		}
		ss.count = uint64(i)
		pkt, err := ss.sealPacketLocked(MessageTypeTransport, []byte(c01PuppetPayload+c.name), &ss.clientToServerKey)
		if err != nil {
			continue
		}
		p.send(pkt)
	}
}

// c01ForgedLens: payload lengths of the forged packets: none, one byte, across a block boundary, a few blocks.
var c01ForgedLens = []int{0, 1, 17, 64}

// sendForged sends transport packets for the session ID the puppet learnt that are sealed under NO key at all: header,
// session ID, a counter, payload bytes and a tag that are just (seeded) random bytes - what somebody sends who knows
// nothing but the public session ID. Whatever the lengths, none may ever reach the application.
func (p *c01Puppet) sendForged(seed uint64) int {
	n := 0
	for i, l := range c01ForgedLens {
		for _, count := range []uint64{uint64(len(p.cuts) + i), 1 << 40} { // right after the sealed ones / far ahead
			pkt := make([]byte, 0, HeaderLen+SessionIDLen+CounterLen+l+TagLen)
			pkt = append(pkt, byte(MessageTypeTransport), 0, 0, 0)
			pkt = append(pkt, p.sid[:]...)
			pkt = binary.BigEndian.AppendUint64(pkt, count)
			pkt = append(pkt, vlib.Fill(seed+uint64(n), l+TagLen)...)
			p.send(pkt)
			n++
		}
	}
	return n
}

// --- scenario

type c01sResult struct {
	c01Result
	fault   bool   // a certificate callback failed while this handshake ran
	got     string // what the application read
	learnt  string // how the puppet came by the session ID
	tried   int    // key sets the puppet tried
	baits   int    // ClientAuth messages for bait identities the puppet sent before its own
	forged  int    // forged (unsealed) transport packets the puppet sent
}

func c01sSNI(k int) certs.Name {
	if k == 1 {
		return certs.RawStringName("no-such-host.verif.test")
	}
	return vGetWorld().ServerName
}

func c01sHandleAddr(h *Handle) *net.UDPAddr {
	h.ss.m.Lock()
	defer h.ss.m.Unlock()
	return h.ss.remoteAddr
}

func c01sScenario(c c01sCase) (out []c01sResult) {
	w := vGetWorld()
	builts := make([]c01Built, len(c.Steps))
	baitBuilts := make([][]c01Built, len(c.Steps)) // (all fixtures are made at the start of the case, like the identities)
	for i, st := range c.Steps {
		builts[i] = c01Build(st.Ident)
		for _, bid := range st.Baits {
			bid.InSet, bid.Removed, bid.LowOrder = false, false, 0
			if bid.Chain == 7 {
				bid.Chain = 1 // (a hand-signed world would have to be planted in the judge's store: not a bait's business)
			}
			baitBuilts[i] = append(baitBuilts[i], c01Build(bid))
		}
	}
	// ONE policy object for the whole sequence
	vc := c01Verify(c.Policy, c01Built{})
	if vc != nil {
		for i, st := range c.Steps {
			if st.Ident.InSet {
				vc.AuthKeys.AddKey(builts[i].certKey)
			}
			if st.Ident.Removed && !st.Ident.InSet {
				vc.AuthKeys.AddKey(builts[i].certKey)
				vc.AuthKeys.RemoveKey(builts[i].certKey)
			}
			c01Trust(vc, c.Policy, builts[i])
		}
	}
	handshake := func(cli *Client) (err error) {
		done := make(chan error, 1)
		go func() { done <- cli.Handshake() }()
		select {
		case err = <-done:
		case <-time.After(20 * time.Second):
			cli.Close()
			if err = <-done; err == nil {
				err = fmt.Errorf("handshake did not return within 20 virtual seconds")
			}
		}
		return err
	}
	if c.JudgeClient {
		for i := range c.Steps {
			b := builts[i]
			scfg := w.ServerConfig(c.Hidden)
			c01ServerIdentity(&scfg, b)
			env := vStartServer(scfg)
			ccfg := w.ClientConfig(c.Hidden, false)
			ccfg.Verify = *vc // a copy of the one value: the store's map and the key set are shared
			cli, _ := env.NewClient(vCliAddr, ccfg)
			var r c01sResult
			r.cliErr = handshake(cli)
			cli.Close()
			env.Stop()
			out = append(out, r)
		}
		return out
	}
	scfg := w.ServerConfig(c.Hidden)
	scfg.ClientVerify = vc
	lk := &c01Lookup{}
	if c.Custom {
		scfg = c01CallbackConfig(scfg, c, lk)
	}
	env := vStartServer(scfg)
	defer env.Stop()
	for i, st := range c.Steps {
		b := builts[i]
		addr := simnet.Addr("10.0.0.2", 41000+i)
		var r c01sResult
		before := lk.failed()
		var cli *Client
		var pup *c01Puppet
		if st.Puppet {
			pup = c01NewPuppet(env.Net, addr, b, c01sSNI(st.SNI))
			pup.baits = baitBuilts[i]
			pup.baitSeed = st.Forge ^ 0xBA17
			pk := w.SrvKEM.Public
			pup.handshake(c.Hidden, &pk)
			r.baits = pup.baitsSent
			r.cliErr = fmt.Errorf("puppet")
		} else {
			ccfg := w.ClientConfig(c.Hidden, false)
			ccfg.Exchanger, ccfg.Leaf, ccfg.Intermediate = b.exchanger(), b.leaf, b.inter
			ccfg.Verify.Name = c01sSNI(st.SNI)
			if st.SNI != 0 {
				ccfg.Verify.InsecureSkipVerify = true // this client asks for another host and takes whatever certificate comes
			}
			cli, _ = env.NewClient(addr, ccfg)
			r.cliErr = handshake(cli)
		}
		// the application: accept whatever is offered
		var mine []*Handle
		wait := time.Second
		for {
			h, err := env.Srv.AcceptTimeout(wait)
			if err != nil || h == nil {
				break
			}
			wait = 10 * time.Millisecond
			if simnetEq(c01sHandleAddr(h), addr) {
				mine = append(mine, h)
			} else {
				h.Close() // offered late for an earlier peer: judged there as "not offered", nothing is read from it
			}
		}
		r.accepted = len(mine) > 0
		if c.Greets {
			for _, h := range mine {
				h.WriteMsg([]byte("welcome, whoever you proved to be"))
			}
			time.Sleep(5 * time.Millisecond)
		}
		if pup != nil {
			if pup.haveSid {
				r.learnt = "handshake-answer"
			} else if pup.learn(env.Net); pup.haveSid {
				r.learnt = "greeting"
			} else if st.Grant {
				env.Srv.m.RLock()
				for id, ss := range env.Srv.sessions {
					ss.m.Lock()
					if simnetEq(ss.remoteAddr, addr) {
						pup.sid, pup.haveSid = id, true
					}
					ss.m.Unlock()
				}
				env.Srv.m.RUnlock()
				if pup.haveSid {
					r.learnt = "told"
				}
			}
			if pup.haveSid {
				r.tried = len(pup.cuts)
				pup.sendData()
				r.forged = pup.sendForged(st.Forge)
			}
		} else if r.cliErr == nil {
			cli.WriteMsg([]byte(fmt.Sprintf("c01 probe payload of step %d", i)))
		}
		for _, h := range mine {
			buf := make([]byte, 300)
			h.SetReadDeadline(time.Now().Add(time.Second))
			if n, err := h.ReadMsg(buf); err == nil { // ANY message handed to the application counts, an empty one too
				r.delivered = true
				r.got = string(buf[:n])
				if n == 0 {
					r.got = "(an empty message)"
				}
			}
			h.Close()
		}
		if cli != nil {
			cli.Close()
		}
		if pup != nil {
			pup.sock.Close()
		}
		r.fault = lk.failed() != before
		out = append(out, r)
	}
	return out
}

func c01sRun(t *testing.T) func(c c01sCase, v *vlib.Verdict) {
	return func(c c01sCase, v *vlib.Verdict) {
		var rs []c01sResult
		res := vlib.Bubble(t, 60*time.Second, func() { rs = c01sScenario(c) })
		if res.Hung {
			v.Inconclusive = "bubble hung in real time (C01 long-lived verifier)"
			return
		}
		if res.Panic != "" {
			if res.Leak() || res.Deadlock() {
				v.Failf("C01:goroutines-left:"+fmt.Sprint(vlib.BlockedHopFrames(res.Stacks)), "after closing clients and server goroutines remain: %v", vlib.BlockedHopFrames(res.Stacks))
			} else {
				v.Failf(vlib.PanicSig(res.Panic, res.Stacks), "panic: %s", res.Panic)
			}
			return
		}
		mode := map[bool]string{false: "discoverable", true: "hidden"}[c.Hidden]
		side := map[bool]string{true: "client-judges-servers", false: "server-judges-clients"}[c.JudgeClient]
		faulty := c.Custom && (c.CertFail != 0 || c.CertFailFrom > 0 || c.ListFail != 0 || c.Alias)
		family := "long-lived-verifier"
		if c.Custom {
			family = "certificate-callbacks"
		}
		v.Label(family + ":" + mode + ":" + side)
		anyBad, baitBefore, puppets, faultHit := false, false, 0, false
		for i, r := range rs {
			st := c.Steps[i]
			ok, why := c01Truth(st.Ident, c.Policy, c01Built{})
			suffix := ":on-long-lived-verifier"
			if st.Puppet {
				suffix += ":puppet"
				puppets++
			}
			if r.fault {
				suffix += ":certificate-lookup-failed"
				faultHit = true
			}
			where := fmt.Sprintf(" [handshake #%d of %d against one verifier; earlier identities: %+v", i, len(rs), c.Steps[:i])
			if st.Puppet {
				where += fmt.Sprintf("; the counterpart is the puppet, session ID %q, %d key sets tried, %d forged packets (random tag, payload lengths %v) sent", r.learnt, r.tried, r.forged, c01ForgedLens)
				if r.baits > 0 {
					where += fmt.Sprintf("; BEFORE the ClientAuth for its own identity the puppet sent %d ClientAuth messages on the same pending handshake, carrying the chains of the bait identities %+v (correct tag, random final MAC)", r.baits, st.Baits[:r.baits])
				}
			}
			if r.got != "" {
				where += fmt.Sprintf("; the application read %q", r.got)
			}
			if c.Custom {
				where += fmt.Sprintf("; certificate callbacks with fault plan cert=%b from=%d list=%b alias=%v, a lookup failed during this handshake: %v", c.CertFail, c.CertFailFrom-1, c.ListFail, c.Alias, r.fault)
			}
			where += "]"
			// sanity: an honest valid peer is served wherever it stands in the sequence - unless a lookup failed under it, or it
			// asked for a host the table does not know
			// (a peer that sent ClientAuth messages for other identities first is owed nothing: an acceptable bait makes the server
			// absorb a key agreement the puppet cannot follow)
			sanity := !r.fault && st.SNI == 0 && !(st.Puppet && r.tried == 0) && len(st.Baits) == 0
			cr := r.c01Result
			if st.Puppet {
				// the puppet has no Handshake() result; its honest variant counts as served when its data arrives
				cr.cliErr = nil
			}
			if !c01Judge(v, c.Hidden, c.JudgeClient, st.Ident, c.Policy, cr, suffix, sanity, where) {
				return
			}
			if !ok {
				anyBad = true
				v.Label("step-expected:" + why)
			} else {
				v.Label("step-expected:acceptable")
			}
			if st.Ident.Chain == 6 {
				baitBefore = true
			} else if baitBefore && st.Ident.Chain != 0 {
				v.Label("sequence:untrusted-chain-after-a-bait-handshake")
			}
			if i > 0 && !ok && c01Honest(c.Steps[i-1].Ident) {
				v.Label("sequence:unacceptable-identity-right-after-an-honest-one")
			}
			if st.Puppet {
				v.Label(fmt.Sprintf("puppet:session-id-%s", map[bool]string{true: "known", false: "unknown"}[r.tried > 0]))
				if r.tried > 0 && r.learnt != "" {
					v.Label("puppet:session-id-from-" + r.learnt)
				}
				if r.forged > 0 {
					v.Label("puppet:forged-packets-sent")
				}
				if st.Ident.LowOrder > 0 {
					v.Label("puppet:low-order-certified-key")
				}
				if !st.Ident.HoldsKey && r.tried > 0 {
					v.Label("puppet:impostor-sent-data")
					if r.fault {
						v.Label("puppet:impostor-sent-data-after-a-failed-lookup")
					}
				}
				if ok && c01Honest(st.Ident) && r.delivered {
					v.Label("puppet:honest-variant-served")
				}
				if r.baits > 0 {
					v.Label("puppet:several-client-auth-on-one-pending-handshake")
					if ok && r.delivered {
						v.Label("puppet:acceptable-identity-served-after-its-bait-client-auths")
					}
					for _, bid := range st.Baits[:r.baits] {
						if !c.Policy.Nil && !c01NameOK(c.Policy.Name, st.Ident.Name) && c01NameOK(c.Policy.Name, bid.Name) {
							v.Label("puppet:bait-carries-the-expected-name-own-certificate-does-not")
							break
						}
					}
					if !ok {
						v.Label("puppet:bait-client-auths-then-unacceptable-identity:" + why)
					}
				}
			}
			if r.fault {
				v.Label("lookup-failed-during-handshake")
			}
		}
		if faulty && !faultHit {
			v.Label("fault-plan-not-reached")
		}
		if c.Custom {
			v.NonTrivial = (faultHit || puppets > 0) && anyBad
		} else {
			v.NonTrivial = len(rs) >= 2 && anyBad
		}
	}
}

func c01sGenIdent(t *rapid.T) c01Ident {
	// near-valid identities: every attribute is mostly at its valid value, so that sequences of "almost acceptable" peers
	// are common; chains under the untrusted root and baits pointing at it are frequent
	id := c01Ident{
		Chain:    rapid.SampledFrom([]int{0, 0, 1, 1, 1, 6, 6, 6, 2, 3, 4, 5, 7, 7}).Draw(t, "chain"),
		Time:     rapid.SampledFrom([]int{0, 0, 0, 0, 0, 1, 2}).Draw(t, "time"),
		TypeLeaf: rapid.SampledFrom([]bool{true, true, true, true, true, true, true, false}).Draw(t, "typeLeaf"),
		Name:     rapid.SampledFrom([]int{0, 0, 0, 0, 0, 3, 8, 1, 2, 5}).Draw(t, "name"),
		HoldsKey: rapid.SampledFrom([]bool{true, true, true, true, true, false}).Draw(t, "holdsKey"),
		InSet:    rapid.SampledFrom([]bool{false, false, false, true}).Draw(t, "inSet"),
		Removed:  rapid.SampledFrom([]bool{false, false, false, true}).Draw(t, "removed"),
	}
	if id.Chain == 6 {
		id.Bait = rapid.SampledFrom([]int{1, 1, 1, 2, 3, 4, 5}).Draw(t, "bait")
		id.BaitSigned = id.Bait <= 2 && rapid.Bool().Draw(t, "baitSigned")
	}
	c01GenExtra(t, &id, 10)
	return id
}

func c01sGenPolicy(t *rapid.T, server bool) c01Policy {
	p := c01Policy{
		Store:    rapid.SampledFrom([]bool{true, true, true, false}).Draw(t, "store"),
		AuthKeys: rapid.SampledFrom([]bool{false, false, true}).Draw(t, "authKeys"),
		Skip:     rapid.SampledFrom([]bool{false, false, false, false, false, true}).Draw(t, "skip"),
		Name:     rapid.SampledFrom([]int{0, 0, 1, 1, 2, 3, 4}).Draw(t, "pname"),
		Callback: rapid.SampledFrom([]int{0, 0, 0, 1, 2}).Draw(t, "cb"),
	}
	if server && rapid.SampledFrom([]int{0, 0, 0, 0, 0, 0, 0, 0, 0, 0, 0, 1}).Draw(t, "nilpolicy") == 1 {
		p = c01Policy{Nil: true}
	}
	return p
}

// c01sGenBaited draws a puppet step that sends several ClientAuth messages on its one pending handshake: its own identity
// is near-valid and mostly holds its key (a genuine certificate that falls short of the policy in one attribute - another
// name, expired, another chain), each bait is an identity of any kind (mostly one nobody signed: hand-made, self-signed,
// under the untrusted root) that mostly carries the expected name.
func c01sGenBaited(t *rapid.T) c01sStep {
	st := c01sStep{Puppet: true}
	st.Ident = c01Ident{
		Chain:    rapid.SampledFrom([]int{0, 0, 0, 0, 0, 1, 4, 2}).Draw(t, "chain"),
		Time:     rapid.SampledFrom([]int{0, 0, 0, 0, 1, 2}).Draw(t, "time"),
		TypeLeaf: rapid.SampledFrom([]bool{true, true, true, true, true, true, true, false}).Draw(t, "typeLeaf"),
		Name:     rapid.SampledFrom([]int{1, 0, 4, 5, 6, 2, 1, 3, 7, 8}).Draw(t, "name"),
		HoldsKey: rapid.SampledFrom([]bool{true, true, true, true, true, false}).Draw(t, "holdsKey"),
		InSet:    rapid.SampledFrom([]bool{false, false, false, true}).Draw(t, "inSet"),
	}
	st.Baits = rapid.SliceOfN(rapid.Custom(func(t *rapid.T) c01Ident {
		id := c01Ident{
			Chain:    rapid.SampledFrom([]int{6, 2, 1, 6, 5, 3, 4, 0}).Draw(t, "chain"),
			Time:     rapid.SampledFrom([]int{0, 0, 0, 1, 2}).Draw(t, "time"),
			TypeLeaf: rapid.SampledFrom([]bool{true, true, true, false}).Draw(t, "typeLeaf"),
			Name:     rapid.SampledFrom([]int{0, 3, 0, 8, 2, 0, 1, 4, 5, 6, 7}).Draw(t, "name"),
		}
		if id.Chain == 6 {
			id.Bait = rapid.SampledFrom([]int{1, 4, 5, 2, 3}).Draw(t, "bait")
			id.BaitSigned = id.Bait <= 2 && rapid.Bool().Draw(t, "baitSigned")
		}
		return id
	}), 1, 3).Draw(t, "baits")
	st.Forge = rapid.Uint64().Draw(t, "forge")
	st.Grant = rapid.Bool().Draw(t, "grant")
	return st
}

func c01sGen(t *rapid.T) c01sCase {
	c := c01sCase{Hidden: rapid.Bool().Draw(t, "hidden"), JudgeClient: rapid.Bool().Draw(t, "judgeClient")}
	c.Policy = c01sGenPolicy(t, !c.JudgeClient)
	c.Steps = rapid.SliceOfN(rapid.Custom(func(t *rapid.T) c01sStep {
		// a discoverable server is also faced with puppets that send several ClientAuth messages on one pending handshake
		if !c.JudgeClient && !c.Hidden && rapid.IntRange(0, 2).Draw(t, "baited") == 0 {
			return c01sGenBaited(t)
		}
		return c01sStep{Ident: c01sGenIdent(t)}
	}), 2, 4).Draw(t, "steps")
	return c
}

// TestVerifC01Sequence: 2-4 handshakes of generated identities against one long-lived verifier, both directions.
func TestVerifC01Sequence(t *testing.T) {
	c01SelfTest(t)
	vlib.Drive(t, vlib.Spec[c01sCase]{ID: "C01", Quick: 3000, Gen: c01sGen, Run: c01sRun(t)})
}

func c01fGen(t *rapid.T) c01sCase {
	c := c01sCase{Hidden: rapid.SampledFrom([]bool{true, true, false}).Draw(t, "hidden"), Custom: true}
	c.Policy = c01sGenPolicy(t, true)
	switch rapid.SampledFrom([]int{0, 0, 1, 1, 2, 3, 4}).Draw(t, "plan") {
	case 0:
		c.CertFail = rapid.IntRange(1, 15).Draw(t, "certFail")
	case 1:
		c.CertFailFrom = 1 + rapid.IntRange(0, 3).Draw(t, "certFailFrom")
	case 2:
		c.ListFail = rapid.IntRange(1, 7).Draw(t, "listFail")
		c.CertFail = rapid.IntRange(0, 7).Draw(t, "certFail")
	case 3:
		c.Alias = true
	}
	c.Greets = rapid.Bool().Draw(t, "greets")
	c.Steps = rapid.SliceOfN(rapid.Custom(func(t *rapid.T) c01sStep {
		if !c.Hidden && rapid.IntRange(0, 2).Draw(t, "baited") == 0 {
			st := c01sGenBaited(t) // several ClientAuth messages on one pending handshake
			st.SNI = rapid.SampledFrom([]int{0, 0, 0, 0, 0, 1}).Draw(t, "sni")
			return st
		}
		st := c01sStep{Puppet: rapid.SampledFrom([]bool{true, true, false}).Draw(t, "puppet")}
		if rapid.SampledFrom([]int{0, 0, 1}).Draw(t, "kind") == 0 {
			// the classic impostor (or, with the key, the honest peer): the victim's valid chain
			st.Ident = c01Ident{TypeLeaf: true, HoldsKey: rapid.SampledFrom([]bool{false, false, true}).Draw(t, "holdsKey"), InSet: rapid.SampledFrom([]bool{false, false, true}).Draw(t, "inSet")}
			c01GenExtra(t, &st.Ident, 5) // ... or a valid chain for a key nobody can hold
		} else {
			st.Ident = c01sGenIdent(t)
		}
		st.Forge = rapid.Uint64().Draw(t, "forge")
		st.Grant = rapid.Bool().Draw(t, "grant")
		st.SNI = rapid.SampledFrom([]int{0, 0, 0, 0, 0, 1}).Draw(t, "sni")
		return st
	}), 1, 4).Draw(t, "steps")
	return c
}

// c01PuppetSelfTest: the honest variant of the puppet (valid chain, holds the key) is served in both modes - otherwise
// the puppet's silence on impostors would mean nothing.
func c01PuppetSelfTest(t *testing.T) {
	for _, hidden := range []bool{false, true} {
		for _, custom := range []bool{false, true} {
			c := c01sCase{Hidden: hidden, Custom: custom, Policy: c01Policy{Store: true}, Steps: []c01sStep{{Puppet: true, Ident: c01Ident{TypeLeaf: true, HoldsKey: true}}}}
			var rs []c01sResult
			res := vlib.Bubble(t, 60*time.Second, func() { rs = c01sScenario(c) })
			if res.Hung || res.Panic != "" || len(rs) != 1 || !rs[0].accepted || !rs[0].delivered || !strings.HasPrefix(rs[0].got, c01PuppetPayload) {
				t.Fatalf("VERIF-MACHINERY the honest puppet is not served (hidden=%v callbacks=%v): %+v panic=%q", hidden, custom, rs, res.Panic)
			}
		}
	}
}

// TestVerifC01LookupFaults: failing certificate callbacks on a long-lived server, real clients and puppets.
func TestVerifC01LookupFaults(t *testing.T) {
	c01SelfTest(t)
	c01PuppetSelfTest(t)
	vlib.Drive(t, vlib.Spec[c01sCase]{ID: "C01", Quick: 3000, Gen: c01fGen, Run: c01sRun(t)})
}
