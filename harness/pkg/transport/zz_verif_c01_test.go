//go:build go1.25

package transport

// C01 — a handshake completes only with a peer that proved its certified key,
// under every verification policy, in both modes and both directions.
//
// The counterpart is the REAL endpoint code with a deliberately inconsistent
// configuration (identity attributes below); the oracle is a policy predicate
// over the ground truth of how the identity was built.

import (
	"bytes"
	"fmt"
	"runtime"
	"runtime/debug"
	"sort"
	"strings"
	"sync"
	"testing"
	"time"

	"pgregory.net/rapid"

	"hop.computer/hop/authkeys"
	"hop.computer/hop/certs"
	"hop.computer/hop/keys"
	"hop.computer/hop/pkg/verifhook"
	"verif.local/vlib"
	"verif.local/vlib/simnet"
)

// identity of the counterpart (the party being judged)
type c01Ident struct {
	Chain    int  `json:"chain"`    // 0 trusted chain, 1 chain under an untrusted root, 2 self-signed leaf, 3 trusted leaf but unrelated intermediate presented, 4 trusted leaf, no intermediate presented, 5 leaf properly issued by a forged intermediate that names the trusted root as its parent but is not signed by it
	Time     int  `json:"time"`     // 0 valid, 1 expired, 2 not yet valid
	TypeLeaf bool `json:"typeLeaf"` // false: an intermediate-typed certificate is presented as the leaf
	Name     int  `json:"name"`     // 0 the expected label (raw type), 1 another label, 2 same label but DNS type
	HoldsKey bool `json:"holdsKey"` // false: presents a certificate for a key it does not hold (impostor)
	InSet    bool `json:"inSet"`    // the certified key is in the judge's authorized-key set
	Removed  bool `json:"removed"`  // the certified key WAS added to the judge's authorized-key set and then removed again
}

// verification policy of the judging party
type c01Policy struct {
	Nil      bool `json:"nil"`      // server only: ClientVerify == nil
	Store    bool `json:"store"`    // trust store contains the honest root
	AuthKeys bool `json:"authKeys"` // AuthKeysAllowed
	Skip     bool `json:"skip"`     // InsecureSkipVerify
	Name     int  `json:"name"`     // expected name: 0 zero, 1 the label (raw), 2 same label DNS type, 3 other label
	Callback int  `json:"cb"`       // 0 none, 1 accepting, 2 rejecting
}

type c01Case struct {
	Hidden      bool      `json:"hidden"`
	JudgeClient bool      `json:"judgeIsClient"` // true: the client judges the server; false: the server judges the client
	Ident       c01Ident  `json:"ident"`
	Policy      c01Policy `json:"policy"`
}

const c01Label = "peer.verif.test"

type c01Built struct {
	key      *keys.X25519KeyPair // the key the counterpart actually uses
	leaf     *certs.Certificate
	inter    *certs.Certificate
	certKey  keys.DHPublicKey // the key named in the certificate
}

var c01Other *vWorld // an unrelated certificate world (untrusted root)

func c01OtherWorld() *vWorld {
	if c01Other == nil {
		w := &vWorld{}
		w.Root = vSigningCert("other-root", nil)
		w.Inter = vSigningCert("other-intermediate", w.Root)
		c01Other = w
	}
	return c01Other
}

var c01Forged *certs.Certificate

// c01ForgedInter: an intermediate issued by an impostor's own root key whose Parent field was overwritten
// with the fingerprint of the TRUSTED root (so the signature does not verify under the trusted root's key).
func c01ForgedInter() *certs.Certificate {
	if c01Forged != nil {
		return c01Forged
	}
	w := vGetWorld()
	fakeRoot := vSigningCert("forger-root", nil)
	k := keys.GenerateNewSigningKeyPair()
	inter, err := certs.IssueIntermediate(fakeRoot, &certs.Identity{PublicKey: k.Public, Names: []certs.Name{certs.RawStringName("forged-intermediate")}})
	vMust(err)
	inter.Parent = w.Root.Fingerprint
	raw, err := inter.Marshal()
	vMust(err)
	re := &certs.Certificate{}
	_, err = re.ReadFrom(bytes.NewReader(raw))
	vMust(err)
	re.ProvideKey((*[32]byte)(&k.Private))
	c01Forged = re
	return re
}

func c01Build(id c01Ident) c01Built {
	w := vGetWorld()
	certKP := keys.GenerateNewX25519KeyPair()
	var names []certs.Name
	switch id.Name {
	case 0:
		names = []certs.Name{certs.RawStringName(c01Label)}
	case 1:
		names = []certs.Name{certs.RawStringName("somebody-else.verif.test")}
	default:
		names = []certs.Name{certs.DNSName(c01Label)}
	}
	ident := &certs.Identity{PublicKey: certKP.Public, Names: names}
	// the issuing API requires the parent to be valid at issuance time; the world's CA certificates were
	// issued at T0 (= w.Now - 1 min), so every leaf is issued inside [T0, ...)
	t0 := w.Inter.IssuedAt
	if o := c01OtherWorld().Inter.IssuedAt; o.After(t0) {
		t0 = o
	}
	issuedAt := t0
	validity := 48 * time.Hour
	switch id.Time {
	case 1:
		validity = 5 * time.Second // expired well before w.Now
	case 2:
		issuedAt = w.Now.Add(24 * time.Hour)
	}
	var b c01Built
	var err error
	parent := w.Inter
	if id.Chain == 1 {
		parent = c01OtherWorld().Inter
	}
	if id.Chain == 5 {
		parent = c01ForgedInter()
	}
	switch {
	case id.Chain == 2:
		// self-signed leaf (always "valid now": SelfSignLeaf has no validity knobs) unless a non-leaf type is wanted
		b.leaf, err = certs.SelfSignLeaf(ident)
	case !id.TypeLeaf:
		// an intermediate-typed certificate (signed by the root of the respective world) presented as the leaf
		root := w.Root
		if id.Chain == 1 {
			root = c01OtherWorld().Root
		}
		b.leaf, err = certs.IssueIntermediate(root, ident)
	default:
		b.leaf, err = certs.IssueLeafAt(parent, ident, issuedAt, validity)
	}
	vMust(err)
	switch id.Chain {
	case 0:
		b.inter = w.Inter
	case 1:
		b.inter = c01OtherWorld().Inter
	case 3:
		b.inter = c01OtherWorld().Inter
	case 5:
		b.inter = c01ForgedInter()
	}
	b.certKey = certKP.Public
	b.key = certKP
	if !id.HoldsKey {
		b.key = keys.GenerateNewX25519KeyPair()
	}
	return b
}

// c01Truth: does the identity satisfy the policy (ground truth from construction)?
func c01Truth(id c01Ident, p c01Policy, b c01Built) (ok bool, why string) {
	if !id.HoldsKey {
		return false, "does-not-hold-certified-key"
	}
	if p.Nil {
		return true, "no-verification-configured"
	}
	if p.Callback == 2 {
		return false, "additional-callback-rejects"
	}
	if p.Skip {
		return true, "verification-skipped"
	}
	typeLeaf := id.TypeLeaf || id.Chain == 2
	nameOK := true
	switch p.Name {
	case 1:
		nameOK = id.Name == 0
	case 2:
		nameOK = id.Name == 2
	case 3:
		nameOK = false
	}
	if p.AuthKeys && typeLeaf && nameOK && id.InSet {
		return true, "authorized-key"
	}
	timeOK := id.Time == 0
	if id.Chain == 2 {
		timeOK = true
	}
	if !id.TypeLeaf && id.Chain != 2 {
		// an intermediate-typed certificate issued through IssueIntermediate has the default validity window
		timeOK = true
	}
	if p.Store && typeLeaf && nameOK && timeOK && id.Chain == 0 {
		return true, "trusted-chain"
	}
	switch {
	case !typeLeaf:
		return false, "not-a-leaf"
	case !nameOK:
		return false, "name-mismatch"
	case id.Chain != 0 || !p.Store:
		return false, "untrusted-chain"
	default:
		return false, "time-invalid"
	}
}

func c01Verify(p c01Policy, b c01Built) *VerifyConfig {
	if p.Nil {
		return nil
	}
	w := vGetWorld()
	vc := &VerifyConfig{CurrentTime: w.Now, AuthKeysAllowed: p.AuthKeys, InsecureSkipVerify: p.Skip}
	if p.Store {
		vc.Store = w.store()
	} else {
		vc.Store = certs.Store{}
	}
	vc.AuthKeys = authkeys.NewSyncAuthKeySet()
	vc.AuthKeys.AddKey(keys.GenerateNewX25519KeyPair().Public) // some unrelated key
	switch p.Name {
	case 1:
		vc.Name = certs.RawStringName(c01Label)
	case 2:
		vc.Name = certs.DNSName(c01Label)
	case 3:
		vc.Name = certs.RawStringName("not-this-one.verif.test")
	}
	switch p.Callback {
	case 1:
		vc.AddVerifyCallback = func(*certs.Certificate) error { return nil }
	case 2:
		vc.AddVerifyCallback = func(*certs.Certificate) error { return fmt.Errorf("rejected by additional verify callback") }
	}
	return vc
}

type c01Result struct {
	cliErr    error
	accepted  bool
	delivered bool
	timedOut  bool
}

func c01Scenario(c c01Case, v *vlib.Verdict) (r c01Result) {
	w := vGetWorld()
	b := c01Build(c.Ident)
	vc := c01Verify(c.Policy, b)
	if vc != nil && c.Ident.InSet {
		vc.AuthKeys.AddKey(b.certKey)
	}
	if vc != nil && c.Ident.Removed && !c.Ident.InSet {
		vc.AuthKeys.AddKey(b.certKey)
		vc.AuthKeys.RemoveKey(b.certKey)
	}
	scfg := w.ServerConfig(c.Hidden)
	ccfg := w.ClientConfig(c.Hidden, false)
	if c.JudgeClient {
		// the server is the counterpart with the inconsistent identity; the client judges it
		scfg.KeyPair, scfg.Certificate, scfg.Intermediate = b.key, b.leaf, b.inter
		ccfg.Verify = *vc
	} else {
		ccfg.Exchanger, ccfg.Leaf, ccfg.Intermediate = b.key, b.leaf, b.inter
		scfg.ClientVerify = vc
		ccfg.Verify.Name = w.ServerName
	}
	env := vStartServer(scfg)
	defer env.Stop()
	cli, _ := env.NewClient(vCliAddr, ccfg)
	hsDone := make(chan error, 1)
	go func() { hsDone <- cli.Handshake() }()
	select {
	case r.cliErr = <-hsDone:
	case <-time.After(20 * time.Second):
		cli.Close()
		r.cliErr = <-hsDone
		if r.cliErr == nil {
			r.cliErr = fmt.Errorf("handshake did not return within 20 virtual seconds")
		}
		r.timedOut = true
	}
	h, err := env.Srv.AcceptTimeout(2 * time.Second)
	if err == nil && h != nil {
		r.accepted = true
		if r.cliErr == nil {
			msg := []byte("c01 probe payload from the client")
			if cli.WriteMsg(msg) == nil {
				buf := make([]byte, 200)
				h.SetReadDeadline(time.Now().Add(2 * time.Second))
				if n, err := h.ReadMsg(buf); err == nil && n > 0 {
					r.delivered = true
				}
			}
		}
	}
	cli.Close()
	return r
}

func c01Run(t *testing.T) func(c c01Case, v *vlib.Verdict) {
	return func(c c01Case, v *vlib.Verdict) {
		var r c01Result
		res := vlib.Bubble(t, 60*time.Second, func() { r = c01Scenario(c, v) })
		if res.Hung {
			v.Inconclusive = "bubble hung in real time (C01)"
			return
		}
		if res.Panic != "" {
			if res.Leak() || res.Deadlock() {
				v.Failf("C01:goroutines-left:"+fmt.Sprint(vlib.BlockedHopFrames(res.Stacks)), "after closing client and server goroutines remain: %v", vlib.BlockedHopFrames(res.Stacks))
			} else {
				v.Failf(vlib.PanicSig(res.Panic, res.Stacks), "panic: %s", res.Panic)
			}
			return
		}
		b := c01Built{}
		ok, why := c01Truth(c.Ident, c.Policy, b)
		mode := map[bool]string{false: "discoverable", true: "hidden"}[c.Hidden]
		side := map[bool]string{true: "client-judges-server", false: "server-judges-client"}[c.JudgeClient]
		v.Label(mode + ":" + side)
		v.Label("expected:" + why)
		honest := c.Ident == c01Ident{TypeLeaf: true, HoldsKey: true} || c.Ident == c01Ident{TypeLeaf: true, HoldsKey: true, InSet: true}
		v.NonTrivial = !honest
		v.Key = fmt.Sprintf("%+v", c)
		if c.JudgeClient {
			if r.cliErr == nil && !ok {
				v.Failf(fmt.Sprintf("C01:client-accepts-server:%s:%s", mode, why), "Client.Handshake succeeded although the server %s (identity %+v, policy %+v)", why, c.Ident, c.Policy)
				return
			}
			if r.cliErr != nil && ok && honest {
				v.Failf("C01:sanity:honest-server-rejected:"+mode, "honest valid server rejected under policy %+v: %v", c.Policy, r.cliErr)
			}
			return
		}
		// the server judges the client
		if !ok {
			if !c.Hidden && r.accepted {
				v.Failf(fmt.Sprintf("C01:server-offers-connection:%s:%s", mode, why), "Accept offered a connection although the client %s (identity %+v, policy %+v)", why, c.Ident, c.Policy)
				return
			}
			if r.delivered {
				v.Failf(fmt.Sprintf("C01:server-delivers-data:%s:%s", mode, why), "the server delivered application data although the client %s (identity %+v, policy %+v)", why, c.Ident, c.Policy)
				return
			}
			if c.Hidden && r.accepted {
				v.Label("hidden:connection-offered-before-proof(allowed)")
			}
		} else if honest && (!r.accepted || !r.delivered) {
			v.Failf("C01:sanity:honest-client-rejected:"+mode, "honest valid client not served under policy %+v: client err %v accepted %v delivered %v", c.Policy, r.cliErr, r.accepted, r.delivered)
		}
	}
}

func c01Policies(server bool) []c01Policy {
	var out []c01Policy
	for _, store := range []bool{true, false} {
		for _, ak := range []bool{false, true} {
			for _, skip := range []bool{false, true} {
				for name := 0; name <= 3; name++ {
					for cb := 0; cb <= 2; cb++ {
						out = append(out, c01Policy{Store: store, AuthKeys: ak, Skip: skip, Name: name, Callback: cb})
					}
				}
			}
		}
	}
	if server {
		out = append(out, c01Policy{Nil: true})
	}
	return out
}

func c01Idents() []c01Ident {
	honest := c01Ident{TypeLeaf: true, HoldsKey: true}
	out := []c01Ident{honest}
	add := func(f func(*c01Ident)) {
		x := honest
		f(&x)
		out = append(out, x)
		y := x
		y.InSet = true
		out = append(out, y)
	}
	add(func(i *c01Ident) {})
	add(func(i *c01Ident) { i.HoldsKey = false })
	for ch := 1; ch <= 5; ch++ {
		ch := ch
		add(func(i *c01Ident) { i.Chain = ch })
	}
	add(func(i *c01Ident) { i.Time = 1 })
	add(func(i *c01Ident) { i.Time = 2 })
	add(func(i *c01Ident) { i.TypeLeaf = false })
	add(func(i *c01Ident) { i.Name = 1 })
	add(func(i *c01Ident) { i.Name = 2 })
	add(func(i *c01Ident) { i.Chain = 2; i.HoldsKey = false })
	out = append(out, c01Ident{TypeLeaf: true, HoldsKey: true, Chain: 2, Removed: true}, c01Ident{TypeLeaf: true, HoldsKey: true, Chain: 1, Removed: true})
	add(func(i *c01Ident) { i.Chain = 1; i.Time = 1 })
	return out
}

// TestVerifC01Matrix enumerates mode x direction x counterpart kind x policy.
func TestVerifC01Matrix(t *testing.T) {
	run := c01Run(t)
	if vlib.ReplayEnumerated(t, "C01", run) {
		return
	}
	rec := vlib.Open(t, "C01")
	idx := 0
	for _, hidden := range []bool{false, true} {
		for _, judgeClient := range []bool{true, false} {
			for _, id := range c01Idents() {
				for _, p := range c01Policies(!judgeClient) {
					idx++
					if !rec.Mine(idx) {
						continue
					}
					if !vlib.Each(t, rec, c01Case{Hidden: hidden, JudgeClient: judgeClient, Ident: id, Policy: p}, run) {
						return
					}
				}
			}
		}
	}
	rec.SetExhaustive(true)
	rec.Extra("enumerated", fmt.Sprintf("2 modes x 2 directions x %d counterpart kinds x %d policies (+nil policy on the server side)", len(c01Idents()), len(c01Policies(false))))
}

func TestVerifC01Random(t *testing.T) {
	vlib.Drive(t, vlib.Spec[c01Case]{ID: "C01", Quick: 3000, Run: c01Run(t), Gen: func(t *rapid.T) c01Case {
		c := c01Case{Hidden: rapid.Bool().Draw(t, "hidden"), JudgeClient: rapid.Bool().Draw(t, "judgeClient")}
		c.Ident = c01Ident{
			Chain:    rapid.SampledFrom([]int{0, 0, 1, 2, 3, 4, 5}).Draw(t, "chain"),
			Time:     rapid.SampledFrom([]int{0, 0, 1, 2}).Draw(t, "time"),
			TypeLeaf: rapid.SampledFrom([]bool{true, true, true, false}).Draw(t, "typeLeaf"),
			Name:     rapid.SampledFrom([]int{0, 0, 1, 2}).Draw(t, "name"),
			HoldsKey: rapid.SampledFrom([]bool{true, true, false}).Draw(t, "holdsKey"),
			InSet:    rapid.Bool().Draw(t, "inSet"),
			Removed:  rapid.Bool().Draw(t, "removed"),
		}
		c.Policy = c01Policy{
			Store:    rapid.SampledFrom([]bool{true, true, false}).Draw(t, "store"),
			AuthKeys: rapid.Bool().Draw(t, "authKeys"),
			Skip:     rapid.SampledFrom([]bool{false, false, false, true}).Draw(t, "skip"),
			Name:     rapid.SampledFrom([]int{0, 1, 1, 2, 3}).Draw(t, "pname"),
			Callback: rapid.SampledFrom([]int{0, 0, 1, 2}).Draw(t, "cb"),
		}
		if !c.JudgeClient && rapid.SampledFrom([]int{0, 0, 0, 0, 0, 0, 0, 1}).Draw(t, "nilpolicy") == 1 {
			c.Policy = c01Policy{Nil: true}
		}
		return c
	}})
}

// ---------------------------------------------------------------------------------------------------------------------
// Family "interrupted": no peer ever proves anything (or the proof arrives late), several goroutines share one Client,
// Close lands at a generated virtual time. Every entry point that reports success implies a completed handshake:
// Handshake()==nil, and Write/WriteMsg/Read/ReadMsg returning nil (they run the handshake first). The oracle's ground
// truth is what the network delivered: success requires that the server's PROVING message (ServerAuth in discoverable
// mode, ServerResponseHidden in hidden mode) had been delivered to the client's socket before the call returned.

type c01iCaller struct {
	Entry   int `json:"entry"`   // 0 Handshake, 1 WriteMsg, 2 Write, 3 ReadMsg, 4 Read
	DelayUs int `json:"delayUs"` // virtual start delay
}

type c01iYield struct {
	Point int `json:"p"`
	Hit   int `json:"hit"`
	Us    int `json:"us"`
}

type c01iCase struct {
	Hidden      bool         `json:"hidden"`
	Reach       bool         `json:"reach"`     // the client's datagrams reach the server (false: the server is absent)
	Pass        int          `json:"pass"`      // how many of the server's handshake answers reach the client (0: silent; 1: stops answering after the first; >=2: all)
	LatencyUs   int          `json:"latencyUs"` // one-way latency of the network
	HSTimeoutMs int          `json:"hsTimeoutMs"`
	Callers     []c01iCaller `json:"callers"`
	CloseAtUs   int          `json:"closeAtUs"` // virtual time of Close; <0: only after every caller returned (or 20 s)
	Closers     int          `json:"closers"`   // concurrent Close calls
	Yields      []c01iYield  `json:"yields"`
}

var c01iEntries = []string{"Handshake", "WriteMsg", "Write", "ReadMsg", "Read"}

// all of them are reached with no mutex held (see C17, which sleeps at the same points)
var c01iPoints = []string{
	"transport.Client.Handshake.elected", "transport.Client.Handshake.beforeOpen", "transport.Client.Handshake.beforeDone",
	"transport.Client.Close.elected", "transport.Client.Close.connClosed", "transport.Client.Close.beforePublish",
}

type c01iResult struct {
	entry     int
	err       error
	proof     bool   // the proving message had been delivered to the client when the call returned
	panicked  string // panic value of the call itself
	panicSig  string
	probePan  string // panic of the write that followed a successful Handshake()
	probeSig  string
	returned  bool
}

func c01iScenario(c c01iCase, v *vlib.Verdict) (out []c01iResult, closeReturned bool) {
	w := vGetWorld()
	env := vStartServer(w.ServerConfig(c.Hidden))
	defer env.Stop()
	proofType := byte(MessageTypeServerAuth)
	if c.Hidden {
		proofType = byte(MessageTypeServerResponseHidden)
	}
	var fmu sync.Mutex
	answers := 0
	lat := time.Duration(c.LatencyUs) * time.Microsecond
	env.Net.Filter = func(d simnet.Datagram) []simnet.Datagram {
		if simnetEq(d.Dst, vCliAddr) {
			fmu.Lock()
			k := answers
			answers++
			fmu.Unlock()
			if k >= c.Pass {
				return nil
			}
		} else if !c.Reach {
			return nil
		}
		d.Delay = lat
		return []simnet.Datagram{d}
	}
	proofDelivered := func() bool {
		for _, d := range env.Net.DeliveredSnapshot() {
			if simnetEq(d.Dst, vCliAddr) && simnetEq(d.Src, vSrvAddr) && len(d.Data) > 0 && d.Data[0] == proofType {
				return true
			}
		}
		return false
	}
	ccfg := w.ClientConfig(c.Hidden, false)
	ccfg.HSTimeout = time.Duration(c.HSTimeoutMs) * time.Millisecond
	cli, _ := env.NewClient(vCliAddr, ccfg)
	// yield schedule
	sched := map[string]map[int]int{}
	for _, y := range c.Yields {
		pt := c01iPoints[y.Point%len(c01iPoints)]
		if sched[pt] == nil {
			sched[pt] = map[int]int{}
		}
		sched[pt][y.Hit] = y.Us
	}
	hits := map[string]int{}
	var hmu sync.Mutex
	verifhook.Set(func(point string) {
		m := sched[point]
		if m == nil {
			return
		}
		hmu.Lock()
		k := hits[point]
		hits[point]++
		hmu.Unlock()
		us, ok := m[k]
		if !ok {
			return
		}
		if us == 0 {
			runtime.Gosched()
			return
		}
		time.Sleep(time.Duration(us) * time.Microsecond)
	})
	defer verifhook.Set(nil)
	out = make([]c01iResult, len(c.Callers))
	var omu sync.Mutex
	var wg sync.WaitGroup
	// one reader at a time: Handle.Read takes a sync.Mutex, and a goroutine waiting for a mutex whose holder is parked on the
	// virtual clock freezes the bubble (see C17)
	readSem := make(chan struct{}, 1)
	guarded := func(f func()) (val, sig string) {
		defer func() {
			if r := recover(); r != nil {
				val = fmt.Sprint(r)
				sig = vlib.PanicSig(r, string(debug.Stack()))
			}
		}()
		f()
		return
	}
	for i, ca := range c.Callers {
		wg.Add(1)
		go func(i int, ca c01iCaller) {
			defer wg.Done()
			r := &c01iResult{entry: ca.Entry}
			defer func() { omu.Lock(); out[i] = *r; omu.Unlock() }()
			if ca.DelayUs > 0 {
				time.Sleep(time.Duration(ca.DelayUs) * time.Microsecond)
			}
			buf := make([]byte, 2000)
			r.panicked, r.panicSig = guarded(func() {
				switch ca.Entry {
				case 0:
					r.err = cli.Handshake()
				case 1:
					r.err = cli.WriteMsg(vlib.Fill(uint64(i), 40))
				case 2:
					_, r.err = cli.Write(vlib.Fill(uint64(i), 40))
				case 3:
					readSem <- struct{}{}
					defer func() { <-readSem }()
					_, r.err = cli.ReadMsg(buf)
				default:
					readSem <- struct{}{}
					defer func() { <-readSem }()
					_, r.err = cli.Read(buf)
				}
			})
			r.proof = proofDelivered()
			if r.panicked == "" && r.err == nil && ca.Entry == 0 {
				// what every caller does after a successful handshake: use the connection
				r.probePan, r.probeSig = guarded(func() { _ = cli.WriteMsg(vlib.Fill(uint64(100+i), 40)) })
			}
			r.returned = true
		}(i, ca)
	}
	callersDone := make(chan struct{})
	go func() { wg.Wait(); close(callersDone) }()
	if c.CloseAtUs >= 0 {
		time.Sleep(time.Duration(c.CloseAtUs) * time.Microsecond)
	} else {
		select {
		case <-callersDone:
		case <-time.After(20 * time.Second):
		}
	}
	closed := make(chan struct{}, 4)
	for i := 0; i < 1+c.Closers%3; i++ {
		go func() { cli.Close(); closed <- struct{}{} }()
	}
	select {
	case <-closed:
		closeReturned = true
	case <-time.After(30 * time.Second):
	}
	select {
	case <-callersDone:
	case <-time.After(30 * time.Second):
	}
	// a copy, so that a caller that never returns cannot race with the verdict
	res := make([]c01iResult, len(out))
	omu.Lock()
	defer omu.Unlock()
	for i := range out {
		if out[i].returned {
			res[i] = out[i]
		} else {
			res[i] = c01iResult{entry: c.Callers[i].Entry}
		}
	}
	return res, closeReturned
}

func c01iRun(t *testing.T) func(c c01iCase, v *vlib.Verdict) {
	return func(c c01iCase, v *vlib.Verdict) {
		var rs []c01iResult
		res := vlib.Bubble(t, 60*time.Second, func() { rs, _ = c01iScenario(c, v) })
		verifhook.Set(nil)
		if res.Hung {
			v.Inconclusive = "bubble hung in real time (C01 interrupted)"
			return
		}
		mode := map[bool]string{false: "discoverable", true: "hidden"}[c.Hidden]
		if res.Panic != "" {
			if res.Leak() || res.Deadlock() {
				// termination of every call is C17's clause; here it only means that the case cannot be judged
				v.Inconclusive = "calls not released (C17's clause): " + fmt.Sprint(vlib.BlockedHopFrames(res.Stacks))
			} else {
				v.Failf(vlib.PanicSig(res.Panic, res.Stacks), "panic: %s", res.Panic)
			}
			return
		}
		need := 2
		if c.Hidden {
			need = 1
		}
		possible := c.Reach && c.Pass >= need
		succ, fails := 0, 0
		for i, r := range rs {
			name := c01iEntries[r.entry]
			if r.panicked != "" {
				v.Failf(r.panicSig, "Client.%s (caller %d of %d on one client, proof possible: %v) panicked: %s", name, i, len(rs), possible, r.panicked)
				return
			}
			if !r.returned {
				v.Inconclusive = "caller did not return (C17's clause)"
				return
			}
			if r.err == nil {
				succ++
				if !r.proof {
					what := map[bool]string{true: "the server's proving message had not reached the client", false: "no proving message can ever reach this client"}[possible]
					v.Failf(fmt.Sprintf("C01:client-reports-success-without-server-proof:%s:%s", mode, name), "Client.%s returned nil (caller %d of %d concurrent callers, Close at %d us) although %s (reach=%v pass=%d latency=%dus)", name, i, len(rs), c.CloseAtUs, what, c.Reach, c.Pass, c.LatencyUs)
					return
				}
				if r.probePan != "" {
					v.Failf(r.probeSig, "after Client.Handshake returned nil the first WriteMsg panicked: %s", r.probePan)
					return
				}
			} else {
				fails++
			}
		}
		// sanity / non-vacuity: an honest reachable peer, no early Close, a timeout far above the round trips: the writers and
		// handshakers succeed
		if possible && c.CloseAtUs < 0 && (c.HSTimeoutMs == 0 || c.HSTimeoutMs >= 1000) {
			for i, r := range rs {
				if r.entry <= 2 && r.err != nil {
					v.Failf("C01:sanity:honest-server-rejected:"+mode+":concurrent-callers", "caller %d (Client.%s) failed against an honest reachable server without any Close: %v", i, c01iEntries[r.entry], r.err)
					return
				}
			}
		}
		v.Label("interrupted:" + mode)
		switch {
		case !c.Reach:
			v.Label("interrupted:server-absent")
		case c.Pass == 0:
			v.Label("interrupted:server-silent")
		case c.Pass < need:
			v.Label("interrupted:server-stops-answering-mid-handshake")
		default:
			v.Label("interrupted:server-honest")
		}
		if c.CloseAtUs >= 0 {
			v.Label("interrupted:close-at-generated-time")
		}
		if succ > 0 && fails > 0 {
			v.Label("interrupted:some-callers-succeed-some-fail")
		}
		if succ > 0 {
			v.Label("interrupted:success-with-proof")
		}
		if len(c.Yields) > 0 {
			v.Label("interrupted:with-yield-schedule")
		}
		v.NonTrivial = len(c.Callers) >= 2 && c.CloseAtUs >= 0
	}
}

func c01iGen(t *rapid.T) c01iCase {
	c := c01iCase{Hidden: rapid.Bool().Draw(t, "hidden")}
	c.Reach = rapid.SampledFrom([]bool{true, true, true, false}).Draw(t, "reach")
	c.Pass = rapid.SampledFrom([]int{0, 0, 1, 9}).Draw(t, "pass")
	c.LatencyUs = rapid.SampledFrom([]int{0, 1, 1000, 20000, 200000}).Draw(t, "latency")
	c.HSTimeoutMs = rapid.SampledFrom([]int{0, 50, 2000, 2000}).Draw(t, "hst")
	c.Callers = rapid.SliceOfN(rapid.Custom(func(t *rapid.T) c01iCaller {
		return c01iCaller{
			Entry:   rapid.SampledFrom([]int{0, 0, 0, 0, 1, 2, 3, 4}).Draw(t, "entry"),
			DelayUs: rapid.SampledFrom([]int{0, 0, 1, 100, 1000, 30000, 500000}).Draw(t, "delay"),
		}
	}), 1, 6).Draw(t, "callers")
	c.CloseAtUs = rapid.SampledFrom([]int{-1, 0, 1, 500, 2000, 40000, 90000, 450000, 900000, 3000000}).Draw(t, "closeAt")
	c.Closers = rapid.IntRange(0, 2).Draw(t, "closers")
	c.Yields = rapid.SliceOfN(rapid.Custom(func(t *rapid.T) c01iYield {
		return c01iYield{Point: rapid.IntRange(0, len(c01iPoints)-1).Draw(t, "pt"), Hit: rapid.IntRange(0, 1).Draw(t, "hit"), Us: rapid.SampledFrom([]int{0, 1, 500, 50000}).Draw(t, "us")}
	}), 0, 4).Draw(t, "yields")
	return c
}

// TestVerifC01Interrupted: concurrent callers on one client, a peer that never proves anything (or late), Close at a
// generated time.
func TestVerifC01Interrupted(t *testing.T) {
	vlib.Drive(t, vlib.Spec[c01iCase]{ID: "C01", Quick: 4000, Gen: c01iGen, Run: c01iRun(t)})
}

// ---------------------------------------------------------------------------------------------------------------------
// Family "real clock": VerifyConfig.CurrentTime is left zero on both sides (what production callers do, config.go), so
// certificate validity is judged against the clock - the bubble's virtual clock. One long-running server, a generated
// SEQUENCE of handshakes separated by generated sleeps, certificates whose validity windows begin and end while the
// sequence runs. Reference decision: the certificate is valid at the virtual instant of THAT handshake.

type c01rWin struct {
	FromS int `json:"fromS"` // valid from (start of the case + FromS seconds) ...
	ForS  int `json:"forS"`  // ... for ForS seconds
}

type c01rClient struct {
	Win   c01rWin `json:"win"`
	InSet bool    `json:"inSet"` // its key is in the server's authorized-key set
}

type c01rStep struct {
	SleepS int `json:"sleepS"` // whole seconds slept before this handshake; it then starts at the next half second
	Client int `json:"client"` // which client identity connects
}

type c01rCase struct {
	Hidden   bool         `json:"hidden"`
	AuthKeys bool         `json:"authKeys"` // server policy: authorized keys allowed in addition to the CA store
	Server   c01rWin      `json:"server"`
	Clients  []c01rClient `json:"clients"`
	Steps    []c01rStep   `json:"steps"`
}

type c01rStepResult struct {
	atMs      int64 // virtual time of the handshake, ms since the start of the case
	cliErr    error
	accepted  bool
	delivered bool
}

func (w c01rWin) validAt(ms int64) bool {
	return ms >= int64(w.FromS)*1000 && ms < int64(w.FromS+w.ForS)*1000
}

func c01rScenario(c c01rCase) (out []c01rStepResult) {
	w := vGetWorld() // only for the ML-KEM key pair (one per process)
	t0 := time.Now()
	if t0.Nanosecond() != 0 {
		panic("verif fixture: the bubble's clock does not start on a whole second")
	}
	root := vSigningCert("rc-root", nil)
	inter := vSigningCert("rc-intermediate", root)
	store := certs.Store{}
	store.AddCertificate(root)
	leaf := func(name string, win c01rWin) (*keys.X25519KeyPair, *certs.Certificate) {
		kp := keys.GenerateNewX25519KeyPair()
		lf, err := certs.IssueLeafAt(inter, &certs.Identity{PublicKey: kp.Public, Names: []certs.Name{certs.RawStringName(name)}},
			t0.Add(time.Duration(win.FromS)*time.Second), time.Duration(win.ForS)*time.Second)
		vMust(err)
		return kp, lf
	}
	srvKey, srvLeaf := leaf("server.verif.test", c.Server)
	set := authkeys.NewSyncAuthKeySet()
	set.AddKey(keys.GenerateNewX25519KeyPair().Public)
	type ident struct {
		key  *keys.X25519KeyPair
		leaf *certs.Certificate
	}
	var ids []ident
	for i, cl := range c.Clients {
		k, l := leaf(fmt.Sprintf("client-%d", i), cl.Win)
		ids = append(ids, ident{k, l})
		if cl.InSet {
			set.AddKey(k.Public)
		}
	}
	env := vStartServer(ServerConfig{
		KEMKeyPair: w.SrvKEM, KeyPair: srvKey, Certificate: srvLeaf, Intermediate: inter, HandshakeTimeout: 5 * time.Second, IsHidden: c.Hidden,
		ClientVerify: &VerifyConfig{Store: store, AuthKeysAllowed: c.AuthKeys, AuthKeys: set}, // CurrentTime zero: the clock decides
	})
	defer env.Stop()
	for i, st := range c.Steps {
		time.Sleep(time.Duration(st.SleepS) * time.Second)
		// validity windows begin and end on whole seconds; handshakes happen on half seconds (the fake network has no latency,
		// so both sides verify at this very instant)
		now := time.Since(t0)
		next := now.Truncate(time.Second) + 500*time.Millisecond
		if next < now {
			next += time.Second
		}
		time.Sleep(next - now)
		r := c01rStepResult{atMs: time.Since(t0).Milliseconds()}
		id := ids[st.Client%len(ids)]
		ccfg := ClientConfig{Exchanger: id.key, Leaf: id.leaf, Intermediate: inter, HSTimeout: 2 * time.Second,
			Verify: VerifyConfig{Store: store, Name: certs.RawStringName("server.verif.test")}} // CurrentTime zero
		if c.Hidden {
			pk := w.SrvKEM.Public
			ccfg.ServerKEMKey = &pk
		}
		cli, _ := env.NewClient(simnet.Addr("10.0.0.2", 41000+i), ccfg)
		hsDone := make(chan error, 1)
		go func() { hsDone <- cli.Handshake() }()
		select {
		case r.cliErr = <-hsDone:
		case <-time.After(20 * time.Second):
			cli.Close()
			if r.cliErr = <-hsDone; r.cliErr == nil {
				r.cliErr = fmt.Errorf("handshake did not return within 20 virtual seconds")
			}
		}
		h, err := env.Srv.AcceptTimeout(2 * time.Second)
		if err == nil && h != nil {
			r.accepted = true
			if r.cliErr == nil {
				if cli.WriteMsg([]byte(fmt.Sprintf("c01 real-clock probe of step %d", i))) == nil {
					buf := make([]byte, 200)
					h.SetReadDeadline(time.Now().Add(2 * time.Second))
					if n, err := h.ReadMsg(buf); err == nil && n > 0 {
						r.delivered = true
					}
				}
			}
			h.Close()
		}
		cli.Close()
		out = append(out, r)
	}
	return out
}

func c01rRun(t *testing.T) func(c c01rCase, v *vlib.Verdict) {
	return func(c c01rCase, v *vlib.Verdict) {
		var rs []c01rStepResult
		res := vlib.Bubble(t, 60*time.Second, func() { rs = c01rScenario(c) })
		if res.Hung {
			v.Inconclusive = "bubble hung in real time (C01 real clock)"
			return
		}
		mode := map[bool]string{false: "discoverable", true: "hidden"}[c.Hidden]
		if res.Panic != "" {
			if res.Leak() || res.Deadlock() {
				v.Failf("C01:goroutines-left:"+fmt.Sprint(vlib.BlockedHopFrames(res.Stacks)), "after closing clients and server goroutines remain: %v", vlib.BlockedHopFrames(res.Stacks))
			} else {
				v.Failf(vlib.PanicSig(res.Panic, res.Stacks), "panic: %s", res.Panic)
			}
			return
		}
		seenValid := map[string]map[bool]bool{}
		note := func(who string, ok bool) {
			if seenValid[who] == nil {
				seenValid[who] = map[bool]bool{}
			}
			seenValid[who][ok] = true
		}
		invalidSeen := false
		for i, r := range rs {
			st := c.Steps[i]
			ci := st.Client % len(c.Clients)
			cl := c.Clients[ci]
			srvOK := c.Server.validAt(r.atMs)
			cliTimeOK := cl.Win.validAt(r.atMs)
			cliOK := cliTimeOK || (c.AuthKeys && cl.InSet)
			note("server", srvOK)
			note(fmt.Sprintf("client-%d", ci), cliTimeOK)
			if !srvOK || !cliTimeOK {
				invalidSeen = true
			}
			where := fmt.Sprintf("handshake #%d of %d at +%d ms (server certificate valid [%d s,%d s), client %d certificate valid [%d s,%d s), in authorized keys: %v, authorized keys allowed: %v)",
				i, len(rs), r.atMs, c.Server.FromS, c.Server.FromS+c.Server.ForS, ci, cl.Win.FromS, cl.Win.FromS+cl.Win.ForS, cl.InSet, c.AuthKeys)
			if r.cliErr == nil && !srvOK {
				v.Failf(fmt.Sprintf("C01:client-accepts-server:%s:time-invalid:real-clock", mode), "Client.Handshake succeeded although the server's certificate is not valid at that instant: %s", where)
				return
			}
			if !cliOK {
				if !c.Hidden && r.accepted {
					v.Failf(fmt.Sprintf("C01:server-offers-connection:%s:time-invalid:real-clock", mode), "Accept offered a connection although the client's certificate is not valid at that instant: %s", where)
					return
				}
				if r.delivered {
					v.Failf(fmt.Sprintf("C01:server-delivers-data:%s:time-invalid:real-clock", mode), "the server delivered application data although the client's certificate is not valid at that instant: %s", where)
					return
				}
			}
			if srvOK && cliOK && (r.cliErr != nil || !r.accepted || !r.delivered) {
				v.Failf("C01:sanity:valid-certificates-rejected:"+mode+":real-clock", "both certificates are valid at that instant, yet client err %v, accepted %v, delivered %v: %s", r.cliErr, r.accepted, r.delivered, where)
				return
			}
			switch {
			case !srvOK:
				v.Label("real-clock:server-certificate-invalid-at-handshake")
			case !cliTimeOK && cliOK:
				v.Label("real-clock:client-certificate-invalid-but-authorized-key")
			case !cliOK:
				v.Label("real-clock:client-certificate-invalid-at-handshake")
			default:
				v.Label("real-clock:both-valid-at-handshake")
			}
		}
		changed := false
		var who []string
		for k, m := range seenValid {
			if m[true] && m[false] {
				changed = true
				who = append(who, strings.SplitN(k, "-", 2)[0])
			}
		}
		sort.Strings(who)
		v.Label("real-clock:" + mode)
		if changed {
			v.Label("real-clock:validity-of-one-identity-differs-between-handshakes:" + strings.Join(who, "+"))
		}
		v.NonTrivial = len(rs) >= 2 && invalidSeen
	}
}

func c01rGen(t *rapid.T) c01rCase {
	c := c01rCase{Hidden: rapid.Bool().Draw(t, "hidden")}
	c.AuthKeys = rapid.SampledFrom([]bool{false, false, false, true}).Draw(t, "authKeys")
	c.Server = c01rWin{FromS: rapid.SampledFrom([]int{0, 0, 0, 0, 3, 20}).Draw(t, "srvFrom"), ForS: rapid.SampledFrom([]int{100000, 100000, 100000, 5, 30, 100}).Draw(t, "srvFor")}
	c.Clients = rapid.SliceOfN(rapid.Custom(func(t *rapid.T) c01rClient {
		return c01rClient{
			Win:   c01rWin{FromS: rapid.SampledFrom([]int{0, 0, 0, 3, 10, 40}).Draw(t, "from"), ForS: rapid.SampledFrom([]int{2, 4, 10, 30, 100, 100000}).Draw(t, "for")},
			InSet: rapid.SampledFrom([]bool{false, false, false, true}).Draw(t, "inSet"),
		}
	}), 1, 3).Draw(t, "clients")
	n := len(c.Clients)
	c.Steps = rapid.SliceOfN(rapid.Custom(func(t *rapid.T) c01rStep {
		return c01rStep{SleepS: rapid.SampledFrom([]int{0, 0, 1, 3, 8, 25, 70}).Draw(t, "sleep"), Client: rapid.IntRange(0, n-1).Draw(t, "client")}
	}), 1, 6).Draw(t, "steps")
	return c
}

// TestVerifC01RealClock: sequences of handshakes under the (virtual) clock with CurrentTime left zero.
func TestVerifC01RealClock(t *testing.T) {
	vlib.Drive(t, vlib.Spec[c01rCase]{ID: "C01", Quick: 2000, Gen: c01rGen, Run: c01rRun(t)})
}
