//go:build go1.25

package transport

// C01 — a handshake completes only with a peer that proved its certified key,
// under every verification policy, in both modes and both directions.
//
// The counterpart is the REAL endpoint code with a deliberately inconsistent
// configuration (identity attributes below); the oracle is a policy predicate
// over the ground truth of how the identity was built.

import (
	"bytes"
	"fmt"
	"testing"
	"time"

	"pgregory.net/rapid"

	"hop.computer/hop/authkeys"
	"hop.computer/hop/certs"
	"hop.computer/hop/keys"
	"verif.local/vlib"
)

// identity of the counterpart (the party being judged)
type c01Ident struct {
	Chain    int  `json:"chain"`    // 0 trusted chain, 1 chain under an untrusted root, 2 self-signed leaf, 3 trusted leaf but unrelated intermediate presented, 4 trusted leaf, no intermediate presented, 5 leaf properly issued by a forged intermediate that names the trusted root as its parent but is not signed by it
	Time     int  `json:"time"`     // 0 valid, 1 expired, 2 not yet valid
	TypeLeaf bool `json:"typeLeaf"` // false: an intermediate-typed certificate is presented as the leaf
	Name     int  `json:"name"`     // 0 the expected label (raw type), 1 another label, 2 same label but DNS type
	HoldsKey bool `json:"holdsKey"` // false: presents a certificate for a key it does not hold (impostor)
	InSet    bool `json:"inSet"`    // the certified key is in the judge's authorized-key set
	Removed  bool `json:"removed"`  // the certified key WAS added to the judge's authorized-key set and then removed again
}

// verification policy of the judging party
type c01Policy struct {
	Nil      bool `json:"nil"`      // server only: ClientVerify == nil
	Store    bool `json:"store"`    // trust store contains the honest root
	AuthKeys bool `json:"authKeys"` // AuthKeysAllowed
	Skip     bool `json:"skip"`     // InsecureSkipVerify
	Name     int  `json:"name"`     // expected name: 0 zero, 1 the label (raw), 2 same label DNS type, 3 other label
	Callback int  `json:"cb"`       // 0 none, 1 accepting, 2 rejecting
}

type c01Case struct {
	Hidden      bool      `json:"hidden"`
	JudgeClient bool      `json:"judgeIsClient"` // true: the client judges the server; false: the server judges the client
	Ident       c01Ident  `json:"ident"`
	Policy      c01Policy `json:"policy"`
}

const c01Label = "peer.verif.test"

type c01Built struct {
	key      *keys.X25519KeyPair // the key the counterpart actually uses
	leaf     *certs.Certificate
	inter    *certs.Certificate
	certKey  keys.DHPublicKey // the key named in the certificate
}

var c01Other *vWorld // an unrelated certificate world (untrusted root)

func c01OtherWorld() *vWorld {
	if c01Other == nil {
		w := &vWorld{}
		w.Root = vSigningCert("other-root", nil)
		w.Inter = vSigningCert("other-intermediate", w.Root)
		c01Other = w
	}
	return c01Other
}

var c01Forged *certs.Certificate

// c01ForgedInter: an intermediate issued by an impostor's own root key whose Parent field was overwritten
// with the fingerprint of the TRUSTED root (so the signature does not verify under the trusted root's key).
func c01ForgedInter() *certs.Certificate {
	if c01Forged != nil {
		return c01Forged
	}
	w := vGetWorld()
	fakeRoot := vSigningCert("forger-root", nil)
	k := keys.GenerateNewSigningKeyPair()
	inter, err := certs.IssueIntermediate(fakeRoot, &certs.Identity{PublicKey: k.Public, Names: []certs.Name{certs.RawStringName("forged-intermediate")}})
	vMust(err)
	inter.Parent = w.Root.Fingerprint
	raw, err := inter.Marshal()
	vMust(err)
	re := &certs.Certificate{}
	_, err = re.ReadFrom(bytes.NewReader(raw))
	vMust(err)
	re.ProvideKey((*[32]byte)(&k.Private))
	c01Forged = re
	return re
}

func c01Build(id c01Ident) c01Built {
	w := vGetWorld()
	certKP := keys.GenerateNewX25519KeyPair()
	var names []certs.Name
	switch id.Name {
	case 0:
		names = []certs.Name{certs.RawStringName(c01Label)}
	case 1:
		names = []certs.Name{certs.RawStringName("somebody-else.verif.test")}
	default:
		names = []certs.Name{certs.DNSName(c01Label)}
	}
	ident := &certs.Identity{PublicKey: certKP.Public, Names: names}
	// the issuing API requires the parent to be valid at issuance time; the world's CA certificates were
	// issued at T0 (= w.Now - 1 min), so every leaf is issued inside [T0, ...)
	t0 := w.Inter.IssuedAt
	if o := c01OtherWorld().Inter.IssuedAt; o.After(t0) {
		t0 = o
	}
	issuedAt := t0
	validity := 48 * time.Hour
	switch id.Time {
	case 1:
		validity = 5 * time.Second // expired well before w.Now
	case 2:
		issuedAt = w.Now.Add(24 * time.Hour)
	}
	var b c01Built
	var err error
	parent := w.Inter
	if id.Chain == 1 {
		parent = c01OtherWorld().Inter
	}
	if id.Chain == 5 {
		parent = c01ForgedInter()
	}
	switch {
	case id.Chain == 2:
		// self-signed leaf (always "valid now": SelfSignLeaf has no validity knobs) unless a non-leaf type is wanted
		b.leaf, err = certs.SelfSignLeaf(ident)
	case !id.TypeLeaf:
		// an intermediate-typed certificate (signed by the root of the respective world) presented as the leaf
		root := w.Root
		if id.Chain == 1 {
			root = c01OtherWorld().Root
		}
		b.leaf, err = certs.IssueIntermediate(root, ident)
	default:
		b.leaf, err = certs.IssueLeafAt(parent, ident, issuedAt, validity)
	}
	vMust(err)
	switch id.Chain {
	case 0:
		b.inter = w.Inter
	case 1:
		b.inter = c01OtherWorld().Inter
	case 3:
		b.inter = c01OtherWorld().Inter
	case 5:
		b.inter = c01ForgedInter()
	}
	b.certKey = certKP.Public
	b.key = certKP
	if !id.HoldsKey {
		b.key = keys.GenerateNewX25519KeyPair()
	}
	return b
}

// c01Truth: does the identity satisfy the policy (ground truth from construction)?
func c01Truth(id c01Ident, p c01Policy, b c01Built) (ok bool, why string) {
	if !id.HoldsKey {
		return false, "does-not-hold-certified-key"
	}
	if p.Nil {
		return true, "no-verification-configured"
	}
	if p.Callback == 2 {
		return false, "additional-callback-rejects"
	}
	if p.Skip {
		return true, "verification-skipped"
	}
	typeLeaf := id.TypeLeaf || id.Chain == 2
	nameOK := true
	switch p.Name {
	case 1:
		nameOK = id.Name == 0
	case 2:
		nameOK = id.Name == 2
	case 3:
		nameOK = false
	}
	if p.AuthKeys && typeLeaf && nameOK && id.InSet {
		return true, "authorized-key"
	}
	timeOK := id.Time == 0
	if id.Chain == 2 {
		timeOK = true
	}
	if !id.TypeLeaf && id.Chain != 2 {
		// an intermediate-typed certificate issued through IssueIntermediate has the default validity window
		timeOK = true
	}
	if p.Store && typeLeaf && nameOK && timeOK && id.Chain == 0 {
		return true, "trusted-chain"
	}
	switch {
	case !typeLeaf:
		return false, "not-a-leaf"
	case !nameOK:
		return false, "name-mismatch"
	case id.Chain != 0 || !p.Store:
		return false, "untrusted-chain"
	default:
		return false, "time-invalid"
	}
}

func c01Verify(p c01Policy, b c01Built) *VerifyConfig {
	if p.Nil {
		return nil
	}
	w := vGetWorld()
	vc := &VerifyConfig{CurrentTime: w.Now, AuthKeysAllowed: p.AuthKeys, InsecureSkipVerify: p.Skip}
	if p.Store {
		vc.Store = w.store()
	} else {
		vc.Store = certs.Store{}
	}
	vc.AuthKeys = authkeys.NewSyncAuthKeySet()
	vc.AuthKeys.AddKey(keys.GenerateNewX25519KeyPair().Public) // some unrelated key
	switch p.Name {
	case 1:
		vc.Name = certs.RawStringName(c01Label)
	case 2:
		vc.Name = certs.DNSName(c01Label)
	case 3:
		vc.Name = certs.RawStringName("not-this-one.verif.test")
	}
	switch p.Callback {
	case 1:
		vc.AddVerifyCallback = func(*certs.Certificate) error { return nil }
	case 2:
		vc.AddVerifyCallback = func(*certs.Certificate) error { return fmt.Errorf("rejected by additional verify callback") }
	}
	return vc
}

type c01Result struct {
	cliErr    error
	accepted  bool
	delivered bool
	timedOut  bool
}

func c01Scenario(c c01Case, v *vlib.Verdict) (r c01Result) {
	w := vGetWorld()
	b := c01Build(c.Ident)
	vc := c01Verify(c.Policy, b)
	if vc != nil && c.Ident.InSet {
		vc.AuthKeys.AddKey(b.certKey)
	}
	if vc != nil && c.Ident.Removed && !c.Ident.InSet {
		vc.AuthKeys.AddKey(b.certKey)
		vc.AuthKeys.RemoveKey(b.certKey)
	}
	scfg := w.ServerConfig(c.Hidden)
	ccfg := w.ClientConfig(c.Hidden, false)
	if c.JudgeClient {
		// the server is the counterpart with the inconsistent identity; the client judges it
		scfg.KeyPair, scfg.Certificate, scfg.Intermediate = b.key, b.leaf, b.inter
		ccfg.Verify = *vc
	} else {
		ccfg.Exchanger, ccfg.Leaf, ccfg.Intermediate = b.key, b.leaf, b.inter
		scfg.ClientVerify = vc
		ccfg.Verify.Name = w.ServerName
	}
	env := vStartServer(scfg)
	defer env.Stop()
	cli, _ := env.NewClient(vCliAddr, ccfg)
	hsDone := make(chan error, 1)
	go func() { hsDone <- cli.Handshake() }()
	select {
	case r.cliErr = <-hsDone:
	case <-time.After(20 * time.Second):
		cli.Close()
		r.cliErr = <-hsDone
		if r.cliErr == nil {
			r.cliErr = fmt.Errorf("handshake did not return within 20 virtual seconds")
		}
		r.timedOut = true
	}
	h, err := env.Srv.AcceptTimeout(2 * time.Second)
	if err == nil && h != nil {
		r.accepted = true
		if r.cliErr == nil {
			msg := []byte("c01 probe payload from the client")
			if cli.WriteMsg(msg) == nil {
				buf := make([]byte, 200)
				h.SetReadDeadline(time.Now().Add(2 * time.Second))
				if n, err := h.ReadMsg(buf); err == nil && n > 0 {
					r.delivered = true
				}
			}
		}
	}
	cli.Close()
	return r
}

func c01Run(t *testing.T) func(c c01Case, v *vlib.Verdict) {
	return func(c c01Case, v *vlib.Verdict) {
		var r c01Result
		res := vlib.Bubble(t, 60*time.Second, func() { r = c01Scenario(c, v) })
		if res.Hung {
			v.Inconclusive = "bubble hung in real time (C01)"
			return
		}
		if res.Panic != "" {
			if res.Leak() || res.Deadlock() {
				v.Failf("C01:goroutines-left:"+fmt.Sprint(vlib.BlockedHopFrames(res.Stacks)), "after closing client and server goroutines remain: %v", vlib.BlockedHopFrames(res.Stacks))
			} else {
				v.Failf(vlib.PanicSig(res.Panic, res.Stacks), "panic: %s", res.Panic)
			}
			return
		}
		b := c01Built{}
		ok, why := c01Truth(c.Ident, c.Policy, b)
		mode := map[bool]string{false: "discoverable", true: "hidden"}[c.Hidden]
		side := map[bool]string{true: "client-judges-server", false: "server-judges-client"}[c.JudgeClient]
		v.Label(mode + ":" + side)
		v.Label("expected:" + why)
		honest := c.Ident == c01Ident{TypeLeaf: true, HoldsKey: true} || c.Ident == c01Ident{TypeLeaf: true, HoldsKey: true, InSet: true}
		v.NonTrivial = !honest
		v.Key = fmt.Sprintf("%+v", c)
		if c.JudgeClient {
			if r.cliErr == nil && !ok {
				v.Failf(fmt.Sprintf("C01:client-accepts-server:%s:%s", mode, why), "Client.Handshake succeeded although the server %s (identity %+v, policy %+v)", why, c.Ident, c.Policy)
				return
			}
			if r.cliErr != nil && ok && honest {
				v.Failf("C01:sanity:honest-server-rejected:"+mode, "honest valid server rejected under policy %+v: %v", c.Policy, r.cliErr)
			}
			return
		}
		// the server judges the client
		if !ok {
			if !c.Hidden && r.accepted {
				v.Failf(fmt.Sprintf("C01:server-offers-connection:%s:%s", mode, why), "Accept offered a connection although the client %s (identity %+v, policy %+v)", why, c.Ident, c.Policy)
				return
			}
			if r.delivered {
				v.Failf(fmt.Sprintf("C01:server-delivers-data:%s:%s", mode, why), "the server delivered application data although the client %s (identity %+v, policy %+v)", why, c.Ident, c.Policy)
				return
			}
			if c.Hidden && r.accepted {
				v.Label("hidden:connection-offered-before-proof(allowed)")
			}
		} else if honest && (!r.accepted || !r.delivered) {
			v.Failf("C01:sanity:honest-client-rejected:"+mode, "honest valid client not served under policy %+v: client err %v accepted %v delivered %v", c.Policy, r.cliErr, r.accepted, r.delivered)
		}
	}
}

func c01Policies(server bool) []c01Policy {
	var out []c01Policy
	for _, store := range []bool{true, false} {
		for _, ak := range []bool{false, true} {
			for _, skip := range []bool{false, true} {
				for name := 0; name <= 3; name++ {
					for cb := 0; cb <= 2; cb++ {
						out = append(out, c01Policy{Store: store, AuthKeys: ak, Skip: skip, Name: name, Callback: cb})
					}
				}
			}
		}
	}
	if server {
		out = append(out, c01Policy{Nil: true})
	}
	return out
}

func c01Idents() []c01Ident {
	honest := c01Ident{TypeLeaf: true, HoldsKey: true}
	out := []c01Ident{honest}
	add := func(f func(*c01Ident)) {
		x := honest
		f(&x)
		out = append(out, x)
		y := x
		y.InSet = true
		out = append(out, y)
	}
	add(func(i *c01Ident) {})
	add(func(i *c01Ident) { i.HoldsKey = false })
	for ch := 1; ch <= 5; ch++ {
		ch := ch
		add(func(i *c01Ident) { i.Chain = ch })
	}
	add(func(i *c01Ident) { i.Time = 1 })
	add(func(i *c01Ident) { i.Time = 2 })
	add(func(i *c01Ident) { i.TypeLeaf = false })
	add(func(i *c01Ident) { i.Name = 1 })
	add(func(i *c01Ident) { i.Name = 2 })
	add(func(i *c01Ident) { i.Chain = 2; i.HoldsKey = false })
	out = append(out, c01Ident{TypeLeaf: true, HoldsKey: true, Chain: 2, Removed: true}, c01Ident{TypeLeaf: true, HoldsKey: true, Chain: 1, Removed: true})
	add(func(i *c01Ident) { i.Chain = 1; i.Time = 1 })
	return out
}

// TestVerifC01Matrix enumerates mode x direction x counterpart kind x policy.
func TestVerifC01Matrix(t *testing.T) {
	run := c01Run(t)
	if vlib.ReplayEnumerated(t, "C01", run) {
		return
	}
	rec := vlib.Open(t, "C01")
	idx := 0
	for _, hidden := range []bool{false, true} {
		for _, judgeClient := range []bool{true, false} {
			for _, id := range c01Idents() {
				for _, p := range c01Policies(!judgeClient) {
					idx++
					if !rec.Mine(idx) {
						continue
					}
					if !vlib.Each(t, rec, c01Case{Hidden: hidden, JudgeClient: judgeClient, Ident: id, Policy: p}, run) {
						return
					}
				}
			}
		}
	}
	rec.SetExhaustive(true)
	rec.Extra("enumerated", fmt.Sprintf("2 modes x 2 directions x %d counterpart kinds x %d policies (+nil policy on the server side)", len(c01Idents()), len(c01Policies(false))))
}

func TestVerifC01Random(t *testing.T) {
	vlib.Drive(t, vlib.Spec[c01Case]{ID: "C01", Quick: 3000, Run: c01Run(t), Gen: func(t *rapid.T) c01Case {
		c := c01Case{Hidden: rapid.Bool().Draw(t, "hidden"), JudgeClient: rapid.Bool().Draw(t, "judgeClient")}
		c.Ident = c01Ident{
			Chain:    rapid.SampledFrom([]int{0, 0, 1, 2, 3, 4, 5}).Draw(t, "chain"),
			Time:     rapid.SampledFrom([]int{0, 0, 1, 2}).Draw(t, "time"),
			TypeLeaf: rapid.SampledFrom([]bool{true, true, true, false}).Draw(t, "typeLeaf"),
			Name:     rapid.SampledFrom([]int{0, 0, 1, 2}).Draw(t, "name"),
			HoldsKey: rapid.SampledFrom([]bool{true, true, false}).Draw(t, "holdsKey"),
			InSet:    rapid.Bool().Draw(t, "inSet"),
			Removed:  rapid.Bool().Draw(t, "removed"),
		}
		c.Policy = c01Policy{
			Store:    rapid.SampledFrom([]bool{true, true, false}).Draw(t, "store"),
			AuthKeys: rapid.Bool().Draw(t, "authKeys"),
			Skip:     rapid.SampledFrom([]bool{false, false, false, true}).Draw(t, "skip"),
			Name:     rapid.SampledFrom([]int{0, 1, 1, 2, 3}).Draw(t, "pname"),
			Callback: rapid.SampledFrom([]int{0, 0, 1, 2}).Draw(t, "cb"),
		}
		if !c.JudgeClient && rapid.SampledFrom([]int{0, 0, 0, 0, 0, 0, 0, 1}).Draw(t, "nilpolicy") == 1 {
			c.Policy = c01Policy{Nil: true}
		}
		return c
	}})
}
