package transport

// C14 (session part) — "accepted" in the statement means authenticated and accepted: the filter's decisions may depend
// only on counters of packets that were really accepted. Here the same generated counter sequences as in
// zz_verif_c14_test.go run through the real SessionState.readPacketLocked (transport.go): every step is a sealed
// packet with that counter, genuine (op.Mark) or with one ciphertext bit flipped (fails authentication); the packet
// is returned to the caller iff it is genuine and the reference filter over the ACCEPTED counters says fresh.

import (
	"testing"

	"verif.local/vlib"
)

func c14sRun(c c14Case, v *vlib.Verdict) {
	var key [KeyLen]byte
	copy(key[:], vlib.Fill(14, KeyLen))
	var snd, rcv SessionState
	copy(snd.sessionID[:], []byte{1, 2, 3, 4})
	rcv.sessionID = snd.sessionID
	m := &c14Model{acc: map[uint64]bool{}}
	var seen []uint64
	var last uint64
	dup, jump, forged := false, false, false
	plain := make([]byte, 64)
	vlib.Guard(v, func() {
		for i, op := range c.Ops {
			seq := c14Resolve(op, m.top, last, seen)
			last = seq
			snd.count = seq
			// payload length 0 (tag-only packet), 1 or 4 bytes - the filter must not care
			payload := []byte{byte(i), byte(i >> 8), 0xC1, 0x4}[:[]int{0, 1, 4, 4}[(seq+uint64(i))%4]]
			pkt, err := snd.sealPacketLocked(MessageTypeTransport, payload, &key)
			if err != nil {
				v.Inconclusive = "seal: " + err.Error()
				return
			}
			if !op.Mark {
				pkt[HeaderLen+SessionIDLen+CounterLen+int(seq%uint64(len(payload)+TagLen))] ^= 1 << (seq % 8)
				forged = true
			}
			if m.acc[seq] {
				dup = true
			}
			if seq > m.top && (seq>>6) != (m.top>>6) {
				jump = true
			}
			want := op.Mark && m.accept(seq)
			_, _, rerr := rcv.readPacketLocked(plain, pkt, &key)
			got := rerr == nil
			if got != want {
				kind := "rejected-fresh"
				switch {
				case got && !op.Mark:
					kind = "accepted-unauthentic"
				case got && m.acc[seq]:
					kind = "accepted-duplicate"
				case got:
					kind = "accepted-stale"
				}
				v.Failf("C14:session:"+kind, "step %d: readPacketLocked(counter %d, genuine=%v) err=%v, the reference filter over the accepted counters says accept=%v (top=%d, top-seq=%d, accepted before=%v)", i, seq, op.Mark, rerr, want, m.top, int64(m.top-seq), m.acc[seq])
				return
			}
			if got {
				m.mark(seq)
			}
			seen = append(seen, seq)
		}
	})
	v.NonTrivial = dup && jump && forged
	if forged {
		v.Label("forged-packets-in-sequence")
	}
	if dup {
		v.Label("duplicate-probe")
	}
	if jump {
		v.Label("block-jump")
	}
	v.Labelf("len<=%d", bucket(len(c.Ops)))
}

func TestVerifC14Session(t *testing.T) {
	vlib.Drive(t, vlib.Spec[c14Case]{ID: "C14", Quick: 40000, Gen: c14Gen, Run: c14sRun})
}
