//go:build go1.25

package transport

// C17 (transport half) — clients, handles and servers are safe under
// concurrent use: every call returns (released by Close with end-of-stream, or
// by an expired deadline / handshake timeout with a timeout error), Close is
// idempotent with one result for all callers, data queued before Close is
// returned before end-of-stream.

import (
	"errors"
	"fmt"
	"io"
	"net"
	"os"
	"runtime"
	"sort"
	"strings"
	"sync"
	"sync/atomic"
	"testing"
	"testing/synctest"
	"time"

	"pgregory.net/rapid"
	"hop.computer/hop/pkg/verifhook"
	"verif.local/vlib"
	"verif.local/vlib/simnet"
)

type c17tOp struct {
	Obj     int `json:"obj"`  // 0 client, 1 handle, 2 server
	Kind    int `json:"kind"` // see c17tKinds
	Arg     int `json:"arg"`
	DelayMs int `json:"delay"`
}

var c17tKinds = []string{"Handshake", "Read", "ReadMsg", "Write", "WriteMsg", "SetDeadline", "SetReadDeadline", "Close", "AcceptTimeout"}

type c17tYield struct {
	Point int `json:"p"`
	Hit   int `json:"hit"`
	Us    int `json:"us"`
}

type c17tCase struct {
	Hidden      bool        `json:"hidden"`
	Peer        int         `json:"peer"`      // 0 honest, 1 silent server (nothing comes back), 2 vanishing (everything is lost from VanishMs on)
	VanishMs    int         `json:"vanishMs"`
	HSTimeoutMs int         `json:"hsTimeoutMs"` // 0: none
	HSDeadlineMs int        `json:"hsDeadlineMs"` // 0: none; absolute deadline this many ms after start
	Procs       [][]c17tOp  `json:"procs"`
	Yields      []c17tYield `json:"yields"`
	Drain       int         `json:"drain"` // >0: drain sub-scenario with this many messages (1: on the client, 2: on the handle: Drain/10 messages)
	CloseFail   int         `json:"closeFail"` // fault: Close of the underlying socket reports an error (bit 0: the server's socket, bit 1: the client's socket); the socket is closed all the same
}

// c17tCloseErr is what a failing close of the underlying socket reports (CloseFail).
var c17tCloseErr = errors.New("verif: close of the underlying socket failed")

var c17tPoints = []string{
	"transport.Client.Close.elected", "transport.Client.Close.connClosed", "transport.Client.Close.beforePublish",
	"transport.Client.Handshake.elected", "transport.Client.Handshake.beforeOpen", "transport.Client.Handshake.beforeDone",
	"transport.Server.Close.elected", "transport.Server.Close.workersDone", "transport.Server.Close.tablesCleared",
	"transport.Server.Serve.registered", "transport.Handle.send.enter",
	"common.DeadlineChan.Recv.afterPoll", "common.DeadlineChan.Recv.afterClosedCheck", "common.DeadlineChan.Recv.beforeWait",
}

// Handle.send.enter is reached before writeLock is taken, Recv points hold no mutex of their own but the caller
// (Handle.Read) holds readLock: a second reader of the same handle would wait on that mutex, so these only Gosched.
var c17tGoschedOnly = map[string]bool{
	"common.DeadlineChan.Recv.afterPoll": true, "common.DeadlineChan.Recv.afterClosedCheck": true, "common.DeadlineChan.Recv.beforeWait": true,
}

type c17tEvent struct {
	Key   string
	Obj   int
	Kind  int
	Err   error
	N     int
	Start time.Duration
	End   time.Duration
}

func c17tScenario(c c17tCase, v *vlib.Verdict) {
	w := vGetWorld()
	env := vStartServer(w.ServerConfig(c.Hidden))
	start := time.Now()
	var mu sync.Mutex
	var events []*c17tEvent
	pending := map[string]time.Duration{}
	fail := func(sig, f string, a ...any) {
		mu.Lock()
		defer mu.Unlock()
		if v.OK() {
			v.Failf(sig, f, a...)
		}
	}
	// network behaviour of the peer
	env.Net.Filter = func(d simnet.Datagram) []simnet.Datagram {
		toClient := simnetEq(d.Dst, vCliAddr)
		switch c.Peer {
		case 1:
			if toClient {
				return nil
			}
		case 2:
			if time.Since(start) >= time.Duration(c.VanishMs)*time.Millisecond {
				return nil
			}
		}
		return []simnet.Datagram{d}
	}
	ccfg := w.ClientConfig(c.Hidden, false)
	ccfg.HSTimeout = time.Duration(c.HSTimeoutMs) * time.Millisecond
	if c.HSDeadlineMs > 0 {
		ccfg.HSDeadline = time.Now().Add(time.Duration(c.HSDeadlineMs) * time.Millisecond)
	}
	cli, cliSock := env.NewClient(vCliAddr, ccfg)
	if c.CloseFail&1 != 0 {
		env.SrvSock.FailClose(c17tCloseErr)
	}
	if c.CloseFail&2 != 0 {
		cliSock.FailClose(c17tCloseErr)
	}
	// the handle becomes available when the server accepts
	handleCh := make(chan *Handle, 1)
	var handle *Handle
	var hOnce sync.Once
	var finishingFlag atomic.Bool
	getHandle := func(wait time.Duration) *Handle {
		mu.Lock()
		h := handle
		mu.Unlock()
		if h != nil {
			return h
		}
		deadline := time.Now().Add(wait)
		for {
			select {
			case h = <-handleCh:
				mu.Lock()
				handle = h
				mu.Unlock()
				handleCh <- h
				return h
			case <-time.After(200 * time.Millisecond):
				if finishingFlag.Load() || !time.Now().Before(deadline) {
					return nil
				}
			}
		}
	}
	go func() {
		h, err := env.Srv.AcceptTimeout(20 * time.Second)
		if err == nil && h != nil {
			hOnce.Do(func() { handleCh <- h })
		}
	}()
	// yield schedule
	sched := map[string]map[int]int{}
	for _, y := range c.Yields {
		pt := c17tPoints[y.Point%len(c17tPoints)]
		if sched[pt] == nil {
			sched[pt] = map[int]int{}
		}
		sched[pt][y.Hit] = y.Us
	}
	hits := map[string]int{}
	var hmu sync.Mutex
	verifhook.Set(func(point string) {
		m := sched[point]
		if m == nil {
			return
		}
		hmu.Lock()
		k := hits[point]
		hits[point]++
		hmu.Unlock()
		us, ok := m[k]
		if !ok {
			return
		}
		if c17tGoschedOnly[point] || us == 0 {
			runtime.Gosched()
			return
		}
		time.Sleep(time.Duration(us) * time.Microsecond)
	})
	defer verifhook.Set(nil)
	// one reader at a time per object when the release is expected from a timer (readLock is a mutex): channel semaphores
	readSem := [2]chan struct{}{make(chan struct{}, 1), make(chan struct{}, 1)}
	var wg sync.WaitGroup
	finishing := &finishingFlag
	doOp := func(pi, oi int, op c17tOp) {
		if op.DelayMs > 0 {
			time.Sleep(time.Duration(op.DelayMs) * time.Millisecond)
		}
		key := fmt.Sprintf("g%d.%d:%s.%s", pi, oi, []string{"Client", "Handle", "Server"}[op.Obj], c17tKinds[op.Kind])
		ev := &c17tEvent{Key: key, Obj: op.Obj, Kind: op.Kind, Start: time.Since(start)}
		mu.Lock()
		pending[key] = ev.Start
		mu.Unlock()
		var conn MsgConn
		switch op.Obj {
		case 0:
			conn = cli
		case 1:
			wait := 10 * time.Second
			if finishing.Load() {
				wait = 0 // everything is being closed: do not wait for an accept that can no longer happen
			}
			if h := getHandle(wait); h != nil {
				conn = h
			}
		}
		buf := make([]byte, 70000)
		switch {
		case op.Obj == 2 && op.Kind == 7:
			ev.Err = env.Srv.Close()
		case op.Obj == 2:
			_, ev.Err = env.Srv.AcceptTimeout(time.Duration(50+op.Arg) * time.Millisecond)
		case conn == nil:
			ev.Err = errors.New("verif: no handle (nothing accepted)")
		case op.Kind == 0:
			if op.Obj == 0 {
				ev.Err = cli.Handshake()
			}
		case op.Kind == 1:
			readSem[op.Obj] <- struct{}{}
			ev.N, ev.Err = conn.Read(buf)
			<-readSem[op.Obj]
		case op.Kind == 2:
			readSem[op.Obj] <- struct{}{}
			ev.N, ev.Err = conn.ReadMsg(buf)
			<-readSem[op.Obj]
		case op.Kind == 3:
			ev.N, ev.Err = conn.Write(vlib.Fill(uint64(pi*100+oi), 1+op.Arg))
		case op.Kind == 4:
			ev.Err = conn.WriteMsg(vlib.Fill(uint64(pi*100+oi), 1+op.Arg%60000))
		case op.Kind == 5:
			ev.Err = conn.SetDeadline(c17tDeadline(op.Arg))
		case op.Kind == 6:
			ev.Err = conn.SetReadDeadline(c17tDeadline(op.Arg))
		case op.Kind == 7:
			ev.Err = conn.Close()
		}
		ev.End = time.Since(start)
		mu.Lock()
		delete(pending, key)
		events = append(events, ev)
		mu.Unlock()
	}
	for pi, pr := range c.Procs {
		wg.Add(1)
		go func(pi int, pr []c17tOp) {
			defer wg.Done()
			for oi, op := range pr {
				doOp(pi, oi, op)
			}
		}(pi, pr)
	}
	procsDone := make(chan struct{})
	go func() { wg.Wait(); close(procsDone) }()
	// a call that runs the handshake, with a handshake timeout or deadline configured, must return within that time
	// (+ slack) of ITS OWN start, whatever the peer does
	if c.HSTimeoutMs > 0 || c.HSDeadlineMs > 0 {
		limit := 12*time.Second + time.Duration(c.HSTimeoutMs+c.HSDeadlineMs)*time.Millisecond
		stopMon := make(chan struct{})
		defer close(stopMon)
		go func() {
			for {
				select {
				case <-stopMon:
					return
				case <-procsDone:
					return
				case <-time.After(time.Second):
				}
				now := time.Since(start)
				mu.Lock()
				var late string
				for k, st := range pending {
					if strings.Contains(k, ":Client.") && !strings.HasSuffix(k, "Close") && now-st > limit && cli.state.Load() == clientStateHandshaking {
						late = k
					}
				}
				mu.Unlock()
				if late != "" {
					mode := map[bool]string{false: "discoverable", true: "hidden"}[c.Hidden]
					fail("C17:transport:handshake-never-times-out:"+mode, "call %s has been inside the handshake for more than %v although HSTimeout is %d ms / HSDeadline %d ms", late, limit, c.HSTimeoutMs, c.HSDeadlineMs)
					return
				}
			}
		}()
	}
	select {
	case <-procsDone:
	case <-time.After(40 * time.Second):
	}
	finishing.Store(true)
	// ---- final closes: three concurrent callers each; all get the same result
	finalClose := map[int][]error{}
	closeAll := func(obj int, name string, f func() error) {
		res := make(chan error, 3)
		for i := 0; i < 3; i++ {
			go func() { res <- f() }()
		}
		var got []error
		tm := time.NewTimer(30 * time.Second)
		defer tm.Stop()
		for len(got) < 3 {
			select {
			case e := <-res:
				got = append(got, e)
			case <-tm.C:
				fail("C17:transport:close-does-not-return:"+name, "%s.Close: only %d of 3 concurrent calls returned within 30 s; still blocked: %v", name, len(got), c17tPending(&mu, pending))
				return
			}
		}
		finalClose[obj] = got
		for _, e := range got[1:] {
			if fmt.Sprint(e) != fmt.Sprint(got[0]) {
				fail("C17:transport:close-results-differ:"+name, "concurrent %s.Close callers got different results: %v vs %v", name, got[0], e)
			}
		}
	}
	closeAll(0, "Client", cli.Close)
	if h := getHandle(0); h != nil {
		closeAll(1, "Handle", h.Close)
	}
	closeAll(2, "Server", env.Srv.Close)
	select {
	case <-procsDone:
	case <-time.After(30 * time.Second):
		p := c17tPending(&mu, pending)
		fail("C17:transport:call-not-released-by-close:"+c17tKindsOf(p), "30 s after client, handle and server were closed these calls have not returned: %v", p)
	}
	<-env.serveDone
	// ---- results of the recorded calls
	mu.Lock()
	closeRes := map[int][]error{}
	for _, e := range events {
		if e.Kind == 7 && !(e.Err != nil && strings.HasPrefix(e.Err.Error(), "verif: no handle")) {
			closeRes[e.Obj] = append(closeRes[e.Obj], e.Err)
		}
		if e.Err == nil || e.Obj == 2 {
			continue
		}
		switch e.Kind {
		case 1, 2:
			ok := e.Err == io.EOF || errors.Is(e.Err, os.ErrDeadlineExceeded) || errors.Is(e.Err, net.ErrClosed) || strings.HasPrefix(e.Err.Error(), "verif:")
			// a Read on the client implies a handshake; its errors are legitimate results of the read
			if !ok && e.Obj == 0 && (c.Peer != 0 || true) {
				ok = true
				v.Label("client-read-returned-handshake-error")
			}
			if !ok {
				v.Failf("C17:transport:unexpected-read-error", "%s returned %v (neither end-of-stream nor a timeout error)", e.Key, e.Err)
			}
		}
	}
	mu.Unlock()
	// "close ... reports the same result to every caller": EVERY Close call of one endpoint within the case - the ones of
	// the program (concurrent with anything), the three concurrent final ones, and therefore also repeated later ones -
	// returned the same result, whether the underlying socket's close succeeded or failed.
	closeCalls := 0
	for obj, name := range []string{"Client", "Handle", "Server"} {
		all := append(append([]error{}, closeRes[obj]...), finalClose[obj]...)
		closeCalls += len(closeRes[obj])
		for _, e := range all {
			if fmt.Sprint(e) != fmt.Sprint(all[0]) {
				fail("C17:transport:close-results-differ:"+name, "%d %s.Close calls of this case (%d in the program, %d final) did not all report the same result: %v vs %v (failing socket close injected: %v)",
					len(all), name, len(closeRes[obj]), len(finalClose[obj]), all[0], e, c.CloseFail)
			}
		}
	}
	if c.CloseFail != 0 {
		v.Label([]string{"", "socket-close-fails:server", "socket-close-fails:client", "socket-close-fails:both"}[c.CloseFail&3])
		if closeCalls > 0 {
			v.Label("socket-close-fails+close-in-program")
		}
	}
	// classification
	racing := 0
	for _, pr := range c.Procs {
		for _, op := range pr {
			if op.Kind >= 5 {
				racing++
				break
			}
		}
	}
	v.NonTrivial = len(c.Procs) >= 3 && racing >= 1
	v.Label(map[bool]string{false: "discoverable", true: "hidden"}[c.Hidden])
	v.Label([]string{"peer:honest", "peer:silent", "peer:vanishing"}[c.Peer])
	if c.HSTimeoutMs > 0 {
		v.Label("hs-timeout-set")
	}
	if c.HSDeadlineMs > 0 {
		v.Label("hs-deadline-set")
	}
	if len(c.Yields) > 0 {
		v.Label("with-yield-schedule")
	}
}

func c17tDeadline(arg int) time.Time {
	switch arg % 5 {
	case 0:
		return time.Time{}
	case 1:
		return time.Now().Add(-time.Second)
	case 2:
		return time.Now().Add(time.Millisecond)
	case 3:
		return time.Now().Add(300 * time.Millisecond)
	}
	return time.Now().Add(10 * time.Second)
}

func c17tPending(mu *sync.Mutex, pending map[string]time.Duration) []string {
	mu.Lock()
	defer mu.Unlock()
	var p []string
	for k := range pending {
		p = append(p, k)
	}
	sort.Strings(p)
	return p
}

func c17tKindsOf(p []string) string {
	seen := map[string]bool{}
	for _, k := range p {
		if i := strings.Index(k, ":"); i >= 0 {
			seen[k[i+1:]] = true
		}
	}
	var out []string
	for k := range seen {
		out = append(out, k)
	}
	sort.Strings(out)
	return strings.Join(out, "+")
}

// c17tDrain: data queued before Close is still returned before end-of-stream.
func c17tDrain(c c17tCase, v *vlib.Verdict) {
	w := vGetWorld()
	env := vStartServer(w.ServerConfig(c.Hidden))
	defer env.Stop()
	cli, _ := env.NewClient(vCliAddr, w.ClientConfig(c.Hidden, false))
	if err := cli.Handshake(); err != nil {
		v.Failf("C17:sanity:honest-handshake-fails", "%v", err)
		return
	}
	h, err := env.Srv.AcceptTimeout(2 * time.Second)
	if err != nil {
		v.Failf("C17:sanity:honest-handshake-fails", "accept: %v", err)
		cli.Close()
		return
	}
	k := 1 + c.Drain/10
	onClient := c.Drain%2 == 1
	var from, to MsgConn = h, cli
	name := "Client"
	if !onClient {
		from, to = cli, h
		name = "Handle"
	}
	var want [][]byte
	for i := 0; i < k; i++ {
		m := vlib.Fill(uint64(1000+i), 10+i*37)
		want = append(want, m)
		if err := from.WriteMsg(m); err != nil {
			v.Failf("C17:sanity:write-fails", "%v", err)
			return
		}
	}
	synctest.Wait() // everything is delivered into the receive queue
	to.Close()
	buf := make([]byte, 70000)
	for i, m := range want {
		n, err := to.ReadMsg(buf)
		if err != nil || string(buf[:n]) != string(m) {
			v.Failf("C17:transport:queued-data-lost-on-close:"+name, "%d messages were queued before %s.Close; ReadMsg #%d after Close returned (%d bytes, %v) instead of message %d", k, name, i, n, err, i)
			break
		}
	}
	if v.OK() {
		if n, err := to.ReadMsg(buf); err != io.EOF {
			v.Failf("C17:transport:no-eof-after-drain:"+name, "after the %d queued messages ReadMsg returned (%d, %v) instead of end-of-stream", k, n, err)
		}
	}
	cli.Close()
	h.Close()
	v.NonTrivial = true
	v.Label("drain-after-close:" + name)
}

func c17tRunFn(t *testing.T) func(c c17tCase, v *vlib.Verdict) {
	return func(c c17tCase, v *vlib.Verdict) {
		res := vlib.Bubble(t, 60*time.Second, func() {
			if c.Drain > 0 {
				c17tDrain(c, v)
			} else {
				c17tScenario(c, v)
			}
		})
		verifhook.Set(nil)
		if res.Hung {
			v.Inconclusive = "bubble hung in real time (C17 transport)"
			v.Note = strings.Join(c17MutexWaiters(res.Stacks), " | ")
			return
		}
		if res.Panic != "" && v.OK() {
			if res.Leak() || res.Deadlock() {
				v.Failf("C17:transport:goroutines-left:"+strings.Join(vlib.BlockedHopFrames(res.Stacks), ","), "after closing client, handle and server goroutines remain: %v", vlib.BlockedHopFrames(res.Stacks))
			} else {
				v.Failf(vlib.PanicSig(res.Panic, res.Stacks), "panic: %s", res.Panic)
			}
		}
	}
}

func c17MutexWaiters(stacks string) []string {
	var out []string
	for _, g := range strings.Split(stacks, "\n\n") {
		head := strings.SplitN(g, "\n", 2)[0]
		if !strings.Contains(head, "bubble") || !strings.Contains(head, "Mutex") {
			continue
		}
		for _, l := range strings.Split(g, "\n") {
			if strings.HasPrefix(l, "hop.computer/hop/") {
				if k := strings.Index(l, "(0x"); k > 0 {
					l = l[:k]
				}
				out = append(out, strings.TrimPrefix(l, "hop.computer/hop/"))
				break
			}
		}
	}
	sort.Strings(out)
	return out
}

func c17tGen(t *rapid.T) c17tCase {
	c := c17tCase{Hidden: rapid.Bool().Draw(t, "hidden")}
	if rapid.IntRange(0, 9).Draw(t, "drain") == 0 {
		c.Drain = rapid.IntRange(1, 60).Draw(t, "drainN")
		return c
	}
	c.CloseFail = rapid.SampledFrom([]int{0, 0, 0, 1, 2, 3}).Draw(t, "closeFail")
	c.Peer = rapid.SampledFrom([]int{0, 0, 1, 2}).Draw(t, "peer")
	c.VanishMs = rapid.SampledFrom([]int{0, 1, 5, 50, 500}).Draw(t, "vanish")
	c.HSTimeoutMs = rapid.SampledFrom([]int{0, 2000, 2000}).Draw(t, "hst")
	c.HSDeadlineMs = rapid.SampledFrom([]int{0, 0, 0, 3000}).Draw(t, "hsd")
	op := rapid.Custom(func(t *rapid.T) c17tOp {
		o := c17tOp{Obj: rapid.SampledFrom([]int{0, 0, 0, 1, 1, 2}).Draw(t, "obj")}
		switch o.Obj {
		case 0:
			o.Kind = rapid.IntRange(0, 7).Draw(t, "kind")
		case 1:
			o.Kind = rapid.IntRange(1, 7).Draw(t, "kind")
		default:
			o.Kind = rapid.SampledFrom([]int{8, 8, 7}).Draw(t, "kind")
		}
		o.Arg = rapid.SampledFrom([]int{0, 1, 2, 3, 4, 100, 70000, 200000}).Draw(t, "arg")
		o.DelayMs = rapid.SampledFrom([]int{0, 0, 0, 1, 20, 400, 2500}).Draw(t, "delay")
		return o
	})
	c.Procs = rapid.SliceOfN(rapid.SliceOfN(op, 1, 5), 2, 6).Draw(t, "procs")
	c.Yields = rapid.SliceOfN(rapid.Custom(func(t *rapid.T) c17tYield {
		return c17tYield{Point: rapid.IntRange(0, len(c17tPoints)-1).Draw(t, "pt"), Hit: rapid.IntRange(0, 3).Draw(t, "hit"), Us: rapid.SampledFrom([]int{0, 1, 500, 50000, 600000}).Draw(t, "us")}
	}), 0, 5).Draw(t, "yields")
	return c
}

func TestVerifC17Transport(t *testing.T) {
	vlib.Drive(t, vlib.Spec[c17tCase]{ID: "C17", Quick: 4000, Gen: c17tGen, Run: c17tRunFn(t)})
}
