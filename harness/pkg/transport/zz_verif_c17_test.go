//go:build go1.25

package transport

// C17 (transport half) — clients, handles and servers are safe under
// concurrent use: every call returns (released by Close with end-of-stream, or
// by an expired deadline / handshake timeout with a timeout error), Close is
// idempotent with one result for all callers, data queued before Close is
// returned before end-of-stream.

import (
	"errors"
	"fmt"
	"io"
	"net"
	"os"
	"runtime"
	"sort"
	"strings"
	"sync"
	"sync/atomic"
	"testing"
	"testing/synctest"
	"time"

	"pgregory.net/rapid"
	"hop.computer/hop/pkg/verifhook"
	"verif.local/vlib"
	"verif.local/vlib/simnet"
)

type c17tOp struct {
	Obj     int `json:"obj"`  // 0 client, 1 handle, 2 server
	Kind    int `json:"kind"` // see c17tKinds
	Arg     int `json:"arg"`
	DelayMs int `json:"delay"`
}

var c17tKinds = []string{"Handshake", "Read", "ReadMsg", "Write", "WriteMsg", "SetDeadline", "SetReadDeadline", "Close", "AcceptTimeout", "WriteMsgBurst", "Roam", "WriteMsgPaced"}

// Kind 9, WriteMsgBurst (Client, Handle): Arg consecutive WriteMsg calls of a few bytes - an application that keeps writing.
// Kind 10, Roam: the endpoint moves. Client: the client's socket is rebound to a new address (simnet Rebind) and the client
// writes a message from there, so the SERVER's receive loop takes up the new address; Handle: the server's socket moves and
// the handle writes a message, so the CLIENT's receive loop takes up the new address. 1 + Arg%8 moves, (Arg/8)%3 selects the
// pause before each (c17tRoamGaps).
// Kind 11, WriteMsgPaced (Client, Handle): 1 + Arg%16 WriteMsg calls of a few bytes with a pause of (Arg/16)%3 ->
// 1 ms / 20 ms / 150 ms before each: session traffic that is spread over (virtual) time, so that the peer's receive loop is
// looking sessions up before, while and after a timer of the peer (the server's handshake timeout) fires.
const (
	c17tBurst = 9
	c17tRoam  = 10
	c17tPaced = 11
)

var c17tPacedGaps = []time.Duration{time.Millisecond, 20 * time.Millisecond, 150 * time.Millisecond}

// c17tExtra is a further client (its own address and certificate) that starts a handshake the network does not let
// complete, so that the server is left with a half-open handshake: an entry in its handshake table and one in its session
// table, which the timer armed by the server (ServerConfig.HandshakeTimeout) removes - on the timer's goroutine, while the
// receive loop serves the established session.
type c17tExtra struct {
	AtMs int `json:"at"` // the client starts its handshake this long after the start of the case
	// discoverable mode: 0 the client's ClientAuth is lost (the client believes the handshake is complete), 1 the server's
	// ServerAuth is lost (the client gives up after its own handshake timeout). Hidden mode (one message each way, the
	// server completes the handshake when it has ANSWERED): the client's datagrams come from source port 0, to which no
	// datagram can be sent - the server registers the handshake, its answer fails inside the socket (EINVAL, what the
	// kernel does) and the handshake stays half-open.
	Lose int `json:"lose"`
	// LateMs > 0 (discoverable mode, Lose 0): the ClientAuth is not lost but late - the network delivers it the server's
	// HandshakeTimeout + LateMs - 1 ms after it was sent, i.e. at the very instant the server's timer fires (1) or after it
	// (a slow path): the receive loop then looks up a handshake that the timer is removing / has removed.
	LateMs int `json:"late,omitempty"`
	// the client is closed this long after the server's handshake timeout has passed (measured from the end of the client's
	// Handshake call), which keeps the case running across the expiry; -1: it is closed at once (the case may end, and
	// the server may be closed, while the server's timer is still pending)
	StayMs int `json:"stay"`
}

var c17tRoamGaps = []time.Duration{37 * time.Microsecond, 1300 * time.Microsecond, 17 * time.Millisecond}

// c17tRead is one call of the reader in the drain sub-scenario.
type c17tRead struct {
	Msg bool `json:"msg,omitempty"` // ReadMsg instead of Read
	Buf int  `json:"buf"`           // length of the caller's buffer (>= 1)
}

type c17tSpan struct{ from, to time.Duration }

type c17tYield struct {
	Point int `json:"p"`
	Hit   int `json:"hit"`
	Us    int `json:"us"`
}

type c17tCase struct {
	Hidden      bool        `json:"hidden"`
	Peer        int         `json:"peer"`      // 0 honest, 1 silent server (nothing comes back), 2 vanishing (everything is lost from VanishMs on)
	VanishMs    int         `json:"vanishMs"`
	HSTimeoutMs int         `json:"hsTimeoutMs"` // 0: none
	HSDeadlineMs int        `json:"hsDeadlineMs"` // 0: none; absolute deadline this many ms after start
	Procs       [][]c17tOp  `json:"procs"`
	Yields      []c17tYield `json:"yields"`
	Drain       int         `json:"drain"` // >0: drain sub-scenario with this many messages (1: on the client, 2: on the handle: Drain/10 messages)
	CloseFail   int         `json:"closeFail"` // fault: Close of the underlying socket reports an error (bit 0: the server's socket, bit 1: the client's socket); the socket is closed all the same
	// slow sockets: every session datagram the client / the server-side handle writes stays this long (virtual microseconds)
	// inside the socket before it is on the wire (a full send buffer; simnet write gate). 0: writes never wait.
	SlowCliUs int `json:"slowCli,omitempty"`
	SlowSrvUs int `json:"slowSrv,omitempty"`
	// drain sub-scenario with short read buffers: lengths of the queued messages (none: the fixed series of Drain), the
	// reader's calls, and how many of them are made BEFORE Close (the rest, and then calls with a large buffer, after it)
	Msgs    []int      `json:"msgs,omitempty"`
	Reads   []c17tRead `json:"reads,omitempty"`
	CloseAt int        `json:"closeAt,omitempty"`
	// half-open handshakes: the server's HandshakeTimeout (0: the fixture's 5 s) and the further clients whose handshakes
	// the network cuts short (see c17tExtra)
	SrvHSTimeoutMs int         `json:"srvHsTimeoutMs,omitempty"`
	Extra          []c17tExtra `json:"extra,omitempty"`
	// sub-scenarios with their own programs (see c17tDeadlines, c17tFailedHandshake): Mini 1 = deadline calls with repeated
	// absolute instants on an established session (MOn: 0 the client, 1 the handle); Mini 2 = a handshake that fails (FailMode
	// 0 timeout against a silent server, 1 junk answer, 2 the socket refuses the write) FailAtMs into the case, under concurrent use
	Mini     int         `json:"mini,omitempty"`
	MOn      int         `json:"mOn,omitempty"`
	MProcs   [][]c17tMOp `json:"mprocs,omitempty"`
	FailMode int         `json:"failMode,omitempty"`
	FailAtMs int         `json:"failAtMs,omitempty"`
	FailArg  int         `json:"failArg,omitempty"`
}

func c17tSameAddr(a, b *net.UDPAddr) bool {
	return a != nil && b != nil && a.Port == b.Port && a.IP.Equal(b.IP)
}

// c17tExtraAddr is the address of the k-th further client (source port 0 in hidden mode, see c17tExtra.Lose).
func c17tExtraAddr(hidden bool, k int) *net.UDPAddr {
	if hidden {
		return simnet.Addr(fmt.Sprintf("10.0.9.%d", 10+k), 0)
	}
	return simnet.Addr(fmt.Sprintf("10.0.9.%d", 10+k), 41000+k)
}

// c17tCloseErr is what a failing close of the underlying socket reports (CloseFail).
var c17tCloseErr = errors.New("verif: close of the underlying socket failed")

var c17tPoints = []string{
	"transport.Client.Close.elected", "transport.Client.Close.connClosed", "transport.Client.Close.beforePublish",
	"transport.Client.Handshake.elected", "transport.Client.Handshake.beforeOpen", "transport.Client.Handshake.beforeDone",
	"transport.Server.Close.elected", "transport.Server.Close.workersDone", "transport.Server.Close.tablesCleared",
	"transport.Server.Serve.registered", "transport.Handle.send.enter",
	"common.DeadlineChan.Recv.afterPoll", "common.DeadlineChan.Recv.afterClosedCheck", "common.DeadlineChan.Recv.beforeWait",
}

// Handle.send.enter is reached before writeLock is taken, Recv points hold no mutex of their own but the caller
// (Handle.Read) holds readLock: a second reader of the same handle would wait on that mutex, so these only Gosched.
var c17tGoschedOnly = map[string]bool{
	"common.DeadlineChan.Recv.afterPoll": true, "common.DeadlineChan.Recv.afterClosedCheck": true, "common.DeadlineChan.Recv.beforeWait": true,
}

type c17tEvent struct {
	Key   string
	Obj   int
	Kind  int
	Err   error
	N     int
	Start time.Duration
	End   time.Duration
}

func c17tScenario(c c17tCase, v *vlib.Verdict) {
	w := vGetWorld()
	scfg := w.ServerConfig(c.Hidden)
	if c.SrvHSTimeoutMs > 0 {
		scfg.HandshakeTimeout = time.Duration(c.SrvHSTimeoutMs) * time.Millisecond
	}
	env := vStartServer(scfg)
	start := time.Now()
	extraAddr := make([]*net.UDPAddr, len(c.Extra))
	for k := range c.Extra {
		extraAddr[k] = c17tExtraAddr(c.Hidden, k)
	}
	var mu sync.Mutex
	var events []*c17tEvent
	pending := map[string]time.Duration{}
	fail := func(sig, f string, a ...any) {
		mu.Lock()
		defer mu.Unlock()
		if v.OK() {
			v.Failf(sig, f, a...)
		}
	}
	// network behaviour of the peer
	env.Net.Filter = func(d simnet.Datagram) []simnet.Datagram {
		toClient := d.Dst != nil && !d.Dst.IP.Equal(vSrvAddr.IP) // the client roams (never to the server's IP), the server moves between ports of its IP
		switch c.Peer {
		case 1:
			if toClient {
				return nil
			}
		case 2:
			if time.Since(start) >= time.Duration(c.VanishMs)*time.Millisecond {
				return nil
			}
		}
		// the message of a further client's handshake that the network loses
		if len(d.Data) > 0 && !c.Hidden {
			for k, x := range c.Extra {
				switch {
				case x.Lose == 0 && MessageType(d.Data[0]) == MessageTypeClientAuth && c17tSameAddr(d.Src, extraAddr[k]):
					if x.LateMs > 0 {
						d.Delay = scfg.HandshakeTimeout + time.Duration(x.LateMs-1)*time.Millisecond
						return []simnet.Datagram{d}
					}
					return nil
				case x.Lose == 1 && MessageType(d.Data[0]) == MessageTypeServerAuth && c17tSameAddr(d.Dst, extraAddr[k]):
					return nil
				}
			}
		}
		return []simnet.Datagram{d}
	}
	ccfg := w.ClientConfig(c.Hidden, false)
	ccfg.HSTimeout = time.Duration(c.HSTimeoutMs) * time.Millisecond
	if c.HSDeadlineMs > 0 {
		ccfg.HSDeadline = time.Now().Add(time.Duration(c.HSDeadlineMs) * time.Millisecond)
	}
	cli, cliSock := env.NewClient(vCliAddr, ccfg)
	if c.CloseFail&1 != 0 {
		env.SrvSock.FailClose(c17tCloseErr)
	}
	if c.CloseFail&2 != 0 {
		cliSock.FailClose(c17tCloseErr)
	}
	// slow sockets (index 0: the client's, 1: the server's). The write waits inside WriteMsgUDP, i.e. inside Handle.send with
	// the handle's write mutex held and the session lock released. The log of those intervals has a mutex of its own that only
	// writers of that socket take: no synchronisation is added between a writer and the goroutines that make the peer roam.
	slow := [2]time.Duration{time.Duration(c.SlowCliUs) * time.Microsecond, time.Duration(c.SlowSrvUs) * time.Microsecond}
	socks := [2]*simnet.Sock{cliSock, env.SrvSock}
	var wlogMu, roamMu [2]sync.Mutex
	var wlog [2][]c17tSpan      // [x]: intervals during which a session datagram written by endpoint x was inside the socket
	var roams [2][]time.Duration // [x]: moments at which the PEER of endpoint x put a message on the wire from a new address
	var roamSeq [2]int
	for x := range socks {
		if slow[x] <= 0 {
			continue
		}
		x, d := x, slow[x]
		socks[x].SetWriteGate(func(b []byte, _ *net.UDPAddr, closed <-chan struct{}) {
			if len(b) == 0 || (MessageType(b[0]) != MessageTypeTransport && MessageType(b[0]) != MessageTypeControl) {
				return // handshake traffic is not delayed (the server's read loop writes it)
			}
			t0 := time.Since(start)
			tm := time.NewTimer(d)
			select {
			case <-closed:
			case <-tm.C:
			}
			tm.Stop()
			t1 := time.Since(start)
			wlogMu[x].Lock()
			wlog[x] = append(wlog[x], c17tSpan{t0, t1})
			wlogMu[x].Unlock()
		})
	}
	// A write that waits in a slow socket holds the handle's write mutex; a second writer of the same endpoint would wait for
	// that MUTEX, which is not a durable wait: the bubble's clock - and with it the first write - would stand still. With a
	// slow socket the writers of one endpoint therefore take turns on a channel semaphore (as the readers do below).
	writeSem := [2]chan struct{}{make(chan struct{}, 1), make(chan struct{}, 1)}
	lockW := func(obj int) func() {
		if obj > 1 || slow[obj] <= 0 {
			return func() {}
		}
		writeSem[obj] <- struct{}{}
		return func() { <-writeSem[obj] }
	}
	// the handle becomes available when the server accepts
	handleCh := make(chan *Handle, 1)
	var handle *Handle
	var hOnce sync.Once
	var finishingFlag atomic.Bool
	getHandle := func(wait time.Duration) *Handle {
		mu.Lock()
		h := handle
		mu.Unlock()
		if h != nil {
			return h
		}
		deadline := time.Now().Add(wait)
		for {
			select {
			case h = <-handleCh:
				mu.Lock()
				handle = h
				mu.Unlock()
				handleCh <- h
				return h
			case <-time.After(200 * time.Millisecond):
				if finishingFlag.Load() || !time.Now().Before(deadline) {
					return nil
				}
			}
		}
	}
	go func() {
		h, err := env.Srv.AcceptTimeout(20 * time.Second)
		if err == nil && h != nil {
			hOnce.Do(func() { handleCh <- h })
		}
	}()
	// yield schedule
	sched := map[string]map[int]int{}
	for _, y := range c.Yields {
		pt := c17tPoints[y.Point%len(c17tPoints)]
		if sched[pt] == nil {
			sched[pt] = map[int]int{}
		}
		sched[pt][y.Hit] = y.Us
	}
	hits := map[string]int{}
	var hmu sync.Mutex
	verifhook.Set(func(point string) {
		m := sched[point]
		if m == nil {
			return
		}
		hmu.Lock()
		k := hits[point]
		hits[point]++
		hmu.Unlock()
		us, ok := m[k]
		if !ok {
			return
		}
		if c17tGoschedOnly[point] || us == 0 {
			runtime.Gosched()
			return
		}
		time.Sleep(time.Duration(us) * time.Microsecond)
	})
	defer verifhook.Set(nil)
	// one reader at a time per object when the release is expected from a timer (readLock is a mutex): channel semaphores
	readSem := [2]chan struct{}{make(chan struct{}, 1), make(chan struct{}, 1)}
	var wg sync.WaitGroup
	finishing := &finishingFlag
	doOp := func(pi, oi int, op c17tOp) {
		if op.DelayMs > 0 {
			time.Sleep(time.Duration(op.DelayMs) * time.Millisecond)
		}
		key := fmt.Sprintf("g%d.%d:%s.%s", pi, oi, []string{"Client", "Handle", "Server"}[op.Obj], c17tKinds[op.Kind])
		ev := &c17tEvent{Key: key, Obj: op.Obj, Kind: op.Kind, Start: time.Since(start)}
		mu.Lock()
		pending[key] = ev.Start
		mu.Unlock()
		var conn MsgConn
		switch op.Obj {
		case 0:
			conn = cli
		case 1:
			wait := 10 * time.Second
			if finishing.Load() {
				wait = 0 // everything is being closed: do not wait for an accept that can no longer happen
			}
			if h := getHandle(wait); h != nil {
				conn = h
			}
		}
		buf := make([]byte, 70000)
		switch {
		case op.Obj == 2 && op.Kind == 7:
			ev.Err = env.Srv.Close()
		case op.Obj == 2:
			_, ev.Err = env.Srv.AcceptTimeout(time.Duration(50+op.Arg) * time.Millisecond)
		case conn == nil:
			ev.Err = errors.New("verif: no handle (nothing accepted)")
		case op.Kind == 0:
			if op.Obj == 0 {
				ev.Err = cli.Handshake()
			}
		case op.Kind == 1:
			readSem[op.Obj] <- struct{}{}
			if op.Arg >= 1 && op.Arg <= 100 {
				buf = buf[:op.Arg] // a stream reader with a buffer shorter than most messages: the rest stays in the handle
			}
			ev.N, ev.Err = conn.Read(buf)
			<-readSem[op.Obj]
		case op.Kind == 2:
			readSem[op.Obj] <- struct{}{}
			ev.N, ev.Err = conn.ReadMsg(buf)
			<-readSem[op.Obj]
		case op.Kind == 3:
			unlock := lockW(op.Obj)
			ev.N, ev.Err = conn.Write(vlib.Fill(uint64(pi*100+oi), 1+op.Arg))
			unlock()
		case op.Kind == 4:
			unlock := lockW(op.Obj)
			ev.Err = conn.WriteMsg(vlib.Fill(uint64(pi*100+oi), 1+op.Arg%60000))
			unlock()
		case op.Kind == c17tBurst:
			for i := 0; i < op.Arg && ev.Err == nil; i++ {
				unlock := lockW(op.Obj)
				ev.Err = conn.WriteMsg(vlib.Fill(uint64(pi*100+oi), 1+i%5))
				unlock()
				if ev.Err == nil {
					ev.N++
				}
			}
		case op.Kind == c17tPaced:
			for i := 0; i < 1+op.Arg%16 && ev.Err == nil && !finishing.Load(); i++ {
				time.Sleep(c17tPacedGaps[(op.Arg/16)%len(c17tPacedGaps)])
				unlock := lockW(op.Obj)
				ev.Err = conn.WriteMsg(vlib.Fill(uint64(pi*100+oi), 1+i%5))
				unlock()
				if ev.Err == nil {
					ev.N++
				}
			}
		case op.Kind == c17tRoam:
			// the endpoint moves 1..8 times; each time it writes a message from its new address, which makes the PEER's
			// receive loop take up that address - concurrently with whatever the peer's application is writing
			for i := 0; i < 1+op.Arg%8 && ev.Err == nil && !finishing.Load(); i++ {
				time.Sleep(c17tRoamGaps[(op.Arg/8)%len(c17tRoamGaps)])
				roamMu[op.Obj].Lock()
				roamSeq[op.Obj]++
				k := roamSeq[op.Obj]
				roamMu[op.Obj].Unlock()
				to := simnet.Addr(fmt.Sprintf("10.0.%d.2", 1+k%200), 40000+k)
				if op.Obj == 1 {
					to = &net.UDPAddr{IP: vSrvAddr.IP, Port: vSrvAddr.Port + k}
				}
				socks[op.Obj].Rebind(to)
				unlock := lockW(op.Obj)
				ev.Err = conn.WriteMsg(vlib.Fill(uint64(pi*100+oi), 1+i%3))
				unlock()
				if ev.Err == nil {
					ev.N++
					roamMu[op.Obj].Lock()
					roams[1-op.Obj] = append(roams[1-op.Obj], time.Since(start))
					roamMu[op.Obj].Unlock()
				}
			}
		case op.Kind == 5:
			ev.Err = conn.SetDeadline(c17tDeadline(op.Arg))
		case op.Kind == 6:
			ev.Err = conn.SetReadDeadline(c17tDeadline(op.Arg))
		case op.Kind == 7:
			ev.Err = conn.Close()
		}
		ev.End = time.Since(start)
		mu.Lock()
		delete(pending, key)
		events = append(events, ev)
		mu.Unlock()
	}
	for pi, pr := range c.Procs {
		wg.Add(1)
		go func(pi int, pr []c17tOp) {
			defer wg.Done()
			for oi, op := range pr {
				doOp(pi, oi, op)
			}
		}(pi, pr)
	}
	// the further clients: a handshake that the network cuts short; the client stays until the server's handshake timeout
	// has passed (StayMs >= 0) and is closed then. Nothing here looks at the server's state or at what the other goroutines
	// do: the expiry of the server's timer is not ordered against the session traffic through the harness.
	for k, x := range c.Extra {
		wg.Add(1)
		go func(k int, x c17tExtra) {
			defer wg.Done()
			track := func(name string, f func()) {
				key := fmt.Sprintf("x%d:Extra.%s", k, name)
				mu.Lock()
				pending[key] = time.Since(start)
				mu.Unlock()
				f()
				mu.Lock()
				delete(pending, key)
				mu.Unlock()
			}
			time.Sleep(time.Duration(x.AtMs) * time.Millisecond)
			xcfg := w.ClientConfig(c.Hidden, true)
			xcfg.HSTimeout = time.Second
			xc := NewClient(env.Net.Dial(extraAddr[k], vSrvAddr), vSrvAddr, xcfg)
			track("Handshake", func() { _ = xc.Handshake() })
			if x.StayMs >= 0 {
				time.Sleep(scfg.HandshakeTimeout + time.Duration(x.StayMs)*time.Millisecond)
			}
			track("Close", func() { _ = xc.Close() })
		}(k, x)
	}
	procsDone := make(chan struct{})
	go func() { wg.Wait(); close(procsDone) }()
	// a call that runs the handshake, with a handshake timeout or deadline configured, must return within that time
	// (+ slack) of ITS OWN start, whatever the peer does
	if c.HSTimeoutMs > 0 || c.HSDeadlineMs > 0 {
		limit := 12*time.Second + time.Duration(c.HSTimeoutMs+c.HSDeadlineMs)*time.Millisecond
		stopMon := make(chan struct{})
		defer close(stopMon)
		go func() {
			for {
				select {
				case <-stopMon:
					return
				case <-procsDone:
					return
				case <-time.After(time.Second):
				}
				now := time.Since(start)
				mu.Lock()
				var late string
				for k, st := range pending {
					if strings.Contains(k, ":Client.") && !strings.HasSuffix(k, "Close") && now-st > limit && cli.state.Load() == clientStateHandshaking {
						late = k
					}
				}
				mu.Unlock()
				if late != "" {
					mode := map[bool]string{false: "discoverable", true: "hidden"}[c.Hidden]
					fail("C17:transport:handshake-never-times-out:"+mode, "call %s has been inside the handshake for more than %v although HSTimeout is %d ms / HSDeadline %d ms", late, limit, c.HSTimeoutMs, c.HSDeadlineMs)
					return
				}
			}
		}()
	}
	select {
	case <-procsDone:
	case <-time.After(40 * time.Second):
	}
	finishing.Store(true)
	// ---- final closes: three concurrent callers each; all get the same result
	finalClose := map[int][]error{}
	closeAll := func(obj int, name string, f func() error) {
		res := make(chan error, 3)
		for i := 0; i < 3; i++ {
			go func() { res <- f() }()
		}
		var got []error
		tm := time.NewTimer(30 * time.Second)
		defer tm.Stop()
		for len(got) < 3 {
			select {
			case e := <-res:
				got = append(got, e)
			case <-tm.C:
				fail("C17:transport:close-does-not-return:"+name, "%s.Close: only %d of 3 concurrent calls returned within 30 s; still blocked: %v", name, len(got), c17tPending(&mu, pending))
				return
			}
		}
		finalClose[obj] = got
		for _, e := range got[1:] {
			if fmt.Sprint(e) != fmt.Sprint(got[0]) {
				fail("C17:transport:close-results-differ:"+name, "concurrent %s.Close callers got different results: %v vs %v", name, got[0], e)
			}
		}
	}
	closeAll(0, "Client", cli.Close)
	if h := getHandle(0); h != nil {
		closeAll(1, "Handle", h.Close)
	}
	srvCloseAt := time.Since(start)
	closeAll(2, "Server", env.Srv.Close)
	select {
	case <-procsDone:
	case <-time.After(30 * time.Second):
		p := c17tPending(&mu, pending)
		fail("C17:transport:call-not-released-by-close:"+c17tKindsOf(p), "30 s after client, handle and server were closed these calls have not returned: %v", p)
	}
	<-env.serveDone
	// ---- results of the recorded calls
	mu.Lock()
	closeRes := map[int][]error{}
	for _, e := range events {
		if e.Kind == 7 && !(e.Err != nil && strings.HasPrefix(e.Err.Error(), "verif: no handle")) {
			closeRes[e.Obj] = append(closeRes[e.Obj], e.Err)
		}
		if e.Kind == 7 && e.Obj == 2 && e.Start < srvCloseAt {
			srvCloseAt = e.Start // the program closed the server
		}
		if e.Err == nil || e.Obj == 2 {
			continue
		}
		switch e.Kind {
		case 1, 2:
			ok := e.Err == io.EOF || errors.Is(e.Err, os.ErrDeadlineExceeded) || errors.Is(e.Err, net.ErrClosed) || strings.HasPrefix(e.Err.Error(), "verif:")
			// a Read on the client implies a handshake; its errors are legitimate results of the read
			if !ok && e.Obj == 0 && (c.Peer != 0 || true) {
				ok = true
				v.Label("client-read-returned-handshake-error")
			}
			if !ok {
				v.Failf("C17:transport:unexpected-read-error", "%s returned %v (neither end-of-stream nor a timeout error)", e.Key, e.Err)
			}
		}
	}
	mu.Unlock()
	// "close ... reports the same result to every caller": EVERY Close call of one endpoint within the case - the ones of
	// the program (concurrent with anything), the three concurrent final ones, and therefore also repeated later ones -
	// returned the same result, whether the underlying socket's close succeeded or failed.
	closeCalls := 0
	for obj, name := range []string{"Client", "Handle", "Server"} {
		all := append(append([]error{}, closeRes[obj]...), finalClose[obj]...)
		closeCalls += len(closeRes[obj])
		for _, e := range all {
			if fmt.Sprint(e) != fmt.Sprint(all[0]) {
				fail("C17:transport:close-results-differ:"+name, "%d %s.Close calls of this case (%d in the program, %d final) did not all report the same result: %v vs %v (failing socket close injected: %v)",
					len(all), name, len(closeRes[obj]), len(finalClose[obj]), all[0], e, c.CloseFail)
			}
		}
	}
	if c.CloseFail != 0 {
		v.Label([]string{"", "socket-close-fails:server", "socket-close-fails:client", "socket-close-fails:both"}[c.CloseFail&3])
		if closeCalls > 0 {
			v.Label("socket-close-fails+close-in-program")
		}
	}
	// how often did the peer's move arrive while a local write was inside the socket (past the session lock, before the wire)?
	for x, name := range []string{"Client", "Handle"} {
		hit := false
		roamMu[1-x].Lock()
		if len(roams[x]) > 0 {
			v.Label("peer-roams-during-program:" + name)
		}
		wlogMu[x].Lock()
		for _, at := range roams[x] {
			for _, sp := range wlog[x] {
				if sp.from < at && at < sp.to {
					hit = true
				}
			}
		}
		wlogMu[x].Unlock()
		roamMu[1-x].Unlock()
		if hit {
			v.Label("peer-roams-while-a-write-is-inside-the-socket:" + name)
		}
	}
	if c.SlowCliUs > 0 || c.SlowSrvUs > 0 {
		v.Label("slow-socket")
	}
	// half-open handshakes, classified from the network's log only (after everything has stopped): when did the server
	// register the handshake of a further client (discoverable: it sent ServerAuth to that address; hidden: the request
	// from port 0 reached it), did the server's timer expire before the server was closed, and did session datagrams of
	// the established session reach the server while the timer was pending / after it had expired?
	if len(c.Extra) > 0 {
		v.Label("further-client-with-handshake-cut-short")
		var t0 []time.Duration
		for _, d := range env.Net.DeliveredSnapshot() {
			if len(d.Data) == 0 || d.At >= srvCloseAt {
				continue
			}
			for k := range c.Extra {
				if !c.Hidden && MessageType(d.Data[0]) == MessageTypeClientAck && c17tSameAddr(d.Src, extraAddr[k]) && d.Dst.IP.Equal(vSrvAddr.IP) {
					t0 = append(t0, d.At) // answered with ServerAuth at the same virtual instant
				}
				if c.Hidden && MessageType(d.Data[0]) == MessageTypeClientRequestHidden && c17tSameAddr(d.Src, extraAddr[k]) && d.Dst.IP.Equal(vSrvAddr.IP) {
					t0 = append(t0, d.At)
				}
			}
		}
		pendingAtClose, expired, during, after := false, false, false, false
		for _, t := range t0 {
			exp := t + scfg.HandshakeTimeout
			if exp >= srvCloseAt {
				pendingAtClose = true
				continue
			}
			expired = true
			for _, d := range env.Net.DeliveredSnapshot() {
				if len(d.Data) == 0 || d.At >= srvCloseAt || d.At < t || !d.Dst.IP.Equal(vSrvAddr.IP) {
					continue
				}
				if mt := MessageType(d.Data[0]); mt != MessageTypeTransport && mt != MessageTypeControl {
					continue
				}
				if d.At <= exp {
					during = true
				}
				if d.At >= exp {
					after = true
				}
			}
		}
		if len(t0) > 0 {
			v.Label("half-open-handshake:registered-by-server")
		}
		for _, x := range c.Extra {
			if x.LateMs > 0 && x.Lose == 0 && !c.Hidden && expired {
				v.Label("half-open-handshake:ClientAuth-arrives-" + map[bool]string{true: "at", false: "after"}[x.LateMs == 1] + "-expiry")
			}
		}
		if pendingAtClose {
			v.Label("half-open-handshake:server-closed-while-timer-pending")
		}
		if expired {
			v.Label("half-open-handshake:expires-during-case")
		}
		if during {
			v.Label("half-open-handshake:session-datagrams-while-pending")
		}
		if after {
			v.Label("half-open-handshake:session-datagrams-after-expiry")
		}
	}
	// classification
	racing := 0
	for _, pr := range c.Procs {
		for _, op := range pr {
			if (op.Kind >= 5 && op.Kind <= 8) || op.Kind == c17tRoam {
				racing++
				break
			}
		}
	}
	v.NonTrivial = len(c.Procs)+len(c.Extra) >= 3 && racing+len(c.Extra) >= 1
	v.Label(map[bool]string{false: "discoverable", true: "hidden"}[c.Hidden])
	v.Label([]string{"peer:honest", "peer:silent", "peer:vanishing"}[c.Peer])
	if c.HSTimeoutMs > 0 {
		v.Label("hs-timeout-set")
	}
	if c.HSDeadlineMs > 0 {
		v.Label("hs-deadline-set")
	}
	if len(c.Yields) > 0 {
		v.Label("with-yield-schedule")
	}
}

func c17tDeadline(arg int) time.Time {
	switch arg % 5 {
	case 0:
		return time.Time{}
	case 1:
		return time.Now().Add(-time.Second)
	case 2:
		return time.Now().Add(time.Millisecond)
	case 3:
		return time.Now().Add(300 * time.Millisecond)
	}
	return time.Now().Add(10 * time.Second)
}

func c17tPending(mu *sync.Mutex, pending map[string]time.Duration) []string {
	mu.Lock()
	defer mu.Unlock()
	var p []string
	for k := range pending {
		p = append(p, k)
	}
	sort.Strings(p)
	return p
}

func c17tKindsOf(p []string) string {
	seen := map[string]bool{}
	for _, k := range p {
		if i := strings.Index(k, ":"); i >= 0 {
			seen[k[i+1:]] = true
		}
	}
	var out []string
	for k := range seen {
		out = append(out, k)
	}
	sort.Strings(out)
	return strings.Join(out, "+")
}

// c17tDrain: data queued before Close is still returned before end-of-stream.
func c17tDrain(c c17tCase, v *vlib.Verdict) {
	w := vGetWorld()
	env := vStartServer(w.ServerConfig(c.Hidden))
	defer env.Stop()
	cli, _ := env.NewClient(vCliAddr, w.ClientConfig(c.Hidden, false))
	if err := cli.Handshake(); err != nil {
		v.Failf("C17:sanity:honest-handshake-fails", "%v", err)
		return
	}
	h, err := env.Srv.AcceptTimeout(2 * time.Second)
	if err != nil {
		v.Failf("C17:sanity:honest-handshake-fails", "accept: %v", err)
		cli.Close()
		return
	}
	onClient := c.Drain%2 == 1
	var from, to MsgConn = h, cli
	name := "Client"
	if !onClient {
		from, to = cli, h
		name = "Handle"
	}
	lens := c.Msgs
	if len(lens) == 0 {
		for i := 0; i < 1+c.Drain/10; i++ {
			lens = append(lens, 10+i*37)
		}
	}
	k := len(lens)
	var want [][]byte
	var stream []byte      // what was queued, as a byte stream
	bounds := map[int]int{} // offset in stream at which message i starts -> i
	for i, n := range lens {
		m := vlib.Fill(uint64(1000+i), n)
		bounds[len(stream)] = i
		want = append(want, m)
		stream = append(stream, m...)
		if err := from.WriteMsg(m); err != nil {
			v.Failf("C17:sanity:write-fails", "%v", err)
			return
		}
	}
	synctest.Wait() // everything is delivered into the receive queue
	// The reader's calls: c.CloseAt of c.Reads before Close (only while something is left to read: such a call cannot
	// block), the others after it, then calls with a large buffer (ReadMsg if the case has no Reads, else Read) until
	// end-of-stream. Oracle, from the property ("data queued before close is still returned before end-of-stream", in
	// order) and the documented contracts (Read is an io.Reader over the messages; ReadMsg returns one message, or
	// ErrBufOverflow - the message stays buffered - if the caller's buffer is too short): the bytes the calls return, in
	// order, are exactly the bytes that were queued; end-of-stream comes after all of them, not before; a ReadMsg that
	// starts at a message boundary returns exactly that message.
	var got []byte
	closed, sawEOF, overflowPending := false, false, false
	doClose := func() {
		if closed {
			return
		}
		closed = true
		_, atBound := bounds[len(got)]
		inMsg := !atBound && len(got) < len(stream) // a Read took only a part of the message
		var qlen int
		if onClient {
			qlen = len(cli.ss.handle.recv.C)
		} else {
			qlen = len(h.recv.C)
		}
		switch {
		case (inMsg || overflowPending) && qlen == 0:
			v.Label("drain:close-with-a-partly-read-message-and-an-empty-queue:" + name)
		case inMsg || overflowPending:
			v.Label("drain:close-with-a-partly-read-message:" + name)
		}
		to.Close()
	}
	maxCalls := len(c.Reads) + k + 8
	for i := 0; i < maxCalls && v.OK() && !sawEOF; i++ {
		if i >= c.CloseAt || i >= len(c.Reads) || len(got) == len(stream) {
			doClose()
		}
		rd := c17tRead{Msg: len(c.Reads) == 0 || c.Drain%4 >= 2, Buf: 70000}
		if i < len(c.Reads) {
			rd = c.Reads[i]
		}
		if rd.Buf < 1 {
			rd.Buf = 1
		}
		call := map[bool]string{false: "Read", true: "ReadMsg"}[rd.Msg]
		when := map[bool]string{false: "before", true: "after"}[closed]
		buf := make([]byte, rd.Buf)
		var n int
		var err error
		if rd.Msg {
			n, err = to.ReadMsg(buf)
		} else {
			n, err = to.Read(buf)
		}
		rest := len(stream) - len(got)
		mi, atBound := bounds[len(got)]
		curRem := 0 // what is left of the message the next byte belongs to
		for off, j := range bounds {
			if off <= len(got) && len(got) < off+len(want[j]) {
				curRem = off + len(want[j]) - len(got)
			}
		}
		switch {
		case err == io.EOF && closed && n == 0:
			sawEOF = true
			if rest > 0 {
				v.Failf("C17:transport:queued-data-lost-on-close:"+name, "%d messages (%d bytes) were queued before %s.Close; call #%d, %s(%d-byte buffer) after Close, reports end-of-stream although only %d bytes have been returned (%d calls were made before Close)", k, len(stream), name, i, call, rd.Buf, len(got), min(c.CloseAt, len(c.Reads)))
			}
		case err == ErrBufOverflow && rd.Msg && n == 0:
			// the message (or what is left of it) stays buffered; legitimate only if the buffer really is too short
			if rd.Buf >= curRem {
				v.Failf("C17:transport:drain:unexpected-overflow:"+name, "call #%d, ReadMsg(%d-byte buffer) %s Close: ErrBufOverflow although only %d bytes of the current message are left", i, rd.Buf, when, curRem)
			}
			overflowPending = true
			v.Label("drain:ReadMsg-overflow-" + when + "-close")
		case err != nil:
			v.Failf("C17:transport:drain:unexpected-read-error:"+name, "call #%d, %s(%d-byte buffer) %s Close returned (%d, %v); %d of %d queued bytes have been returned", i, call, rd.Buf, when, n, err, len(got), len(stream))
		default:
			if n > rest || string(buf[:n]) != string(stream[len(got):len(got)+min(n, rest)]) {
				v.Failf("C17:transport:drain:bytes-differ:"+name, "call #%d, %s(%d-byte buffer) %s Close returned %d bytes that are not the next bytes of what was queued (offset %d of %d)", i, call, rd.Buf, when, n, len(got), len(stream))
				break
			}
			if rd.Msg && atBound && n != len(want[mi]) {
				v.Failf("C17:transport:queued-data-lost-on-close:"+name, "call #%d, ReadMsg %s Close returned %d bytes; the next queued message (%d of %d) has %d", i, when, n, mi, k, len(want[mi]))
				break
			}
			if !rd.Msg && rd.Buf < curRem {
				v.Label("drain:short-read-buffer-" + when + "-close")
			}
			got = append(got, buf[:n]...)
			overflowPending = false
		}
	}
	if v.OK() && !sawEOF {
		v.Failf("C17:transport:no-eof-after-drain:"+name, "%d calls after the %d queued messages (%d bytes): %d bytes returned and no end-of-stream", maxCalls, k, len(stream), len(got))
	}
	if v.OK() {
		if n, err := to.ReadMsg(make([]byte, 70000)); err != io.EOF {
			v.Failf("C17:transport:no-eof-after-drain:"+name, "after the %d queued messages and a first end-of-stream ReadMsg returned (%d, %v) instead of end-of-stream", k, n, err)
		}
	}
	cli.Close()
	h.Close()
	v.NonTrivial = true
	v.Label("drain-after-close:" + name)
}

func c17tRunFn(t *testing.T) func(c c17tCase, v *vlib.Verdict) {
	return func(c c17tCase, v *vlib.Verdict) {
		if c.SlowCliUs < 0 || c.SlowSrvUs < 0 || c.SlowCliUs > 1000000 || c.SlowSrvUs > 1000000 || len(c.Msgs) > 16 || len(c.Reads) > 64 || c.CloseAt < 0 ||
			c.SrvHSTimeoutMs < 0 || c.SrvHSTimeoutMs > 10000 || len(c.Extra) > 4 {
			v.Discard = true
			return
		}
		for _, x := range c.Extra {
			if x.AtMs < 0 || x.AtMs > 5000 || x.Lose < 0 || x.Lose > 1 || x.StayMs < -1 || x.StayMs > 5000 || x.LateMs < 0 || x.LateMs > 5000 {
				v.Discard = true
				return
			}
		}
		for _, n := range c.Msgs {
			if n < 1 || n > 60000 {
				v.Discard = true
				return
			}
		}
		for _, pr := range c.Procs {
			for _, op := range pr {
				if op.Kind < 0 || op.Kind >= len(c17tKinds) || op.Obj < 0 || op.Obj > 2 || (op.Kind == c17tBurst && (op.Arg < 0 || op.Arg > 200)) || (op.Kind == c17tRoam && op.Arg < 0) || (op.Kind == c17tPaced && op.Arg < 0) {
					v.Discard = true
					return
				}
			}
		}
		if c.Mini < 0 || c.Mini > 2 || c.MOn < 0 || c.MOn > 1 || c.FailMode < 0 || c.FailMode > 2 || c.FailAtMs < 0 || c.FailAtMs > 10000 || c.FailArg < 0 ||
			len(c.MProcs) > 8 || (c.Mini > 0 && len(c.MProcs) == 0) {
			v.Discard = true
			return
		}
		for _, pr := range c.MProcs {
			for _, op := range pr {
				if op.Kind < 0 || op.Kind >= len(c17tMKinds) || (c.Mini == 1 && op.Kind > 4) || (c.Mini == 2 && op.Kind == 4) || op.AtUs < 0 || op.AtUs > 20000000 ||
					op.Abs < -1 || op.Abs > 20000 || op.Rep < 0 || op.Arg < 0 || len(pr) > 8 {
					v.Discard = true
					return
				}
			}
		}
		res := vlib.Bubble(t, 60*time.Second, func() {
			if c.Mini == 1 {
				c17tDeadlines(c, v)
			} else if c.Mini == 2 {
				c17tFailedHandshake(c, v)
			} else if c.Drain > 0 {
				c17tDrain(c, v)
			} else {
				c17tScenario(c, v)
			}
		})
		verifhook.Set(nil)
		if res.Hung {
			v.Inconclusive = "bubble hung in real time (C17 transport)"
			v.Note = strings.Join(c17MutexWaiters(res.Stacks), " | ")
			return
		}
		if res.Panic != "" && v.OK() {
			if res.Leak() || res.Deadlock() {
				v.Failf("C17:transport:goroutines-left:"+strings.Join(vlib.BlockedHopFrames(res.Stacks), ","), "after closing client, handle and server goroutines remain: %v", vlib.BlockedHopFrames(res.Stacks))
			} else {
				v.Failf(vlib.PanicSig(res.Panic, res.Stacks), "panic: %s", res.Panic)
			}
		}
	}
}

func c17MutexWaiters(stacks string) []string {
	var out []string
	for _, g := range strings.Split(stacks, "\n\n") {
		head := strings.SplitN(g, "\n", 2)[0]
		if !strings.Contains(head, "bubble") || !strings.Contains(head, "Mutex") {
			continue
		}
		for _, l := range strings.Split(g, "\n") {
			if strings.HasPrefix(l, "hop.computer/hop/") {
				if k := strings.Index(l, "(0x"); k > 0 {
					l = l[:k]
				}
				out = append(out, strings.TrimPrefix(l, "hop.computer/hop/"))
				break
			}
		}
	}
	sort.Strings(out)
	return out
}

// ---------------------------------------------------------------------------------------------------------------------
// Two sub-scenarios with a bookkeeping of their own (c17tCase.Mini).
//
// Mini 1 - deadlines on an established session: 2-5 goroutines issue, at drawn virtual instants, SetDeadline /
// SetReadDeadline calls on one endpoint (Client or Handle) - with ABSOLUTE instants taken from one or two values per case, so
// that the very same time.Time is set again (by the same goroutine, at once, 1-3 times; or by another goroutine; before or
// while a reader waits), besides the zero time and past instants -, Read / ReadMsg calls, and messages written by the peer.
// Oracle = the queue half's "deadline in force": for a read that no deadline change with ANOTHER value overlaps, the last
// change completed before it determines the deadline D; a timeout error without a deadline, or before D, is a violation, and so
// is a read that is still blocked a second after D.
//
// Mini 2 - a handshake that FAILS while other goroutines use the same client: the server never answers and the handshake
// times out, the answer is junk (delayed by the network), or the client's socket refuses the write. One goroutine starts the
// handshake; 2-6 others call Handshake, Read, ReadMsg, Write, WriteMsg, SetDeadline, SetReadDeadline, Close at instants drawn
// around the (known, virtual) instant of the failure: 1 ms before it, at it, 1 us .. 20 ms after it. The goroutines share
// NOTHING of the harness while the program runs (results go to per-goroutine slots, no mutex, no channel; the yield hook counts
// per point with an atomic of that point), so that the client's own state is the only thing that orders a caller against the
// goroutine that ran the handshake: an access of the published result that is not ordered through it is a report of the race
// detector. Oracle: the handshake cannot succeed, so every Handshake/Read/ReadMsg/Write/WriteMsg call returns a non-nil error;
// no panic; every call has returned 15 virtual s after the failure; three final Close calls agree; nothing is left.

type c17tMOp struct {
	Kind int `json:"kind"`          // index into c17tMKinds
	AtUs int `json:"atUs"`          // virtual instant (us after the start of the program) at which the call is issued; earlier ones of the goroutine may delay it
	Abs  int `json:"abs,omitempty"` // deadline calls: the deadline, ms after the start of the program (0: the zero time, < 0: an instant in the past)
	Rep  int `json:"rep,omitempty"` // deadline calls: repeated this many more times with the same value
	Arg  int `json:"arg,omitempty"` // read buffer / message length
}

var c17tMKinds = []string{"SetDeadline", "SetReadDeadline", "Read", "ReadMsg", "PeerWriteMsg", "Handshake", "Write", "WriteMsg", "Close"}

type c17tMEvent struct {
	G, I     int
	Kind     int
	DL       time.Duration
	Err      error
	N        int
	Panic    string
	Start    time.Duration
	End      time.Duration
	seqStart int64
	seqEnd   int64
}

func c17tSleepUntil(start time.Time, us int) {
	if d := time.Duration(us)*time.Microsecond - time.Since(start); d > 0 {
		time.Sleep(d)
	}
}

func c17tDeadlines(c c17tCase, v *vlib.Verdict) {
	w := vGetWorld()
	env := vStartServer(w.ServerConfig(c.Hidden))
	cli, _ := env.NewClient(vCliAddr, w.ClientConfig(c.Hidden, false))
	if err := cli.Handshake(); err != nil {
		v.Failf("C17:sanity:honest-handshake-fails", "%v", err)
		env.Stop()
		return
	}
	h, err := env.Srv.AcceptTimeout(2 * time.Second)
	if err != nil {
		v.Failf("C17:sanity:honest-handshake-fails", "accept: %v", err)
		cli.Close()
		env.Stop()
		return
	}
	var on, peer MsgConn = cli, h
	name := "Client"
	if c.MOn == 1 {
		on, peer, name = h, cli, "Handle"
	}
	synctest.Wait()
	start := time.Now()
	var mu sync.Mutex
	var events []*c17tMEvent
	pending := map[string]bool{}
	var seq atomic.Int64
	readSem := make(chan struct{}, 1) // readers take turns on a channel (the handle's read lock is a mutex)
	var wg sync.WaitGroup
	for g, pr := range c.MProcs {
		wg.Add(1)
		go func(g int, pr []c17tMOp) {
			defer wg.Done()
			for i, op := range pr {
				c17tSleepUntil(start, op.AtUs)
				key := fmt.Sprintf("g%d.%d:%s.%s", g, i, name, c17tMKinds[op.Kind])
				mu.Lock()
				pending[key] = true
				mu.Unlock()
				if op.Kind == 2 || op.Kind == 3 {
					readSem <- struct{}{}
				}
				ev := &c17tMEvent{G: g, I: i, Kind: op.Kind, Start: time.Since(start), seqStart: seq.Add(1)}
				finish := func() {
					ev.End = time.Since(start)
					ev.seqEnd = seq.Add(1)
					mu.Lock()
					events = append(events, ev)
					mu.Unlock()
				}
				switch op.Kind {
				case 0, 1:
					var dl time.Time
					switch {
					case op.Abs > 0:
						dl = start.Add(time.Duration(op.Abs) * time.Millisecond)
					case op.Abs < 0:
						dl = start.Add(-time.Second)
					}
					set := on.SetDeadline
					if op.Kind == 1 {
						set = on.SetReadDeadline
					}
					for r := 0; ; r++ {
						if !dl.IsZero() {
							ev.DL = dl.Sub(start)
						}
						ev.Err = set(dl)
						if r >= op.Rep || r >= 3 {
							break
						}
						finish()
						ev = &c17tMEvent{G: g, I: i, Kind: op.Kind, Start: time.Since(start), seqStart: seq.Add(1)}
					}
				case 2:
					ev.N, ev.Err = on.Read(make([]byte, 1+op.Arg%2000))
				case 3:
					ev.N, ev.Err = on.ReadMsg(make([]byte, 70000))
				case 4:
					ev.Err = peer.WriteMsg(vlib.Fill(uint64(g*100+i), 1+op.Arg%300))
				}
				finish()
				if op.Kind == 2 || op.Kind == 3 {
					<-readSem
				}
				mu.Lock()
				delete(pending, key)
				mu.Unlock()
			}
		}(g, pr)
	}
	procsDone := make(chan struct{})
	go func() { wg.Wait(); close(procsDone) }()
	select {
	case <-procsDone:
	case <-time.After(40 * time.Second):
	}
	cli.Close()
	h.Close()
	env.Stop()
	select {
	case <-procsDone:
	case <-time.After(30 * time.Second):
		var p []string
		mu.Lock()
		for k := range pending {
			p = append(p, k)
		}
		mu.Unlock()
		sort.Strings(p)
		v.Failf("C17:transport:call-not-released-by-close:"+c17tKindsOf(p), "30 s after client, handle and server were closed these calls have not returned: %v", p)
		return
	}
	mu.Lock()
	defer mu.Unlock()
	isDL := func(e *c17tMEvent) bool { return e.Kind <= 1 }
	sameAgain, judged := false, 0
	for _, e := range events {
		if e.Kind != 2 && e.Kind != 3 {
			if isDL(e) && e.DL > 0 && e.End < e.DL {
				for _, o := range events {
					if o != e && isDL(o) && o.DL == e.DL && o.End < o.DL {
						sameAgain = true
					}
				}
			}
			continue
		}
		var last *c17tMEvent
		var over []*c17tMEvent
		for _, sd := range events {
			if !isDL(sd) {
				continue
			}
			if sd.seqStart < e.seqEnd && sd.seqEnd > e.seqStart {
				over = append(over, sd)
			}
			if sd.seqEnd < e.seqStart && (last == nil || sd.seqEnd > last.seqEnd) {
				last = sd
			}
		}
		if last != nil && last.Err != nil {
			continue
		}
		// setting the instant that is already in force changes nothing: such calls do not make the deadline in force ambiguous
		same := func(sd *c17tMEvent) bool { return last != nil && last.DL != 0 && sd.Err == nil && sd.DL == last.DL }
		skip := false
		for _, sd := range over {
			if !same(sd) {
				skip = true
			}
		}
		if last != nil {
			for _, sd := range events {
				if sd != last && isDL(sd) && sd.seqStart < last.seqEnd && sd.seqEnd > last.seqStart && !same(sd) {
					skip = true
				}
			}
		}
		if skip {
			continue
		}
		judged++
		var D time.Duration
		if last != nil {
			D = last.DL
		}
		call := fmt.Sprintf("%s.%s g%d.%d", name, c17tMKinds[e.Kind], e.G, e.I)
		timedOut := e.Err != nil && errors.Is(e.Err, os.ErrDeadlineExceeded)
		switch {
		case timedOut && D == 0:
			v.Failf("C17:transport:timeout-without-deadline:"+name, "%s returned %v at %v although no deadline was in force (the last deadline call before it cleared it, or there was none)", call, e.Err, e.End)
			return
		case timedOut && e.End+time.Millisecond < D:
			v.Failf("C17:transport:timeout-before-deadline:"+name, "%s returned %v at %v, before its deadline %v", call, e.Err, e.End, D)
			return
		case D != 0 && e.End > D+time.Second && e.End > e.Start+time.Second:
			v.Failf("C17:transport:deadline-not-honoured:"+name, "%s started at %v with the read deadline %v in force (set by %s) and was still blocked at %v (returned %d, %v)", call, e.Start, D, c17tMKinds[last.Kind], e.End, e.N, e.Err)
			return
		}
	}
	v.NonTrivial = len(c.MProcs) >= 3
	v.Label("deadlines-on-established-session:" + name)
	if sameAgain {
		v.Label("same-future-deadline-set-again:" + name)
	}
	if judged > 0 {
		v.Label("read-judged-against-deadline-in-force")
	}
	v.Label(map[bool]string{false: "discoverable", true: "hidden"}[c.Hidden])
}

var c17tFailPoints = []string{"transport.Client.Handshake.elected", "transport.Client.Handshake.beforeDone", "transport.Client.Close.elected", "transport.Client.Close.connClosed", "transport.Client.Close.beforePublish"}

func c17tFailedHandshake(c c17tCase, v *vlib.Verdict) {
	w := vGetWorld()
	env := vStartServer(w.ServerConfig(c.Hidden))
	start := time.Now()
	junkAfter := time.Duration(c.FailAtMs) * time.Millisecond
	env.Net.Filter = func(d simnet.Datagram) []simnet.Datagram {
		if d.Dst == nil || d.Dst.IP.Equal(vSrvAddr.IP) {
			return []simnet.Datagram{d}
		}
		// towards the client: nothing (modes 0, 2), or junk in place of the server's first answer (mode 1)
		if c.FailMode == 1 && d.Idx >= 0 {
			n := 1 + c.FailArg%max(1, len(d.Data))
			n = min(n, len(d.Data))
			if c.FailArg%3 == 0 {
				d.Data = append([]byte(nil), d.Data[:n]...) // cut short
			} else {
				d.Data = append(append([]byte(nil), d.Data[:min(n, 4)]...), vlib.Fill(uint64(c.FailArg), len(d.Data))...) // right type, junk body
			}
			d.Delay = junkAfter
			return []simnet.Datagram{d}
		}
		return nil
	}
	ccfg := w.ClientConfig(c.Hidden, false)
	ccfg.HSTimeout = 5 * time.Second // modes 1, 2: the failure comes first (a junk answer that happens to parse is followed by junk only)
	if c.FailMode == 0 {
		ccfg.HSTimeout = time.Duration(c.FailAtMs) * time.Millisecond
	}
	cli, cliSock := env.NewClient(vCliAddr, ccfg)
	if c.FailMode == 2 {
		cliSock.FailWrites(errors.New("verif: network is unreachable"))
	}
	// yield schedule without a shared lock: one counter per point
	var hits [8]atomic.Int32
	sched := map[string]map[int]int{}
	idx := map[string]int{}
	for i, p := range c17tFailPoints {
		idx[p] = i
	}
	for _, y := range c.Yields {
		pt := c17tFailPoints[y.Point%len(c17tFailPoints)]
		if sched[pt] == nil {
			sched[pt] = map[int]int{}
		}
		sched[pt][y.Hit] = y.Us
	}
	verifhook.Set(func(point string) {
		m := sched[point]
		if m == nil {
			return
		}
		k := int(hits[idx[point]].Add(1)) - 1
		if us, ok := m[k]; ok {
			if us > 0 {
				time.Sleep(time.Duration(us) * time.Microsecond)
			} else {
				runtime.Gosched()
			}
		}
	})
	defer verifhook.Set(nil)
	res := make([][]c17tMEvent, len(c.MProcs)) // res[g] is written by goroutine g only and read after wg.Wait
	cur := make([]atomic.Int32, len(c.MProcs)) // 1 + index of the call goroutine g is in (diagnostics of the termination oracle)
	var wg sync.WaitGroup
	for g, pr := range c.MProcs {
		wg.Add(1)
		go func(g int, pr []c17tMOp) {
			defer wg.Done()
			for i, op := range pr {
				c17tSleepUntil(start, op.AtUs)
				cur[g].Store(int32(i + 1))
				ev := c17tMEvent{G: g, I: i, Kind: op.Kind, Start: time.Since(start)}
				func() {
					defer func() {
						if r := recover(); r != nil {
							ev.Panic = fmt.Sprint(r)
						}
					}()
					switch op.Kind {
					case 0:
						ev.Err = cli.SetDeadline(start.Add(time.Duration(op.Abs) * time.Millisecond))
					case 1:
						ev.Err = cli.SetReadDeadline(start.Add(time.Duration(op.Abs) * time.Millisecond))
					case 2:
						ev.N, ev.Err = cli.Read(make([]byte, 1+op.Arg%2000))
					case 3:
						ev.N, ev.Err = cli.ReadMsg(make([]byte, 70000))
					case 5:
						ev.Err = cli.Handshake()
					case 6:
						ev.N, ev.Err = cli.Write(vlib.Fill(uint64(g), 1+op.Arg%300))
					case 7:
						ev.Err = cli.WriteMsg(vlib.Fill(uint64(g), 1+op.Arg%300))
					case 8:
						ev.Err = cli.Close()
					}
				}()
				ev.End = time.Since(start)
				res[g] = append(res[g], ev)
				cur[g].Store(0)
			}
		}(g, pr)
	}
	procsDone := make(chan struct{})
	go func() { wg.Wait(); close(procsDone) }()
	blocked := func() []string {
		var p []string
		for g := range cur {
			if i := int(cur[g].Load()); i > 0 {
				p = append(p, fmt.Sprintf("g%d.%d:Client.%s", g, i-1, c17tMKinds[c.MProcs[g][i-1].Kind]))
			}
		}
		sort.Strings(p)
		return p
	}
	mode := []string{"timeout", "junk-answer", "write-refused"}[c.FailMode]
	select {
	case <-procsDone:
	case <-time.After(time.Duration(c.FailAtMs)*time.Millisecond + 15*time.Second):
		p := blocked()
		v.Failf("C17:transport:call-not-released-by-failed-handshake:"+c17tKindsOf(p), "the handshake fails (%s) %d ms into the case; 15 s later these calls have not returned: %v", mode, c.FailAtMs, p)
	}
	closeRes := make(chan error, 3)
	for i := 0; i < 3; i++ {
		go func() { closeRes <- cli.Close() }()
	}
	var got []error
	tm := time.NewTimer(30 * time.Second)
	for len(got) < 3 && v.OK() {
		select {
		case e := <-closeRes:
			got = append(got, e)
		case <-tm.C:
			v.Failf("C17:transport:close-does-not-return:Client", "Client.Close after a failed handshake (%s): only %d of 3 concurrent calls returned within 30 s; still blocked: %v", mode, len(got), blocked())
		}
	}
	tm.Stop()
	env.Stop()
	if !v.OK() {
		return
	}
	select {
	case <-procsDone:
	case <-time.After(30 * time.Second):
		p := blocked()
		v.Failf("C17:transport:call-not-released-by-close:"+c17tKindsOf(p), "30 s after the client was closed these calls have not returned: %v", p)
		return
	}
	for _, e := range got[1:] {
		if fmt.Sprint(e) != fmt.Sprint(got[0]) {
			v.Failf("C17:transport:close-results-differ:Client", "concurrent Client.Close callers got different results after a failed handshake: %v vs %v", got[0], e)
			return
		}
	}
	afterFailure := 0
	for g := range res {
		for _, e := range res[g] {
			call := fmt.Sprintf("Client.%s g%d.%d", c17tMKinds[e.Kind], e.G, e.I)
			if e.Panic != "" {
				v.Failf("C17:transport:panic-on-failed-client:"+c17tMKinds[e.Kind], "%s (issued at %v; the handshake fails by %s at %d ms) panicked: %s", call, e.Start, mode, c.FailAtMs, e.Panic)
				return
			}
			// the server never answers validly: no handshake succeeds, and Read/Write imply one
			if e.Kind >= 2 && e.Kind <= 7 && e.Err == nil {
				v.Failf("C17:transport:nil-error-on-failed-client:"+c17tMKinds[e.Kind], "%s (issued at %v, returned at %v) reported success although the client's handshake cannot succeed (%s at %d ms)", call, e.Start, e.End, mode, c.FailAtMs)
				return
			}
			if e.Kind == 8 && fmt.Sprint(e.Err) != fmt.Sprint(got[0]) {
				v.Failf("C17:transport:close-results-differ:Client", "%s returned %v, the final Close calls %v", call, e.Err, got[0])
				return
			}
			if e.Start >= time.Duration(c.FailAtMs)*time.Millisecond && e.Kind != 0 && e.Kind != 1 {
				afterFailure++
			}
		}
	}
	v.NonTrivial = len(c.MProcs) >= 3
	v.Label("failed-handshake-under-concurrent-use:" + mode)
	if afterFailure > 0 {
		v.Label("failed-handshake:calls-issued-at-or-after-the-failure")
	}
	v.Label(map[bool]string{false: "discoverable", true: "hidden"}[c.Hidden])
}

func c17tGenMini(t *rapid.T, c *c17tCase) {
	c.Mini = rapid.SampledFrom([]int{1, 2, 2}).Draw(t, "mini")
	if c.Mini == 1 {
		c.MOn = rapid.IntRange(0, 1).Draw(t, "on")
		pool := rapid.SliceOfNDistinct(rapid.SampledFrom([]int{3, 40, 300, 2500}), 1, 2, rapid.ID[int]).Draw(t, "absPool")
		at := rapid.SampledFrom([]int{0, 0, 0, 500, 1000, 2000, 10000, 100000, 1000000})
		op := rapid.Custom(func(t *rapid.T) c17tMOp {
			o := c17tMOp{Kind: rapid.SampledFrom([]int{0, 0, 1, 1, 2, 2, 3, 4}).Draw(t, "kind"), AtUs: at.Draw(t, "at")}
			switch o.Kind {
			case 0, 1:
				o.Abs = rapid.SampledFrom(append([]int{0, -1}, append(pool, pool...)...)).Draw(t, "abs")
				o.Rep = rapid.SampledFrom([]int{0, 0, 1, 1, 2, 3}).Draw(t, "rep")
			default:
				o.Arg = rapid.SampledFrom([]int{0, 3, 70, 1999}).Draw(t, "arg")
			}
			return o
		})
		c.MProcs = rapid.SliceOfN(rapid.SliceOfN(op, 1, 4), 2, 5).Draw(t, "mprocs")
		return
	}
	c.FailMode = rapid.SampledFrom([]int{0, 0, 1, 2}).Draw(t, "failMode")
	c.FailArg = rapid.IntRange(0, 1000).Draw(t, "failArg")
	c.FailAtMs = rapid.SampledFrom([]int{1, 30, 2000}).Draw(t, "failAt")
	hsAt := 0
	if c.FailMode == 2 {
		c.FailAtMs = rapid.SampledFrom([]int{0, 5}).Draw(t, "failAtWrite") // the write fails as soon as the handshake starts
		hsAt = c.FailAtMs * 1000
	}
	off := rapid.SampledFrom([]int{-1000, -1, 0, 0, 0, 1, 1, 50, 1000, 20000})
	op := rapid.Custom(func(t *rapid.T) c17tMOp {
		o := c17tMOp{Kind: rapid.SampledFrom([]int{5, 5, 2, 3, 6, 7, 8, 8, 0, 1}).Draw(t, "kind")}
		o.AtUs = max(0, c.FailAtMs*1000+off.Draw(t, "off"))
		o.Abs = rapid.SampledFrom([]int{0, 1, 5000}).Draw(t, "abs")
		o.Arg = rapid.SampledFrom([]int{0, 3, 70}).Draw(t, "arg")
		return o
	})
	c.MProcs = append([][]c17tMOp{{{Kind: 5, AtUs: hsAt}}}, rapid.SliceOfN(rapid.SliceOfN(op, 1, 3), 2, 5).Draw(t, "mprocs")...)
	c.Yields = rapid.SliceOfN(rapid.Custom(func(t *rapid.T) c17tYield {
		return c17tYield{Point: rapid.IntRange(0, len(c17tFailPoints)-1).Draw(t, "pt"), Hit: rapid.IntRange(0, 1).Draw(t, "hit"), Us: rapid.SampledFrom([]int{0, 1, 500, 50000}).Draw(t, "us")}
	}), 0, 2).Draw(t, "yields")
}

func c17tGen(t *rapid.T) c17tCase {
	c := c17tCase{Hidden: rapid.Bool().Draw(t, "hidden")}
	// one case in six: deadline calls that repeat an absolute instant, on an established session / a failing handshake under
	// concurrent use (c17tGenMini)
	if rapid.IntRange(0, 5).Draw(t, "mini-family") == 0 {
		c17tGenMini(t, &c)
		return c
	}
	if rapid.IntRange(0, 9).Draw(t, "drain") == 0 {
		c.Drain = rapid.IntRange(1, 60).Draw(t, "drainN")
		if rapid.IntRange(0, 3).Draw(t, "short-buffers") == 0 {
			return c // the fixed series of messages, read with ReadMsg into a large buffer after Close
		}
		// messages of drawn lengths; the reader's buffers are mostly shorter than the messages; Close comes after a drawn
		// number of calls, i.e. also in the middle of a message, also of the last one
		k := rapid.SampledFrom([]int{1, 1, 1, 2, 2, 3, 4, 5}).Draw(t, "msgs")
		for i := 0; i < k; i++ {
			c.Msgs = append(c.Msgs, rapid.SampledFrom([]int{1, 2, 3, 10, 47, 200, 1000, 5000}).Draw(t, "msglen"))
		}
		nr := rapid.IntRange(1, 3*k+2).Draw(t, "nreads")
		for i := 0; i < nr; i++ {
			r := c17tRead{Msg: rapid.IntRange(0, 3).Draw(t, "readmsg") == 0}
			switch rapid.IntRange(0, 3).Draw(t, "bufclass") {
			case 0:
				r.Buf = rapid.IntRange(1, 9).Draw(t, "buf")
			case 1:
				r.Buf = max(1, c.Msgs[rapid.IntRange(0, k-1).Draw(t, "of")]-rapid.SampledFrom([]int{1, 1, 2, 5}).Draw(t, "less")) // just too short for one of the messages
			case 2:
				r.Buf = max(1, c.Msgs[rapid.IntRange(0, k-1).Draw(t, "of")]/2)
			default:
				r.Buf = rapid.SampledFrom([]int{46, 199, 999, 70000}).Draw(t, "buf")
			}
			c.Reads = append(c.Reads, r)
		}
		c.CloseAt = rapid.IntRange(0, nr).Draw(t, "closeAt")
		return c
	}
	c.CloseFail = rapid.SampledFrom([]int{0, 0, 0, 1, 2, 3}).Draw(t, "closeFail")
	c.Peer = rapid.SampledFrom([]int{0, 0, 1, 2}).Draw(t, "peer")
	c.VanishMs = rapid.SampledFrom([]int{0, 1, 5, 50, 500}).Draw(t, "vanish")
	c.HSTimeoutMs = rapid.SampledFrom([]int{0, 2000, 2000}).Draw(t, "hst")
	c.HSDeadlineMs = rapid.SampledFrom([]int{0, 0, 0, 3000}).Draw(t, "hsd")
	op := rapid.Custom(func(t *rapid.T) c17tOp {
		o := c17tOp{Obj: rapid.SampledFrom([]int{0, 0, 0, 1, 1, 2}).Draw(t, "obj")}
		switch o.Obj {
		case 0:
			o.Kind = rapid.SampledFrom([]int{0, 1, 2, 3, 4, 5, 6, 7, 0, 1, 2, 3, 4, 5, 6, 7, c17tBurst, c17tRoam, c17tPaced}).Draw(t, "kind")
		case 1:
			o.Kind = rapid.SampledFrom([]int{1, 2, 3, 4, 5, 6, 7, 1, 2, 3, 4, 5, 6, 7, c17tBurst, c17tRoam, c17tPaced}).Draw(t, "kind")
		default:
			o.Kind = rapid.SampledFrom([]int{8, 8, 7}).Draw(t, "kind")
		}
		o.Arg = rapid.SampledFrom([]int{0, 1, 2, 3, 4, 100, 70000, 200000}).Draw(t, "arg")
		o.DelayMs = rapid.SampledFrom([]int{0, 0, 0, 1, 20, 400, 2500}).Draw(t, "delay")
		switch o.Kind {
		case c17tBurst:
			o.Arg = rapid.IntRange(3, 40).Draw(t, "writes")
		case c17tRoam:
			o.Arg = rapid.IntRange(0, 7).Draw(t, "moves") + 8*rapid.IntRange(0, len(c17tRoamGaps)-1).Draw(t, "gap")
		case c17tPaced:
			o.Arg = rapid.IntRange(0, 15).Draw(t, "writes") + 16*rapid.IntRange(0, len(c17tPacedGaps)-1).Draw(t, "gap")
		}
		return o
	})
	// One case in three: the peer roams while the application writes, over a slow socket. Side 0: the client roams and the
	// server-side handle keeps writing (the server's socket is slow); side 1: the server's socket moves and the client keeps
	// writing (the client's socket is slow); side 2: both. The two (four) goroutines are added to a shorter random program,
	// which may close, read, set deadlines ... at any time.
	minProcs, maxProcs := 2, 6
	var fam [][]c17tOp
	if rapid.IntRange(0, 2).Draw(t, "roaming-family") == 0 {
		c.Peer = rapid.SampledFrom([]int{0, 0, 0, 2}).Draw(t, "peer-roaming-family")
		side := rapid.IntRange(0, 2).Draw(t, "roaming-side")
		for x := 0; x < 2; x++ {
			if side != 2 && side != x {
				continue
			}
			us := rapid.SampledFrom([]int{150, 2500, 30000}).Draw(t, "slow")
			if x == 0 {
				c.SlowSrvUs = us
			} else {
				c.SlowCliUs = us
			}
			delay := rapid.SampledFrom([]int{0, 0, 1, 20})
			fam = append(fam,
				[]c17tOp{{Obj: 1 - x, Kind: c17tBurst, Arg: rapid.IntRange(5, 40).Draw(t, "writes"), DelayMs: delay.Draw(t, "delay")}},
				[]c17tOp{{Obj: x, Kind: c17tRoam, Arg: rapid.IntRange(1, 7).Draw(t, "moves") + 8*rapid.IntRange(0, len(c17tRoamGaps)-1).Draw(t, "gap"), DelayMs: delay.Draw(t, "delay")}})
		}
	}
	// One case in four: half-open handshakes on the server. 1-3 further clients start a handshake that the network cuts
	// short (c17tExtra) and the server's HandshakeTimeout is 50 ms / 300 ms / 2 s, so that the timer the server armed for
	// each of them fires - and removes the entries from the handshake and session tables on the timer's goroutine - while the
	// program runs on the established session (the further clients keep the case alive across the expiry unless StayMs is
	// -1: then the case may end, and the server be closed, with the timer still pending). In half of these cases one more
	// goroutine writes paced messages on the client, so that the server's receive loop looks sessions up before, at and
	// after the expiry. A short server timeout without further clients (one other case in six) lets the timer meet the
	// main client's own handshake when the yield schedule slows that down.
	if rapid.IntRange(0, 3).Draw(t, "half-open-family") == 0 {
		if c.Peer == 1 {
			c.Peer = 0 // a silent server never gets as far as registering a handshake
		}
		c.SrvHSTimeoutMs = rapid.SampledFrom([]int{50, 300, 2000}).Draw(t, "srvHsTimeout")
		n := rapid.SampledFrom([]int{1, 1, 2, 3}).Draw(t, "further-clients")
		for i := 0; i < n; i++ {
			c.Extra = append(c.Extra, c17tExtra{
				AtMs:   rapid.SampledFrom([]int{0, 0, 1, 20, 400}).Draw(t, "at"),
				Lose:   rapid.IntRange(0, 1).Draw(t, "lose"),
				StayMs: rapid.SampledFrom([]int{-1, 1, 1, 100, 100}).Draw(t, "stay"),
			})
			if x := &c.Extra[i]; x.Lose == 0 && !c.Hidden {
				x.LateMs = rapid.SampledFrom([]int{0, 0, 1, 2, 51}).Draw(t, "late")
			}
		}
		if rapid.Bool().Draw(t, "paced-traffic") {
			fam = append(fam, []c17tOp{{Obj: 0, Kind: c17tPaced, Arg: rapid.IntRange(3, 15).Draw(t, "writes") + 16*rapid.IntRange(0, len(c17tPacedGaps)-1).Draw(t, "gap"),
				DelayMs: rapid.SampledFrom([]int{0, 0, 1, 20}).Draw(t, "delay")}})
		}
	} else {
		c.SrvHSTimeoutMs = rapid.SampledFrom([]int{0, 0, 0, 0, 0, 50}).Draw(t, "srvHsTimeout")
	}
	if len(fam) > 0 {
		minProcs, maxProcs = 1, 6-len(fam)
	}
	c.Procs = append(fam, rapid.SliceOfN(rapid.SliceOfN(op, 1, 5), minProcs, maxProcs).Draw(t, "procs")...)
	c.Yields = rapid.SliceOfN(rapid.Custom(func(t *rapid.T) c17tYield {
		return c17tYield{Point: rapid.IntRange(0, len(c17tPoints)-1).Draw(t, "pt"), Hit: rapid.IntRange(0, 3).Draw(t, "hit"), Us: rapid.SampledFrom([]int{0, 1, 500, 50000, 600000}).Draw(t, "us")}
	}), 0, 5).Draw(t, "yields")
	return c
}

func TestVerifC17Transport(t *testing.T) {
	vlib.Drive(t, vlib.Spec[c17tCase]{ID: "C17", Quick: 4000, Gen: c17tGen, Run: c17tRunFn(t)})
}
