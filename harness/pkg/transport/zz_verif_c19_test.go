//go:build go1.25

package transport

// C19 — a discoverable server keeps no per-client state for a client hello and accepts a client
// acknowledgement only with a cookie it minted under its current cookie key for that source address
// and client ephemeral key; a hidden-mode server sends no datagram at all except in answer to a
// fresh, well-formed hidden request made with (one of) its KEM public key(s).
//
//	(a) TestVerifC19Stateless             floods of client hellos; white-box footprint of the server unchanged
//	(b) TestVerifC19CookieSweep / Random  ONE client acknowledgement presented per case; ServerAuth + handshake entry only
//	                                      for (A, K, intact cookie, current key)
//	(c) TestVerifC19HiddenSweep / Random  ONE probe class per case against a hidden server; every datagram that leaves the
//	                                      server's address is attributed to the probe that preceded it

import (
	"crypto/rand"
	"fmt"
	"net"
	"reflect"
	"sort"
	"strings"
	"sync"
	"testing"
	"time"

	"pgregory.net/rapid"

	"hop.computer/hop/certs"
	"hop.computer/hop/keys"
	"verif.local/vlib"
	"verif.local/vlib/simnet"
)

// ---------------------------------------------------------------------------
// wire layout (from transport/common.go and writePQClientAck / writePQServerHello)

const (
	c19AckOffDH     = HeaderLen
	c19AckOffKEM    = c19AckOffDH + DHLen
	c19AckOffCookie = c19AckOffKEM + KemKeyLen
	c19AckOffSNI    = c19AckOffCookie + PQCookieLen
	c19AckOffMAC    = c19AckOffSNI + SNILen
	c19AckLen       = c19AckOffMAC + MacLen

	c19SHOffCt     = HeaderLen
	c19SHOffCookie = c19SHOffCt + KemCtLen
	c19SHLen       = c19SHOffCookie + PQCookieLen + MacLen

	// known-open process-killing findings whose trigger shapes are excluded by construction while they are listed open
	c19SigHiddenMulti = "panic:transport.(*Server).readPQClientRequestHidden:slice-bounds"
	c19SigMakeslice   = "panic:transport.(*Server).handleSessionMessage:makeslice"
)

var (
	c19AddrSamePort  = simnet.Addr("10.0.0.77", 40000) // other IP, port of vCliAddr
	c19AddrSameIP    = simnet.Addr("10.0.0.2", 40007)  // IP of vCliAddr, other port
	c19AddrLiveness  = simnet.Addr("10.0.0.9", 41000)
	c19AddrOtherXchg = simnet.Addr("10.0.0.44", 40444)
)

func c19Same(a, b *net.UDPAddr) bool { return a != nil && b != nil && a.String() == b.String() }

func c19Settle() { time.Sleep(5 * time.Millisecond) }

// c19Watch attributes the datagrams that leave the server's address to the step that preceded them.
type c19Watch struct {
	n    *simnet.Net
	mark int
}

func c19NewWatch(n *simnet.Net) *c19Watch { return &c19Watch{n: n, mark: len(n.SentSnapshot())} }

// delta returns the datagrams handed to the network by the server's socket since the previous call.
func (w *c19Watch) delta() []simnet.Datagram {
	all := w.n.SentSnapshot()
	var out []simnet.Datagram
	for _, d := range all[w.mark:] {
		if c19Same(d.Src, vSrvAddr) {
			out = append(out, d)
		}
	}
	w.mark = len(all)
	return out
}

func c19Describe(ds []simnet.Datagram) string {
	var sb strings.Builder
	for i, d := range ds {
		if i == 4 {
			sb.WriteString(" ...")
			break
		}
		t := -1
		if len(d.Data) > 0 {
			t = int(d.Data[0])
		}
		fmt.Fprintf(&sb, " [type %#x len %d to %v]", t, len(d.Data), d.Dst)
	}
	return sb.String()
}

// c19Footprint returns the length of every map, slice and channel owned by the server (white-box).
func c19Footprint(s *Server) map[string]int {
	out := map[string]int{}
	s.m.RLock()
	defer s.m.RUnlock()
	v := reflect.ValueOf(s).Elem()
	for i := 0; i < v.NumField(); i++ {
		f := v.Field(i)
		switch f.Kind() {
		case reflect.Map, reflect.Slice, reflect.Chan:
			out[v.Type().Field(i).Name] = f.Len()
		}
	}
	out["handshakes"] = len(s.handshakes)
	out["sessions"] = len(s.sessions)
	return out
}

func c19FootprintDiff(a, b map[string]int) (field string, from, to int) {
	var names []string
	for k := range b {
		names = append(names, k)
	}
	sort.Strings(names)
	for _, k := range names {
		if a[k] != b[k] {
			return k, a[k], b[k]
		}
	}
	return "", 0, 0
}

func c19CookieKey(s *Server) [KeyLen]byte {
	s.cookieLock.Lock()
	defer s.cookieLock.Unlock()
	return s.cookieKey
}

// c19Handshake runs cli.Handshake with a virtual watchdog (a hidden client never times out against a silent peer).
func c19Handshake(cli *Client, patience time.Duration) error {
	done := make(chan error, 1)
	go func() { done <- cli.Handshake() }()
	select {
	case err := <-done:
		return err
	case <-time.After(patience):
		cli.Close()
		if err := <-done; err != nil {
			return err
		}
		return fmt.Errorf("handshake needed Close to return")
	}
}

// c19BubbleVerdict turns the way a bubble ended into a verdict; true = scenario verdict can be used.
func c19BubbleVerdict(res vlib.BubbleResult, v *vlib.Verdict) bool {
	if res.Hung {
		v.Inconclusive = "bubble hung in real time (C19)"
		return false
	}
	if res.Panic != "" {
		if res.Leak() || res.Deadlock() {
			fr := fmt.Sprint(vlib.BlockedHopFrames(res.Stacks))
			v.Failf("C19:goroutines-left:"+fr, "after closing clients and server goroutines remain: %s", fr)
		} else {
			v.Failf(vlib.PanicSig(res.Panic, res.Stacks), "panic: %s", res.Panic)
		}
		return false
	}
	return true
}

// ---------------------------------------------------------------------------
// harness-driven client side of the discoverable exchange (the real message functions, no socket)

type c19Xchg struct {
	addr   *net.UDPAddr
	kem    *keys.KEMKeyPair
	hs     *HandshakeState
	hello  []byte
	sh     []byte
	secret []byte // KEM shared secret of the ServerHello
	cookie []byte
	ack    []byte
	keyAt  [KeyLen]byte // server cookie key when the cookie was minted (white-box)
}

func c19NewKEM() *keys.KEMKeyPair {
	kp, err := keys.GenerateKEMKeyPair(rand.Reader)
	vMust(err)
	return kp
}

func c19ClientHS(kp *keys.KEMKeyPair) *HandshakeState {
	hs := new(HandshakeState)
	hs.duplex.InitializeEmpty()
	hs.dh = new(dhState)
	hs.dh.ephemeral.Generate()
	hs.kem = new(kemState)
	hs.kem.ephemeral = *kp
	hs.certVerify = &VerifyConfig{Name: vGetWorld().ServerName}
	hs.duplex.Absorb([]byte(PostQuantumProtocolName))
	return hs
}

// c19Hello builds a valid ClientHello for kp exactly as Client.beginPQDiscoverableHandshake does.
func c19Hello(kp *keys.KEMKeyPair) (*HandshakeState, []byte) {
	hs := c19ClientHS(kp)
	buf := make([]byte, PQHelloLen)
	n, err := writePQClientHello(hs, buf)
	vMust(err)
	return hs, buf[:n]
}

// c19Exchange sends a hello for kp from addr (injected) and processes the server's ServerHello up to a ClientAck.
func c19Exchange(env *vEnv, addr *net.UDPAddr, kp *keys.KEMKeyPair) (*c19Xchg, error) {
	x := &c19Xchg{addr: addr, kem: kp}
	x.hs, x.hello = c19Hello(kp)
	mark := len(env.Net.SentSnapshot())
	x.keyAt = c19CookieKey(env.Srv)
	env.Net.Inject(addr, vSrvAddr, x.hello)
	c19Settle()
	for _, d := range env.Net.SentSnapshot()[mark:] {
		if c19Same(d.Src, vSrvAddr) && c19Same(d.Dst, addr) && len(d.Data) == c19SHLen && MessageType(d.Data[0]) == MessageTypeServerHello {
			x.sh = d.Data
		}
	}
	if x.sh == nil {
		return nil, fmt.Errorf("no ServerHello for a valid hello from %v", addr)
	}
	var err error
	if x.secret, err = kp.Decapsulate(x.sh[c19SHOffCt : c19SHOffCt+KemCtLen]); err != nil {
		return nil, err
	}
	x.cookie = append([]byte(nil), x.sh[c19SHOffCookie:c19SHOffCookie+PQCookieLen]...)
	if n, err := readPQServerHello(x.hs, x.sh); err != nil || n != len(x.sh) {
		return nil, fmt.Errorf("ServerHello not accepted by readPQServerHello: %v", err)
	}
	x.hs.RekeyFromSqueeze(PostQuantumProtocolName)
	buf := make([]byte, c19AckLen)
	n, err := x.hs.writePQClientAck(buf)
	if err != nil {
		return nil, err
	}
	x.ack = buf[:n]
	return x, nil
}

// c19ForgeAck builds the ClientAck of a client that claims KEM key kp and presents (cookie, secret): the transcript
// is the one the server replays from the cookie, so the MAC verifies whenever the cookie opens to secret.
func c19ForgeAck(kp *keys.KEMKeyPair, secret, cookie []byte) []byte {
	hs, _ := c19Hello(kp)
	hs.duplex.Absorb([]byte{byte(MessageTypeServerHello), 0, 0, 0})
	hs.duplex.Absorb(secret)
	hs.cookie = append([]byte(nil), cookie...)
	hs.duplex.Absorb(hs.cookie)
	hs.duplex.Squeeze(hs.macBuf[:])
	hs.RekeyFromSqueeze(PostQuantumProtocolName)
	buf := make([]byte, c19AckLen)
	n, err := hs.writePQClientAck(buf)
	vMust(err)
	return buf[:n]
}

// ---------------------------------------------------------------------------
// several-certificate hidden server (closures modelled on hopserver.NewHopServer)

type c19HiddenWorld struct {
	list  []*Certificate
	kems  []*keys.KEMKeyPair
	names []certs.Name
}

var (
	c19HWOnce sync.Once
	c19HW     *c19HiddenWorld
)

func c19GetHiddenWorld() *c19HiddenWorld {
	c19HWOnce.Do(func() {
		w := vGetWorld()
		hw := &c19HiddenWorld{}
		add := func(name string, kp *keys.X25519KeyPair, leaf *certs.Certificate, kem *keys.KEMKeyPair) {
			c, err := MakeCert(kp, leaf, w.Inter, kem)
			vMust(err)
			c.HostNames = []string{name}
			hw.list = append(hw.list, c)
			hw.kems = append(hw.kems, kem)
			hw.names = append(hw.names, certs.RawStringName(name))
		}
		add("server.verif.test", w.SrvKey, w.SrvLeaf, w.SrvKEM)
		for i := 2; i <= 3; i++ {
			name := fmt.Sprintf("server%d.verif.test", i)
			kp, leaf := vLeaf(w.Inter, name)
			add(name, kp, leaf, c19NewKEM())
		}
		c19HW = hw
	})
	return c19HW
}

func c19HiddenServerConfig(ncerts int) ServerConfig {
	w := vGetWorld()
	cfg := w.ServerConfig(true)
	if ncerts <= 1 {
		return cfg
	}
	hw := c19GetHiddenWorld()
	list := hw.list[:ncerts]
	cfg.KeyPair, cfg.KEMKeyPair, cfg.Certificate, cfg.Intermediate = nil, nil, nil, nil
	cfg.GetCertificate = func(info ClientHandshakeInfo) (*Certificate, error) {
		for _, c := range list {
			for _, h := range c.HostNames {
				if h == string(info.ServerName.Label) {
					return c, nil
				}
			}
		}
		return nil, fmt.Errorf("%v did not match a host block", info.ServerName)
	}
	cfg.GetCertList = func() ([]*Certificate, error) { return list, nil }
	return cfg
}

func c19HiddenClientConfig(target int, second bool) ClientConfig {
	cc := vGetWorld().ClientConfig(true, second)
	hw := c19GetHiddenWorld()
	pk := hw.kems[target].Public
	cc.ServerKEMKey = &pk
	cc.Verify.Name = hw.names[target]
	return cc
}


var _ = rapid.Bool
var _ *testing.T
