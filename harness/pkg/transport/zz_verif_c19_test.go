//go:build go1.25

package transport

// C19 — a discoverable server keeps no per-client state for a client hello and accepts a client
// acknowledgement only with a cookie it minted under its current cookie key for that source address
// and client ephemeral key; a hidden-mode server sends no datagram at all except in answer to a
// fresh, well-formed hidden request made with (one of) its KEM public key(s).
//
//	(a) TestVerifC19Stateless             floods of client hellos; white-box footprint of the server unchanged
//	(b) TestVerifC19CookieSweep / Random  ONE client acknowledgement presented per case; ServerAuth + handshake entry only
//	                                      for (A, K, intact cookie, current key)
//	(c) TestVerifC19HiddenSweep / Random  ONE probe class per case against a hidden server; every datagram that leaves the
//	                                      server's address is attributed to the probe that preceded it

import (
	"crypto/rand"
	"encoding/binary"
	"fmt"
	"math/bits"
	"net"
	"reflect"
	"runtime"
	"sort"
	"strings"
	"sync"
	"sync/atomic"
	"testing"
	"time"

	"pgregory.net/rapid"

	"hop.computer/hop/certs"
	"hop.computer/hop/keys"
	"verif.local/vlib"
	"verif.local/vlib/simnet"
)

// ---------------------------------------------------------------------------
// wire layout (from transport/common.go and writePQClientAck / writePQServerHello)

const (
	c19AckOffDH     = HeaderLen
	c19AckOffKEM    = c19AckOffDH + DHLen
	c19AckOffCookie = c19AckOffKEM + KemKeyLen
	c19AckOffSNI    = c19AckOffCookie + PQCookieLen
	c19AckOffMAC    = c19AckOffSNI + SNILen
	c19AckLen       = c19AckOffMAC + MacLen

	c19SHOffCt     = HeaderLen
	c19SHOffCookie = c19SHOffCt + KemCtLen
	c19SHLen       = c19SHOffCookie + PQCookieLen + MacLen

	// known-open process-killing findings whose trigger shapes are excluded by construction while they are listed open
	c19SigHiddenMulti = "panic:transport.(*Server).readPQClientRequestHidden:slice-bounds"
	c19SigMakeslice   = "panic:transport.(*Server).handleSessionMessage:makeslice"
)

var (
	c19AddrSamePort  = simnet.Addr("10.0.0.77", 40000) // other IP, port of vCliAddr
	c19AddrSameIP    = simnet.Addr("10.0.0.2", 40007)  // IP of vCliAddr, other port
	c19AddrLiveness  = simnet.Addr("10.0.0.9", 41000)
	c19AddrOtherXchg = simnet.Addr("10.0.0.44", 40444)
)

// c19Open: the trigger shapes of a process-killing finding are excluded by construction while it is listed open
// (never in replay mode: the stored case must keep reproducing it).
func c19Open(sig string) bool { return vlib.GetEnv().Replay == "" && vlib.KnownOpen(sig) }

func c19Same(a, b *net.UDPAddr) bool { return a != nil && b != nil && a.String() == b.String() }

func c19Settle() { time.Sleep(5 * time.Millisecond) }

// c19Watch attributes the datagrams that leave the server's address to the step that preceded them.
type c19Watch struct {
	n    *simnet.Net
	mark int
}

func c19NewWatch(n *simnet.Net) *c19Watch { return &c19Watch{n: n, mark: len(n.SentSnapshot())} }

// delta returns the datagrams handed to the network by the server's socket since the previous call.
func (w *c19Watch) delta() []simnet.Datagram {
	all := w.n.SentSnapshot()
	var out []simnet.Datagram
	for _, d := range all[w.mark:] {
		if c19Same(d.Src, vSrvAddr) {
			out = append(out, d)
		}
	}
	w.mark = len(all)
	return out
}

func c19Describe(ds []simnet.Datagram) string {
	var sb strings.Builder
	for i, d := range ds {
		if i == 4 {
			sb.WriteString(" ...")
			break
		}
		t := -1
		if len(d.Data) > 0 {
			t = int(d.Data[0])
		}
		fmt.Fprintf(&sb, " [type %#x len %d to %v]", t, len(d.Data), d.Dst)
	}
	return sb.String()
}

// c19Footprint returns the length of every map, slice and channel owned by the server (white-box).
func c19Footprint(s *Server) map[string]int {
	out := map[string]int{}
	s.m.RLock()
	defer s.m.RUnlock()
	v := reflect.ValueOf(s).Elem()
	for i := 0; i < v.NumField(); i++ {
		f := v.Field(i)
		switch f.Kind() {
		case reflect.Map, reflect.Slice, reflect.Chan:
			out[v.Type().Field(i).Name] = f.Len()
		}
	}
	out["handshakes"] = len(s.handshakes)
	out["sessions"] = len(s.sessions)
	return out
}

func c19FootprintDiff(a, b map[string]int) (field string, from, to int) {
	var names []string
	for k := range b {
		names = append(names, k)
	}
	sort.Strings(names)
	for _, k := range names {
		if a[k] != b[k] {
			return k, a[k], b[k]
		}
	}
	return "", 0, 0
}

func c19CookieKey(s *Server) [KeyLen]byte {
	s.cookieLock.Lock()
	defer s.cookieLock.Unlock()
	return s.cookieKey
}

// c19Handshake runs cli.Handshake with a virtual watchdog (a hidden client never times out against a silent peer).
func c19Handshake(cli *Client, patience time.Duration) error {
	done := make(chan error, 1)
	go func() { done <- cli.Handshake() }()
	select {
	case err := <-done:
		return err
	case <-time.After(patience):
		cli.Close()
		if err := <-done; err != nil {
			return err
		}
		return fmt.Errorf("handshake needed Close to return")
	}
}

// c19BubbleVerdict turns the way a bubble ended into a verdict; true = scenario verdict can be used.
func c19BubbleVerdict(res vlib.BubbleResult, v *vlib.Verdict) bool {
	if res.Hung {
		v.Inconclusive = "bubble hung in real time (C19)"
		return false
	}
	if res.Panic != "" {
		if res.Leak() || res.Deadlock() {
			fr := fmt.Sprint(vlib.BlockedHopFrames(res.Stacks))
			v.Failf("C19:goroutines-left:"+fr, "after closing clients and server goroutines remain: %s", fr)
		} else {
			v.Failf(vlib.PanicSig(res.Panic, res.Stacks), "panic: %s", res.Panic)
		}
		return false
	}
	return true
}

// ---------------------------------------------------------------------------
// harness-driven client side of the discoverable exchange (the real message functions, no socket)

type c19Xchg struct {
	addr   *net.UDPAddr
	kem    *keys.KEMKeyPair
	hs     *HandshakeState
	hello  []byte
	sh     []byte
	secret []byte // KEM shared secret of the ServerHello
	cookie []byte
	ack    []byte
	keyAt  [KeyLen]byte // server cookie key when the cookie was minted (white-box)
}

func c19NewKEM() *keys.KEMKeyPair {
	kp, err := keys.GenerateKEMKeyPair(rand.Reader)
	vMust(err)
	return kp
}

func c19ClientHS(kp *keys.KEMKeyPair) *HandshakeState {
	hs := new(HandshakeState)
	hs.duplex.InitializeEmpty()
	hs.dh = new(dhState)
	hs.dh.ephemeral.Generate()
	hs.kem = new(kemState)
	hs.kem.ephemeral = *kp
	hs.certVerify = &VerifyConfig{Name: vGetWorld().ServerName}
	hs.duplex.Absorb([]byte(PostQuantumProtocolName))
	return hs
}

// c19Hello builds a valid ClientHello for kp exactly as Client.beginPQDiscoverableHandshake does.
func c19Hello(kp *keys.KEMKeyPair) (*HandshakeState, []byte) {
	hs := c19ClientHS(kp)
	buf := make([]byte, PQHelloLen)
	n, err := writePQClientHello(hs, buf)
	vMust(err)
	return hs, buf[:n]
}

// c19Exchange sends a hello for kp from addr (injected) and processes the server's ServerHello up to a ClientAck.
func c19Exchange(env *vEnv, addr *net.UDPAddr, kp *keys.KEMKeyPair) (*c19Xchg, error) {
	x := &c19Xchg{addr: addr, kem: kp}
	x.hs, x.hello = c19Hello(kp)
	mark := len(env.Net.SentSnapshot())
	x.keyAt = c19CookieKey(env.Srv)
	env.Net.Inject(addr, vSrvAddr, x.hello)
	c19Settle()
	for _, d := range env.Net.SentSnapshot()[mark:] {
		if c19Same(d.Src, vSrvAddr) && c19Same(d.Dst, addr) && len(d.Data) == c19SHLen && MessageType(d.Data[0]) == MessageTypeServerHello {
			x.sh = d.Data
		}
	}
	if x.sh == nil {
		return nil, fmt.Errorf("no ServerHello for a valid hello from %v", addr)
	}
	var err error
	if x.secret, err = kp.Decapsulate(x.sh[c19SHOffCt : c19SHOffCt+KemCtLen]); err != nil {
		return nil, err
	}
	x.cookie = append([]byte(nil), x.sh[c19SHOffCookie:c19SHOffCookie+PQCookieLen]...)
	if n, err := readPQServerHello(x.hs, x.sh); err != nil || n != len(x.sh) {
		return nil, fmt.Errorf("ServerHello not accepted by readPQServerHello: %v", err)
	}
	x.hs.RekeyFromSqueeze(PostQuantumProtocolName)
	buf := make([]byte, c19AckLen)
	n, err := x.hs.writePQClientAck(buf)
	if err != nil {
		return nil, err
	}
	x.ack = buf[:n]
	return x, nil
}

// c19ForgeAck builds the ClientAck of a client that claims KEM key kp and presents (cookie, secret): the transcript
// is the one the server replays from the cookie, so the MAC verifies whenever the cookie opens to secret.
func c19ForgeAck(kp *keys.KEMKeyPair, secret, cookie []byte) []byte {
	hs, _ := c19Hello(kp)
	hs.duplex.Absorb([]byte{byte(MessageTypeServerHello), 0, 0, 0})
	hs.duplex.Absorb(secret)
	hs.cookie = append([]byte(nil), cookie...)
	hs.duplex.Absorb(hs.cookie)
	hs.duplex.Squeeze(hs.macBuf[:])
	hs.RekeyFromSqueeze(PostQuantumProtocolName)
	buf := make([]byte, c19AckLen)
	n, err := hs.writePQClientAck(buf)
	vMust(err)
	return buf[:n]
}

// ---------------------------------------------------------------------------
// several-certificate hidden server (closures modelled on hopserver.NewHopServer)

type c19HiddenWorld struct {
	list  []*Certificate
	kems  []*keys.KEMKeyPair
	names []certs.Name
}

var (
	c19HWOnce sync.Once
	c19HW     *c19HiddenWorld
)

func c19GetHiddenWorld() *c19HiddenWorld {
	c19HWOnce.Do(func() {
		w := vGetWorld()
		hw := &c19HiddenWorld{}
		add := func(name string, kp *keys.X25519KeyPair, leaf *certs.Certificate, kem *keys.KEMKeyPair) {
			c, err := MakeCert(kp, leaf, w.Inter, kem)
			vMust(err)
			c.HostNames = []string{name}
			hw.list = append(hw.list, c)
			hw.kems = append(hw.kems, kem)
			hw.names = append(hw.names, certs.RawStringName(name))
		}
		add("server.verif.test", w.SrvKey, w.SrvLeaf, w.SrvKEM)
		for i := 2; i <= 3; i++ {
			name := fmt.Sprintf("server%d.verif.test", i)
			kp, leaf := vLeaf(w.Inter, name)
			add(name, kp, leaf, c19NewKEM())
		}
		c19HW = hw
	})
	return c19HW
}

func c19HiddenServerConfig(ncerts int) ServerConfig {
	w := vGetWorld()
	cfg := w.ServerConfig(true)
	if ncerts <= 1 {
		return cfg
	}
	hw := c19GetHiddenWorld()
	list := hw.list[:ncerts]
	cfg.KeyPair, cfg.KEMKeyPair, cfg.Certificate, cfg.Intermediate = nil, nil, nil, nil
	cfg.GetCertificate = func(info ClientHandshakeInfo) (*Certificate, error) {
		for _, c := range list {
			for _, h := range c.HostNames {
				if h == string(info.ServerName.Label) {
					return c, nil
				}
			}
		}
		return nil, fmt.Errorf("%v did not match a host block", info.ServerName)
	}
	cfg.GetCertList = func() ([]*Certificate, error) { return list, nil }
	return cfg
}

func c19HiddenClientConfig(target int, second bool) ClientConfig {
	cc := vGetWorld().ClientConfig(true, second)
	hw := c19GetHiddenWorld()
	pk := hw.kems[target].Public
	cc.ServerKEMKey = &pk
	cc.Verify.Name = hw.names[target]
	return cc
}

// ---------------------------------------------------------------------------
// (a) statelessness under client hellos

type c19FloodCase struct {
	N     int    `json:"n"`     // client hellos presented (1..2000)
	Addrs int    `json:"addrs"` // distinct source addresses (1..500)
	Real  int    `json:"real"`  // hellos sent by real Clients whose handshake is stalled (their ServerHello is dropped)
	Live  bool   `json:"live"`  // an established session exists before the flood (the tables start non-empty)
	Mix   [3]int `json:"mix"`   // weights of fresh valid / replayed / corrupt hellos among the injected ones
	Seed  uint64 `json:"seed"`  // tape of the per-hello choices (address, replay source, corruption)
}

// 500 addresses = 125 IPs x 4 ports, so that IP-only and port-only differences both occur
func c19FloodAddr(i int) *net.UDPAddr {
	return &net.UDPAddr{IP: net.ParseIP(fmt.Sprintf("10.1.%d.%d", (i/4)/200, (i/4)%200+1)), Port: 20000 + 1000*(i%4) + i/4}
}

func c19Bucket(n int) string {
	switch {
	case n <= 1:
		return "1"
	case n < 10:
		return "2-9"
	case n < 100:
		return "10-99"
	case n < 1000:
		return "100-999"
	}
	return "1000+"
}

func c19Flood(c c19FloodCase, v *vlib.Verdict) (mach string) {
	w := vGetWorld()
	env := vStartServer(w.ServerConfig(false))
	defer env.Stop()
	env.Net.Filter = func(d simnet.Datagram) []simnet.Datagram {
		// the handshake of every flood client stalls: its ServerHello never arrives (the live client is left alone)
		if c19Same(d.Src, vSrvAddr) && len(d.Data) > 0 && MessageType(d.Data[0]) == MessageTypeServerHello && !c19Same(d.Dst, vCli2Addr) {
			return nil
		}
		return []simnet.Datagram{d}
	}
	var clients []*Client
	defer func() {
		for _, cl := range clients {
			cl.Close()
		}
	}()
	if c.Live {
		lc, _ := env.NewClient(vCli2Addr, w.ClientConfig(false, true))
		clients = append(clients, lc)
		if err := c19Handshake(lc, 10*time.Second); err != nil {
			return "honest discoverable handshake failed: " + err.Error()
		}
		if _, err := env.Srv.AcceptTimeout(time.Second); err != nil {
			return "honest discoverable handshake not offered by Accept: " + err.Error()
		}
	}
	c19Settle()
	before := c19Footprint(env.Srv)
	watch := c19NewWatch(env.Net)
	check := func(sofar int) bool {
		c19Settle()
		after := c19Footprint(env.Srv)
		if f, a, b := c19FootprintDiff(before, after); f != "" {
			v.Failf("C19:state-created-on-hello:"+f, "server-owned %q went from %d to %d entries after %d client hellos (no client acknowledgement was ever sent)", f, a, b, sofar)
			return false
		}
		return true
	}
	nReal := c.Real
	if nReal > c.Addrs {
		nReal = c.Addrs
	}
	if nReal > c.N {
		nReal = c.N
	}
	var dones []chan error
	type sent struct {
		data []byte
		addr *net.UDPAddr
	}
	var valids []sent
	want := 0
	kinds := map[string]int{}
	tape := vlib.Fill(c.Seed, 8*c.N)
	wsum := c.Mix[0] + c.Mix[1] + c.Mix[2]
	for i := 0; i < c.N; i++ {
		tp := tape[8*i : 8*i+8]
		if i < nReal {
			cl, _ := env.NewClient(c19FloodAddr(i), w.ClientConfig(false, i%2 == 1))
			clients = append(clients, cl)
			ch := make(chan error, 1)
			dones = append(dones, ch)
			go func() { ch <- cl.Handshake() }()
			want++
			kinds["real-client"]++
			continue
		}
		addr := c19FloodAddr((int(tp[0])<<8 | int(tp[1])) % c.Addrs)
		kind := 0
		if wsum > 0 {
			r := int(tp[2]) % wsum
			switch {
			case r < c.Mix[0]:
				kind = 0
			case r < c.Mix[0]+c.Mix[1]:
				kind = 1
			default:
				kind = 2
			}
		}
		if len(valids) == 0 {
			kind = 0
		}
		pick := func() sent { return valids[(int(tp[3])<<8|int(tp[4]))%len(valids)] }
		switch kind {
		case 0:
			_, h := c19Hello(c19NewKEM())
			valids = append(valids, sent{h, addr})
			env.Net.Inject(addr, vSrvAddr, h)
			want++
			kinds["fresh-valid"]++
		case 1:
			s := pick()
			a := s.addr
			if tp[5]&1 == 1 {
				a = addr
				kinds["replay-other-address"]++
			} else {
				kinds["replay-same-address"]++
			}
			env.Net.Inject(a, vSrvAddr, s.data)
			want++
		case 2:
			b := append([]byte(nil), pick().data...)
			off := (int(tp[6])<<8 | int(tp[7])) % len(b)
			switch tp[5] % 4 {
			case 0:
				b[off] ^= tp[2] | 1
				kinds["corrupt-xor"]++
			case 1:
				b[off%HeaderLen] ^= tp[2] | 1
				kinds["corrupt-header"]++
			case 2:
				b = b[:off]
				kinds["corrupt-truncated"]++
			case 3:
				b = append(b, vlib.Fill(c.Seed+uint64(i), 1+off%32)...)
				kinds["corrupt-extended"]++
			}
			env.Net.Inject(addr, vSrvAddr, b)
		}
		if i%128 == 127 && !check(i+1) {
			return ""
		}
	}
	if !check(c.N) {
		return ""
	}
	if h, err := env.Srv.AcceptTimeout(50 * time.Millisecond); err == nil && h != nil {
		v.Failf("C19:connection-offered-on-hello", "Accept returned a connection although only client hellos were sent")
		return ""
	}
	replies := 0
	for _, d := range watch.delta() {
		if len(d.Data) > 0 && MessageType(d.Data[0]) == MessageTypeServerHello {
			replies++
		}
	}
	for _, ch := range dones {
		<-ch // stalled real clients give up after HSTimeout
	}
	if !check(c.N) {
		return ""
	}
	v.Label("hellos:" + c19Bucket(c.N))
	v.Label("addresses:" + c19Bucket(c.Addrs))
	for k := range kinds {
		v.Label("with:" + k)
	}
	if c.Live {
		v.Label("tables-non-empty-before")
	}
	if replies != want {
		v.Labelf("server-hello-count-differs-from-valid-hellos")
		v.Note = fmt.Sprintf("%d ServerHello for %d valid hellos", replies, want)
	}
	v.NonTrivial = replies > 0
	return ""
}

func c19FloodGen(t *rapid.T) c19FloodCase {
	c := c19FloodCase{}
	switch rapid.IntRange(0, 9).Draw(t, "size") {
	case 0:
		c.N = rapid.IntRange(500, 2000).Draw(t, "n")
	case 1, 2:
		c.N = rapid.IntRange(100, 499).Draw(t, "n")
	case 3:
		c.N = rapid.IntRange(1, 3).Draw(t, "n")
	default:
		c.N = rapid.IntRange(4, 99).Draw(t, "n")
	}
	c.Addrs = rapid.IntRange(1, 500).Draw(t, "addrs")
	if rapid.IntRange(0, 3).Draw(t, "fewAddrs") == 0 {
		c.Addrs = rapid.IntRange(1, 4).Draw(t, "addrsFew")
	}
	c.Real = rapid.IntRange(0, 3).Draw(t, "real")
	c.Live = rapid.Bool().Draw(t, "live")
	c.Mix = [3]int{rapid.IntRange(1, 6).Draw(t, "wFresh"), rapid.IntRange(0, 6).Draw(t, "wReplay"), rapid.IntRange(0, 6).Draw(t, "wCorrupt")}
	c.Seed = rapid.Uint64().Draw(t, "seed")
	return c
}

func c19FloodRun(t *testing.T) func(c c19FloodCase, v *vlib.Verdict) {
	return func(c c19FloodCase, v *vlib.Verdict) {
		if c.N < 1 || c.Addrs < 1 {
			v.Discard = true
			return
		}
		var mach string
		res := vlib.Bubble(t, 120*time.Second, func() { mach = c19Flood(c, v) })
		if !c19BubbleVerdict(res, v) {
			return
		}
		if mach != "" {
			t.Errorf("VERIF-MACHINERY C19 flood: %s", mach)
		}
	}
}

func TestVerifC19Stateless(t *testing.T) {
	vlib.Drive(t, vlib.Spec[c19FloodCase]{ID: "C19", Quick: 400, Gen: c19FloodGen, Run: c19FloodRun(t)})
}

// ---------------------------------------------------------------------------
// (b) cookie binding: one client acknowledgement presented per case

type c19CookieCase struct {
	Real   bool `json:"real"`   // base exchange (A, K) by a real Client whose ClientAck is captured in flight (alterations are byte replacements); otherwise harness-driven with the real message functions (alterations keep the MAC consistent)
	From   int  `json:"from"`   // presentation source: 0 A, 1 same IP other port, 2 other IP same port, 3 other IP other port
	Key    int  `json:"key"`    // 0 K; 1 KEM field replaced by another valid public key, MAC untouched; 2 other key, MAC recomputed from K's shared secret (harness-driven base only)
	Cookie int  `json:"cookie"` // 0 intact; 1 xor Mask at cookie byte Off; 2 cookie of another exchange (other address, other key); 3 cookie of another exchange from A under another key; 4 cookie minted for K at another address (harness-driven base only)
	Off    int  `json:"off"`
	Mask   int  `json:"mask"`
	DelayS int  `json:"delayS"`          // virtual seconds between the ServerHello and the presentation (the cookie key rotates every 120 s)
	Forge  bool `json:"forge,omitempty"` // harness-driven base: build even an unaltered acknowledgement with the forging helper (self-test of the helper)
	Fam    int  `json:"fam,omitempty"`   // address family of every address in the case: 0 IPv4-mapped 16-byte, 1 IPv4 4-byte, 2 IPv6
	AgeS   int  `json:"ageS,omitempty"`  // virtual seconds the server has been serving when the base exchange is made (the cookie is minted in the server's (AgeS/120)-th key period)
	// Key 3 / 4: the acknowledgement names a key that equals K outside ONE region of its 800-byte encoding: KLen <= 1: the
	// byte at KOff is xored with KMask (a single bit when KMask has one bit set); KLen > 1: the KLen bytes from KOff are
	// rewritten from KSeed (see c19AlterKey). Key 3 overwrites the KEM field and leaves the MAC alone; Key 4
	// (harness-driven base only) recomputes transcript and MACs for the altered key from K's shared secret.
	KOff  int    `json:"kOff,omitempty"`
	KMask int    `json:"kMask,omitempty"`
	KLen  int    `json:"kLen,omitempty"`
	KSeed uint64 `json:"kSeed,omitempty"`
	// client-hello traffic and socket-send durations around the rotation instants between minting and presentation
	Busy []c19Busy `json:"busy,omitempty"`
}

// c19Busy: what the server is doing around ONE rotation instant that lies between the minting of the cookie and its
// presentation. The server answers a client hello with the cookie key locked, socket write included.
type c19Busy struct {
	Rot    int `json:"rot"`             // which rotation instant after the minting: 1 the first, 2 the second, ...
	LeadMs int `json:"leadMs"`          // > 0: a valid client hello from another address arrives this long before the instant ...
	SendMs int `json:"sendMs"`          // ... and the socket send of its ServerHello takes this long (>= LeadMs: the send is in progress at the instant)
	Burst  int `json:"burst,omitempty"` // further valid hellos, from distinct addresses, delivered at the instant itself (ordinary sends)
}

var c19FromAddrs = []*net.UDPAddr{vCliAddr, c19AddrSameIP, c19AddrSamePort, vEvilAddr}

func init() {
	vFamilyHooks = append(vFamilyHooks, func() {
		c19AddrSamePort = simnet.Addr("10.0.0.77", 40000)
		c19AddrSameIP = simnet.Addr("10.0.0.2", 40007)
		c19AddrLiveness = simnet.Addr("10.0.0.9", 41000)
		c19AddrOtherXchg = simnet.Addr("10.0.0.44", 40444)
		c19FromAddrs = []*net.UDPAddr{vCliAddr, c19AddrSameIP, c19AddrSamePort, vEvilAddr}
	})
}

type c19CookieOut struct {
	mach         string
	serverAuth   bool
	emitted      string
	entry        bool // a handshake entry for the source exists after the presentation
	entryCreated bool // ... and did not exist before it
	grewField    string
	grewFrom     int
	grewTo       int
	rotated      bool     // white-box: the cookie key differs from the one in use when the cookie was minted
	due          bool     // by the clock: a rotation instant (every c19RotationPeriod since Serve started) lies between minting and presentation
	dueClear     bool     // ... and neither minting nor presentation is within a second of a rotation instant
	keyNote      string   // Key 3 / 4: where the named key differs from K and whether it is a well-formed encapsulation key
	busy         []string // what happened around the rotation instants (labels)
}

// c19RotationPeriod: "K_r is a key that is rotated every N minutes" (handshake_spec.md, Server Hello Construction); N = 2 in
// transport/server.go (Serve). The harness has always stated this period in its assumptions; it now also judges by it.
const c19RotationPeriod = 2 * time.Minute

// c19RotationDue reports whether a rotation instant k*period (k >= 1, counted from the start of Serve) lies between the
// interval in which the cookie was minted and the presentation; clear is false when one of them is within a second of
// such an instant (then only the white-box comparison of the key is used).
func c19RotationDue(mintFrom, mintTo, present time.Duration) (due, clear bool) {
	const margin = time.Second
	near := func(d time.Duration) bool {
		if d < c19RotationPeriod-margin {
			return false // the start of Serve is not a rotation
		}
		r := d % c19RotationPeriod
		return r < margin || r > c19RotationPeriod-margin
	}
	clear = !near(mintFrom) && !near(mintTo) && !near(present) && mintFrom/c19RotationPeriod == mintTo/c19RotationPeriod
	return present/c19RotationPeriod > mintTo/c19RotationPeriod, clear
}

func c19Cookie(c c19CookieCase) (out c19CookieOut) {
	w := vGetWorld()
	env := vStartServer(w.ServerConfig(false))
	defer env.Stop()
	var mu sync.Mutex
	acks := map[string][]byte{} // ClientAck of real clients, by source address
	env.Net.Filter = func(d simnet.Datagram) []simnet.Datagram {
		if len(d.Data) == 0 {
			return []simnet.Datagram{d}
		}
		switch MessageType(d.Data[0]) {
		case MessageTypeClientAck:
			// captured instead of delivered
			mu.Lock()
			acks[d.Src.String()] = append([]byte(nil), d.Data...)
			mu.Unlock()
			return nil
		case MessageTypeServerAuth:
			// nobody continues a handshake in this scenario: entries made by an accepted acknowledgement stay observable
			return nil
		}
		return []simnet.Datagram{d}
	}
	var clients []*Client
	defer func() {
		for _, cl := range clients {
			cl.Close()
		}
	}()
	realAck := func(addr *net.UDPAddr, second bool) []byte {
		mu.Lock()
		delete(acks, addr.String())
		mu.Unlock()
		cl, _ := env.NewClient(addr, w.ClientConfig(false, second))
		clients = append(clients, cl)
		go cl.Handshake() // stalls after the acknowledgement, gives up after HSTimeout
		for i := 0; i < 50; i++ {
			time.Sleep(time.Millisecond)
			mu.Lock()
			a := acks[addr.String()]
			mu.Unlock()
			if a != nil {
				return a
			}
		}
		return nil
	}
	served := time.Now() // Serve starts its rotation ticker at this virtual instant (nothing has slept yet)
	time.Sleep(time.Duration(c.AgeS) * time.Second)
	keyAt := c19CookieKey(env.Srv)
	mintFrom := time.Since(served)
	var ack []byte
	if c.Real {
		base := realAck(vCliAddr, false)
		if base == nil || len(base) != c19AckLen {
			out.mach = "real client did not produce a ClientAck"
			return
		}
		ack = append([]byte(nil), base...)
		var other []byte
		switch c.Cookie {
		case 2:
			other = realAck(vCli2Addr, true)
		case 3:
			clients[0].Close()
			other = realAck(vCliAddr, true)
		case 4:
			out.mach = "cookie variant 4 needs a harness-driven base exchange"
			return
		}
		if c.Cookie >= 2 {
			if other == nil {
				out.mach = "second real client did not produce a ClientAck"
				return
			}
			copy(ack[c19AckOffCookie:c19AckOffSNI], other[c19AckOffCookie:c19AckOffSNI])
		}
		switch c.Key {
		case 1:
			pk, _ := c19NewKEM().Public.MarshalBinary()
			copy(ack[c19AckOffKEM:c19AckOffCookie], pk)
		case 2, 4:
			out.mach = "key variants 2 and 4 need a harness-driven base exchange"
			return
		case 3:
			alt := c19AlterKey(ack[c19AckOffKEM:c19AckOffCookie], c)
			out.keyNote = c19KeyRegion(c)
			if _, perr := keys.ParseKEMPublicKeyFromBytes(alt); perr != nil {
				out.keyNote += ":not-a-well-formed-key"
			}
			copy(ack[c19AckOffKEM:c19AckOffCookie], alt)
		}
	} else {
		kp := c19NewKEM()
		x, err := c19Exchange(env, vCliAddr, kp)
		if err != nil {
			out.mach = err.Error()
			return
		}
		cookie, secret := x.cookie, x.secret
		var ox *c19Xchg
		switch c.Cookie {
		case 2:
			ox, err = c19Exchange(env, c19AddrOtherXchg, c19NewKEM())
		case 3:
			ox, err = c19Exchange(env, vCliAddr, c19NewKEM())
		case 4:
			ox, err = c19Exchange(env, c19AddrOtherXchg, kp)
		}
		if err != nil {
			out.mach = err.Error()
			return
		}
		if ox != nil {
			cookie, secret = ox.cookie, ox.secret
		}
		if c.Cookie == 1 {
			// altered cookie under a MAC that is consistent with it: only the cookie's own integrity is in the way
			cookie = append([]byte(nil), cookie...)
			cookie[c.Off%PQCookieLen] ^= byte(c.Mask)
		}
		ackKey := kp
		consistent := false // transcript and MACs are computed for another key than K
		var field []byte    // bytes that overwrite the KEM field of the finished acknowledgement (MAC untouched)
		switch c.Key {
		case 1:
			field, _ = c19NewKEM().Public.MarshalBinary()
		case 2:
			ackKey, consistent = c19NewKEM(), true
		case 3, 4:
			raw, _ := kp.Public.MarshalBinary()
			alt := c19AlterKey(raw, c)
			out.keyNote = c19KeyRegion(c)
			if d0, d1 := c19FirstLastDiff(raw, alt); d0 < 0 || d0 < c.KOff || d1 >= c.KOff+max(c.KLen, 1) {
				out.mach = fmt.Sprintf("altered key differs from K in bytes %d..%d, wanted a difference inside %d..%d", d0, d1, c.KOff, c.KOff+max(c.KLen, 1)-1)
				return
			}
			pk, perr := keys.ParseKEMPublicKeyFromBytes(alt)
			if perr != nil {
				out.keyNote += ":not-a-well-formed-key"
			}
			if c.Key == 4 && perr == nil {
				ackKey, consistent = &keys.KEMKeyPair{Public: *pk}, true
			} else {
				field = alt // (a key the parser refuses cannot be given a transcript: its bytes replace the field)
			}
		}
		if !consistent && c.Cookie == 0 && !c.Forge {
			ack = append([]byte(nil), x.ack...) // the acknowledgement the real client code wrote
		} else {
			ack = c19ForgeAck(ackKey, secret, cookie)
		}
		if field != nil {
			copy(ack[c19AckOffKEM:c19AckOffCookie], field)
		}
		if c.Key == 4 && consistent {
			want, _ := ackKey.Public.MarshalBinary()
			kraw, _ := kp.Public.MarshalBinary()
			if string(ack[c19AckOffKEM:c19AckOffCookie]) != string(want) || string(want) == string(kraw) {
				out.mach = "the acknowledgement forged for the altered key does not carry the altered key"
				return
			}
		}
	}
	if c.Cookie == 1 && c.Real {
		ack[c19AckOffCookie+c.Off%PQCookieLen] ^= byte(c.Mask)
	}
	mintTo := time.Since(served)
	present := time.Now().Add(time.Duration(c.DelayS) * time.Second)
	out.busy = c19BusyTraffic(env, c.Busy, served, mintTo, present)
	time.Sleep(time.Until(present))
	out.rotated = c19CookieKey(env.Srv) != keyAt
	out.due, out.dueClear = c19RotationDue(mintFrom, mintTo, time.Since(served))
	src := c19FromAddrs[c.From]
	before := c19Footprint(env.Srv)
	entryBefore := env.Srv.fetchHandshakeState(src)
	watch := c19NewWatch(env.Net)
	env.Net.Inject(src, vSrvAddr, ack)
	c19Settle()
	sent := watch.delta()
	for _, d := range sent {
		if len(d.Data) > 0 && MessageType(d.Data[0]) == MessageTypeServerAuth {
			out.serverAuth = true
		}
	}
	out.emitted = c19Describe(sent)
	out.entry = env.Srv.fetchHandshakeState(src) != nil
	out.entryCreated = out.entry && entryBefore == nil // by this presentation
	out.grewField, out.grewFrom, out.grewTo = c19FootprintDiff(before, c19Footprint(env.Srv))
	return
}

// ---- keys that differ from K in one region ----

const (
	c19KemQ       = 3329 // ML-KEM modulus: the first 768 bytes of an encapsulation key are 512 coefficients of 12 bits, each < q
	c19KemTHatLen = 768  // (FIPS 203 encapsulation-key check, made by circl's UnmarshalBinaryPublicKey); the last 32 bytes are a free seed
)

func c19Coeff(b []byte, i int) int {
	p := 3 * (i / 2)
	if i%2 == 0 {
		return int(b[p]) | int(b[p+1]&0x0f)<<8
	}
	return int(b[p+1]>>4) | int(b[p+2])<<4
}

func c19SetCoeff(b []byte, i, v int) {
	p := 3 * (i / 2)
	if i%2 == 0 {
		b[p] = byte(v)
		b[p+1] = b[p+1]&0xf0 | byte(v>>8)&0x0f
	} else {
		b[p+1] = b[p+1]&0x0f | byte(v<<4)
		b[p+2] = byte(v >> 4)
	}
}

// c19AlterKey returns a copy of the 800-byte encoding raw of an ML-KEM-512 encapsulation key that differs from it
// only inside the region the case names. One byte (KLen <= 1): xor with KMask - the result may have a coefficient >= q,
// then the key parser refuses it (labelled). A longer region is rewritten so that the result stays a well-formed key:
// every 12-bit coefficient that lies completely inside the region becomes another value below q, every byte of the
// region that belongs to the trailing seed is xored with a non-zero byte.
func c19AlterKey(raw []byte, c c19CookieCase) []byte {
	out := append([]byte(nil), raw...)
	if c.KLen <= 1 {
		out[c.KOff] ^= byte(c.KMask)
		return out
	}
	end := c.KOff + c.KLen
	fill := vlib.Fill(c.KSeed, 2*c.KLen+2)
	for i := 0; i < c19KemTHatLen*8/12; i++ {
		lo, hi := 12*i/8, (12*i+11)/8
		if lo >= c.KOff && hi < end {
			d := 1 + (int(fill[2*(lo-c.KOff)])<<8|int(fill[2*(lo-c.KOff)+1]))%(c19KemQ-1)
			c19SetCoeff(out, i, (c19Coeff(out, i)%c19KemQ+d)%c19KemQ)
		}
	}
	for p := max(c.KOff, c19KemTHatLen); p < end; p++ {
		out[p] ^= fill[p-c.KOff] | 1
	}
	return out
}

// c19FirstLastDiff returns the first and the last index at which a and b differ (-1, -1: equal).
func c19FirstLastDiff(a, b []byte) (int, int) {
	first, last := -1, -1
	for i := range a {
		if a[i] != b[i] {
			if first < 0 {
				first = i
			}
			last = i
		}
	}
	return first, last
}

func c19KeyRegion(c c19CookieCase) string {
	kind := fmt.Sprintf("%d-bytes", c.KLen)
	if c.KLen <= 1 {
		kind = "one-byte"
		if bits.OnesCount8(uint8(c.KMask)) == 1 {
			kind = "one-bit"
		}
	}
	switch end := c.KOff + max(c.KLen, 1); {
	case end <= c19KemTHatLen:
		return kind + ":inside-the-first-768-bytes"
	case c.KOff >= c19KemTHatLen:
		return kind + ":inside-the-last-32-bytes"
	}
	return kind + ":across-byte-768"
}

// ---- traffic around rotation instants ----

// A goroutine outside every bubble that sleeps in REAL time on request. A send that is in progress at a rotation
// instant cannot be modelled by a virtual sleep across the instant: the rotation goroutine then waits for the cookie
// lock, a goroutine waiting for a sync.Mutex is not durably blocked, and the bubble's clock would never move again.
// Instead the send sleeps virtually up to the instant and then keeps the socket write blocked for c19HoldReal of real
// time (the virtual clock stands still meanwhile): long enough for the rotation goroutine, woken at the same virtual
// instant, to reach the lock. The channels are created here, outside any bubble, so waiting on them is not durable.
var (
	c19RealReq  = make(chan time.Duration)
	c19RealAck  = make(chan struct{})
	c19RealOnce sync.Once
	c19RealOn   atomic.Bool
)

const c19HoldReal = 4 * time.Millisecond

// c19StartRealClock must be called outside a bubble (test function / case runner).
func c19StartRealClock() {
	c19RealOnce.Do(func() {
		go func() {
			for d := range c19RealReq {
				time.Sleep(d)
				c19RealAck <- struct{}{}
			}
		}()
		c19RealOn.Store(true)
	})
}

func c19RealPause(d time.Duration) {
	if !c19RealOn.Load() {
		for i := 0; i < 2000; i++ {
			runtime.Gosched()
		}
		return
	}
	c19RealReq <- d
	<-c19RealAck
}

// c19BusyTraffic plays the hello traffic of the case around the rotation instants that lie between the minting of the
// cookie (mintTo after the start of Serve) and its presentation, and returns labels. It returns before present.
func c19BusyTraffic(env *vEnv, plan []c19Busy, served time.Time, mintTo time.Duration, present time.Time) (labels []string) {
	if len(plan) == 0 {
		return []string{"rotation-instant-traffic:none"}
	}
	plan = append([]c19Busy(nil), plan...)
	sort.SliceStable(plan, func(i, j int) bool { return plan[i].Rot < plan[j].Rot })
	var mu sync.Mutex
	slow := map[string]func(){} // destination -> what the socket send of the next datagram to it does first
	var ran atomic.Int32
	env.SrvSock.SetWriteGate(func(b []byte, dst *net.UDPAddr, closed <-chan struct{}) {
		if dst == nil {
			return
		}
		mu.Lock()
		f := slow[dst.String()]
		delete(slow, dst.String())
		mu.Unlock()
		if f != nil {
			f()
			ran.Add(1)
		}
	})
	defer env.SrvSock.SetWriteGate(nil)
	first := mintTo/c19RotationPeriod + 1 // number of the first rotation instant after the minting
	addrs, lastRot := 0, 0
	next := func() *net.UDPAddr { addrs++; return simnet.Addr("10.0.5.1", 45000+addrs) }
	for _, b := range plan {
		if b.Rot <= lastRot || b.Rot < 1 {
			continue // one plan per instant
		}
		instant := served.Add((first + time.Duration(b.Rot-1)) * c19RotationPeriod)
		if !instant.Before(present.Add(-time.Second)) {
			labels = append(labels, "rotation-instant-traffic:instant-not-before-the-presentation(ignored)")
			continue
		}
		lastRot = b.Rot
		var burst [][]byte
		for i := 0; i < b.Burst; i++ {
			_, h := c19Hello(c19NewKEM())
			burst = append(burst, h)
		}
		if arrive := instant.Add(-time.Duration(b.LeadMs) * time.Millisecond); b.LeadMs > 0 && time.Until(arrive) > 0 {
			_, hello := c19Hello(c19NewKEM())
			time.Sleep(time.Until(arrive))
			addr := next()
			before := ran.Load()
			inProgress := b.SendMs >= b.LeadMs
			mu.Lock()
			slow[addr.String()] = func() {
				if !inProgress {
					time.Sleep(time.Duration(b.SendMs) * time.Millisecond)
					return
				}
				time.Sleep(time.Until(instant)) // the cookie key is locked by the hello handler all the while
				c19RealPause(c19HoldReal)       // ... and still is when the rotation falls due
			}
			mu.Unlock()
			env.Net.Inject(addr, vSrvAddr, hello)
			if len(burst) == 0 {
				time.Sleep(time.Until(instant.Add(100 * time.Millisecond)))
			} else {
				time.Sleep(time.Until(instant))
			}
			switch {
			case len(burst) == 0 && ran.Load() == before:
				labels = append(labels, "rotation-instant-traffic:slow-send-did-not-happen(hello-unanswered)")
			case inProgress:
				labels = append(labels, "rotation-instant-traffic:send-in-progress-at-the-instant")
			default:
				labels = append(labels, "rotation-instant-traffic:slow-send-finished-before-the-instant")
			}
		} else if b.LeadMs > 0 {
			labels = append(labels, "rotation-instant-traffic:hello-would-precede-the-minting(ignored)")
		}
		if len(burst) > 0 {
			time.Sleep(time.Until(instant))
			for _, h := range burst {
				env.Net.Inject(next(), vSrvAddr, h)
			}
			labels = append(labels, "rotation-instant-traffic:hello-burst-at-the-instant")
			time.Sleep(100 * time.Millisecond)
		}
	}
	return labels
}

func c19CookieDiffers(c c19CookieCase, rotated, overdue bool) []string {
	var d []string
	switch c.From {
	case 1:
		d = append(d, "port")
	case 2:
		d = append(d, "ip")
	case 3:
		d = append(d, "ip+port")
	}
	if c.Key != 0 {
		d = append(d, "client-key")
	}
	switch c.Cookie {
	case 1:
		if c.Off%PQCookieLen < PQCookieLen-32 {
			d = append(d, "cookie-ciphertext-byte")
		} else {
			d = append(d, "cookie-tag-byte")
		}
	case 2:
		d = append(d, "cookie-of-other-address-and-key")
	case 3:
		d = append(d, "cookie-of-other-key")
	case 4:
		d = append(d, "cookie-of-other-address")
	}
	switch {
	case rotated:
		d = append(d, "rotated-key")
	case overdue:
		// the key in use when the cookie was minted is no longer the current key by the rotation schedule, although the
		// server still holds it
		d = append(d, "rotation-overdue")
	}
	return d
}

func c19CookieValid(c c19CookieCase) bool {
	if c.From < 0 || c.From >= len(c19FromAddrs) || c.Key < 0 || c.Key > 4 || c.Cookie < 0 || c.Cookie > 4 || c.DelayS < 0 || c.AgeS < 0 {
		return false
	}
	if c.Key >= 3 {
		if c.KOff < 0 || c.KLen < 0 || c.KOff+max(c.KLen, 1) > KemKeyLen || (c.KLen <= 1 && c.KMask&0xff == 0) || (c.KLen > 1 && c.KLen < 4) {
			return false
		}
	}
	for _, b := range c.Busy {
		if b.Rot < 1 || b.LeadMs < 0 || b.LeadMs > 2500 || b.SendMs < 0 || b.Burst < 0 || b.Burst > 64 {
			return false
		}
	}
	if r := c.AgeS % 120; c.AgeS != 0 && (r < 2 || r > 117) {
		return false // minting at a rotation instant: which key sealed the cookie is a race (the start of Serve is no rotation)
	}
	if c.Real && (c.Key == 2 || c.Key == 4 || c.Cookie == 4) {
		return false
	}
	if c.Cookie == 1 && c.Mask&0xff == 0 {
		return false
	}
	return true
}

func c19CookieRun(t *testing.T) func(c c19CookieCase, v *vlib.Verdict) {
	return func(c c19CookieCase, v *vlib.Verdict) {
		if !c19CookieValid(c) {
			v.Discard = true
			return
		}
		var out c19CookieOut
		defer vSetFamily(vSetFamily(c.Fam))
		v.Label("addresses:" + vFamilyNames[c.Fam%3])
		c19StartRealClock()
		res := vlib.Bubble(t, 60*time.Second, func() { out = c19Cookie(c) })
		if !c19BubbleVerdict(res, v) {
			return
		}
		if out.mach != "" {
			t.Errorf("VERIF-MACHINERY C19 cookie: %s (case %+v)", out.mach, c)
			return
		}
		overdue := out.due && out.dueClear && !out.rotated
		differs := c19CookieDiffers(c, out.rotated, overdue)
		v.Label("base:" + map[bool]string{true: "real-client(byte-replacement)", false: "harness-driven(consistent-mac)"}[c.Real])
		v.Label("from:" + []string{"A", "same-ip-other-port", "other-ip-same-port", "other-ip-other-port"}[c.From])
		v.Label("key:" + []string{"K", "replaced-field", "other-key-consistent-mac", "K-altered-in-one-region:replaced-field", "K-altered-in-one-region:consistent-mac"}[c.Key])
		if out.keyNote != "" {
			v.Label("altered-key:" + out.keyNote)
		}
		for _, l := range out.busy {
			v.Label(l)
		}
		v.Label("cookie:" + []string{"intact", "byte-altered", "of-other-address-and-key", "of-other-key-same-address", "of-same-key-other-address"}[c.Cookie])
		v.Label("presented:" + map[bool]string{true: "after-rotation", false: "before-rotation"}[out.rotated])
		v.Labelf("minted-in-key-period:%s", []string{"0", "1", "2", "3+"}[min(c.AgeS/120, 3)])
		switch {
		case overdue:
			v.Label("rotation-overdue(key-unchanged-although-a-rotation-instant-passed)")
		case out.due != out.rotated:
			v.Label("rotation-schedule-and-key-comparison-disagree-near-a-rotation-instant(key-comparison-used)")
		}
		accepted := out.serverAuth || out.entryCreated || out.grewField == "handshakes" || out.grewField == "sessions"
		if len(differs) == 0 {
			v.Label("differs:nothing(matching)")
			switch {
			case out.serverAuth && out.entry:
				v.Label("matching:accepted")
			case c.DelayS == 0 && (c.AgeS == 0 || out.dueClear):
				t.Errorf("VERIF-MACHINERY C19:valid-cookie-rejected: the unaltered acknowledgement from A with K and the fresh cookie was not accepted (ServerAuth %v, handshake entry %v); case %+v", out.serverAuth, out.entry, c)
			default:
				v.Label("matching:rejected-without-rotation(not-judged)")
			}
			return
		}
		what := strings.Join(differs, "+")
		if len(differs) == 1 {
			v.Label("differs-only-in:" + what)
		} else {
			v.Labelf("differs-in-%d-ways", len(differs))
		}
		v.NonTrivial = true
		if accepted {
			extra := ""
			if out.keyNote != "" {
				extra += fmt.Sprintf("; the named key equals K except for %s (offset %d)", out.keyNote, c.KOff)
			}
			if len(c.Busy) > 0 {
				extra += fmt.Sprintf("; around the rotation instants: %v", out.busy)
			}
			v.Failf("C19:cookie-accepted:"+what, "client acknowledgement accepted although it differs from the exchange the cookie was minted for in: %s (ServerAuth emitted %v, handshake entry for the source %v, table change %q %d->%d; server sent:%s)%s",
				what, out.serverAuth, out.entryCreated, out.grewField, out.grewFrom, out.grewTo, out.emitted, extra)
			return
		}
		if out.emitted != "" {
			v.Label("rejected-but-server-sent-something(not-judged)")
			v.Note = out.emitted
		}
	}
}

// TestVerifC19CookieSweep enumerates source x key x cookie x rotation, and every cookie byte.
func TestVerifC19CookieSweep(t *testing.T) {
	run := c19CookieRun(t)
	if vlib.ReplayEnumerated(t, "C19", run) {
		return
	}
	c19SelfTestCookie(t)
	rec := vlib.Open(t, "C19")
	idx := 0
	emit := func(c c19CookieCase) bool {
		idx++
		if !rec.Mine(idx) || !c19CookieValid(c) {
			return true
		}
		rec.Persist(c)
		return vlib.Each(t, rec, c, run)
	}
	delays := []int{0, 45, 110, 125, 170, 245, 299}
	for _, real := range []bool{false, true} {
		for from := 0; from < 4; from++ {
			for key := 0; key <= 2; key++ {
				for _, cookie := range []int{0, 2, 3, 4} {
					for _, d := range delays {
						if !emit(c19CookieCase{Real: real, From: from, Key: key, Cookie: cookie, DelayS: d}) {
							return
						}
					}
					// the server has been serving for a while: cookies minted in its 2nd, 3rd and 4th key period, presented one
					// (and, for the presentations from A with K, two) rotation instants later, or at once
					for _, age := range []int{130, 250, 370} {
						for _, d := range []int{125, 0, 60, 245} {
							if d != 125 && (from != 0 || key != 0) {
								continue
							}
							if !emit(c19CookieCase{Real: real, From: from, Key: key, Cookie: cookie, DelayS: d, AgeS: age}) {
								return
							}
						}
					}
					// the same matrix with 4-byte IPv4 and with IPv6 addresses (the cookie is bound to the raw address bytes)
					for fam := 1; fam <= 2; fam++ {
						if !emit(c19CookieCase{Real: real, From: from, Key: key, Cookie: cookie, Fam: fam}) {
							return
						}
					}
				}
			}
		}
		// the acknowledgement names a key that equals K outside one region: one bit / one byte at the ends of the encoding,
		// at the boundary between its 768 coefficient bytes and its 32 seed bytes and in every 32-byte block; every
		// 32-byte block rewritten (the last one is the seed), a block across byte 768; from A with the intact cookie
		// at once, and (last block, last bit) from the other sources and after a rotation
		for _, key := range []int{3, 4} {
			if real && key == 4 {
				continue
			}
			offs := []int{1, 383, 384, 766, 767, 769, 798, 799}
			for o := 0; o < KemKeyLen; o += 32 {
				offs = append(offs, o)
			}
			for _, o := range offs {
				for _, m := range []int{0x01, 0x80, 0xff} {
					if !emit(c19CookieCase{Real: real, Key: key, KOff: o, KMask: m}) {
						return
					}
				}
			}
			for o := 0; o < KemKeyLen; o += 32 {
				if !emit(c19CookieCase{Real: real, Key: key, KOff: o, KLen: 32, KSeed: uint64(o) + 1}) {
					return
				}
			}
			for _, r := range [][2]int{{752, 32}, {0, 768}, {0, 800}, {764, 4}, {768, 4}, {796, 4}, {400, 7}} {
				if !emit(c19CookieCase{Real: real, Key: key, KOff: r[0], KLen: r[1], KSeed: 99}) {
					return
				}
			}
			for from := 0; from < 4; from++ {
				for _, d := range []int{0, 125} {
					if from == 0 && d == 0 {
						continue
					}
					if !emit(c19CookieCase{Real: real, From: from, Key: key, KOff: 768, KLen: 32, KSeed: 5, DelayS: d}) || !emit(c19CookieCase{Real: real, From: from, Key: key, KOff: 799, KMask: 0x80, DelayS: d}) {
						return
					}
				}
			}
		}
		// hello traffic and send durations around the rotation instants between minting and presentation: the unaltered
		// acknowledgement from A (and, once, each other difference) presented 5 s after the first / second instant
		slow := func(rot, lead, send int) c19Busy { return c19Busy{Rot: rot, LeadMs: lead, SendMs: send} }
		for _, age := range []int{0, 130} {
			for _, plan := range [][]c19Busy{
				{slow(1, 1, 1)}, {slow(1, 3, 50)}, {slow(1, 500, 500)}, {slow(1, 2500, 9000)}, // in progress at the first instant
				{slow(1, 500, 499)}, {slow(1, 2000, 0)}, // finished before it
				{{Rot: 1, Burst: 1}}, {{Rot: 1, Burst: 16}}, {{Rot: 1, LeadMs: 40, SendMs: 40, Burst: 8}},
			} {
				for _, d := range []int{125 - age%120, 245 - age%120} {
					if !emit(c19CookieCase{Real: real, DelayS: d, AgeS: age, Busy: plan}) {
						return
					}
				}
			}
			for _, plan := range [][]c19Busy{
				{slow(1, 700, 700), slow(2, 700, 700)}, {slow(2, 700, 700)}, {slow(1, 5, 5), {Rot: 2, Burst: 8}},
			} {
				if !emit(c19CookieCase{Real: real, DelayS: 245 - age%120, AgeS: age, Busy: plan}) {
					return
				}
			}
		}
		for from := 1; from < 4; from++ {
			if !emit(c19CookieCase{Real: real, From: from, DelayS: 125, Busy: []c19Busy{slow(1, 300, 300)}}) {
				return
			}
		}
		masks := []int{0x01, 0x80}
		if vlib.Thorough() {
			masks = []int{0x01, 0x02, 0x04, 0x08, 0x10, 0x20, 0x40, 0x80, 0xff}
		}
		for off := 0; off < PQCookieLen; off++ {
			for _, m := range masks {
				if !emit(c19CookieCase{Real: real, Cookie: 1, Off: off, Mask: m}) {
					return
				}
			}
			if vlib.Thorough() || off%8 == 0 {
				// an altered cookie combined with each other difference
				for from := 1; from < 4; from++ {
					if !emit(c19CookieCase{Real: real, From: from, Cookie: 1, Off: off, Mask: 0x01}) {
						return
					}
				}
				if !emit(c19CookieCase{Real: real, Cookie: 1, Off: off, Mask: 0x01, DelayS: 130}) {
					return
				}
			}
		}
	}
	rec.Extra("enumerated", "base {real client, harness-driven} x source {A, other port, other IP, both} x key {K, field replaced, other key with consistent MAC} x cookie {intact, of other exchange x3} x (delay {0,45,110 | 125,170,245,299 s} on a server that has just started + server age {130,250,370 s} x delay 125 s (from A with K also 0, 60, 245 s), IPv4-mapped addresses + delay 0 with 4-byte IPv4 and with IPv6 addresses); every cookie byte x masks (quick {0x01,0x80}; thorough 8 single bits + 0xff); key = K altered in ONE region {field replaced, consistent MAC}: one bit / byte (masks 0x01,0x80,0xff) at offsets 0,1,383,384,766,767,768,769,798,799 and every multiple of 32, every 32-byte block rewritten, regions 752+32, 0+768, 0+800, 764+4, 768+4, 796+4, 400+7, last block / last bit also from every source and 125 s later; traffic around the rotation instants (unaltered acknowledgement, server age {0,130 s}, presented 5 s after the 1st / 2nd instant): hello whose ServerHello send lasts {1,50,500,9000 ms} and is in progress at the instant, sends finishing before it, bursts of {1,8,16} hellos at the instant, both instants busy / only the second")
}

func TestVerifC19CookieRandom(t *testing.T) {
	c19SelfTestCookie(t)
	vlib.Drive(t, vlib.Spec[c19CookieCase]{ID: "C19", Quick: 1500, Run: c19CookieRun(t), Gen: func(t *rapid.T) c19CookieCase {
		c := c19CookieCase{Real: rapid.Bool().Draw(t, "real")}
		c.From = rapid.SampledFrom([]int{0, 0, 1, 2, 3}).Draw(t, "from")
		c.Fam = rapid.SampledFrom([]int{0, 0, 1, 2, 2}).Draw(t, "fam")
		if c.Real {
			c.Key = rapid.SampledFrom([]int{0, 0, 0, 1, 3}).Draw(t, "key")
			c.Cookie = rapid.SampledFrom([]int{0, 0, 1, 1, 2, 3}).Draw(t, "cookie")
		} else {
			c.Key = rapid.SampledFrom([]int{0, 0, 0, 0, 1, 2, 2, 3, 4, 4, 4}).Draw(t, "key")
			c.Cookie = rapid.SampledFrom([]int{0, 0, 0, 1, 1, 2, 3, 4}).Draw(t, "cookie")
		}
		if c.Key >= 3 {
			// the region in which the named key differs from K
			edge := []int{0, 1, 2, 383, 384, 385, 766, 767, 768, 769, 798, 799}
			switch rapid.IntRange(0, 2).Draw(t, "kreg") {
			case 0: // one bit
				c.KMask = 1 << rapid.IntRange(0, 7).Draw(t, "kbit")
			case 1: // one byte
				c.KMask = rapid.IntRange(1, 255).Draw(t, "kmask")
			default:
				c.KLen = rapid.SampledFrom([]int{4, 16, 32, 32, 32, 64, 400}).Draw(t, "klen")
				c.KSeed = rapid.Uint64().Draw(t, "kseed")
			}
			if c.KLen <= 1 {
				if rapid.Bool().Draw(t, "koffEdge") {
					c.KOff = rapid.SampledFrom(edge).Draw(t, "koffE")
				} else {
					c.KOff = rapid.IntRange(0, KemKeyLen-1).Draw(t, "koff")
				}
			} else {
				switch rapid.IntRange(0, 2).Draw(t, "kwhere") {
				case 0:
					c.KOff = KemKeyLen - c.KLen // the end of the encoding
				case 1:
					c.KOff = rapid.SampledFrom([]int{0, 368, 736, 752, 768}).Draw(t, "koffR")
				default:
					c.KOff = rapid.IntRange(0, KemKeyLen-c.KLen).Draw(t, "koffAny")
				}
				c.KOff = min(c.KOff, KemKeyLen-c.KLen)
			}
		}
		if c.Cookie == 1 {
			c.Off = rapid.IntRange(0, PQCookieLen-1).Draw(t, "off")
			c.Mask = rapid.IntRange(1, 255).Draw(t, "mask")
		}
		switch rapid.IntRange(0, 3).Draw(t, "when") {
		case 0:
			c.DelayS = 0
		case 1:
			c.DelayS = rapid.IntRange(1, 115).Draw(t, "delayBefore")
		default:
			c.DelayS = rapid.IntRange(121, 300).Draw(t, "delayAfter")
		}
		// age of the server at the base exchange: just started, or somewhere inside its 1st..6th key period
		if rapid.IntRange(0, 2).Draw(t, "aged") > 0 {
			c.AgeS = 120*rapid.SampledFrom([]int{0, 1, 1, 2, 2, 3, 4, 5}).Draw(t, "agePeriod") + rapid.IntRange(2, 117).Draw(t, "ageInPeriod")
			if r := (c.AgeS + c.DelayS) % 120; c.DelayS > 0 && (r < 2 || r > 117) {
				c.DelayS += 5 // keep the presentation clear of a rotation instant
			}
		}
		// what the server is doing around the rotation instants the cookie has to die at
		if c.DelayS > 120 && rapid.Bool().Draw(t, "busy") {
			n := rapid.IntRange(1, 2).Draw(t, "busyInstants")
			for i := 0; i < n; i++ {
				b := c19Busy{Rot: rapid.SampledFrom([]int{1, 1, 1, 2}).Draw(t, "rot")}
				kind := rapid.IntRange(0, 5).Draw(t, "busyKind")
				if kind <= 4 { // a hello whose answer is slow to leave the socket
					b.LeadMs = rapid.SampledFrom([]int{1, 2, 10, 100, 500, 1000, 2500}).Draw(t, "leadMs")
					if rapid.Bool().Draw(t, "leadAny") {
						b.LeadMs = rapid.IntRange(1, 2500).Draw(t, "leadMsAny")
					}
					if kind == 0 {
						b.SendMs = rapid.IntRange(0, b.LeadMs-1).Draw(t, "sendShort") // leaves before the instant
					} else {
						b.SendMs = b.LeadMs + rapid.SampledFrom([]int{0, 1, 100, 3000}).Draw(t, "sendOver")
					}
				}
				if kind >= 4 {
					b.Burst = rapid.SampledFrom([]int{1, 4, 16}).Draw(t, "burst")
				}
				c.Busy = append(c.Busy, b)
			}
		}
		return c
	}})
}

// ---------------------------------------------------------------------------
// (c) hidden server: one probe class per case

const c19MinHiddenLen = HeaderLen + KemKeyLen + KemCtLen + MacLen + TimestampLen + MacLen // hidden request with empty certificates

var c19LastReqLen atomic.Int64 // length of the last honest hidden request that was answered (self-test -> generators)

type c19HiddenCase struct {
	Certs   int    `json:"certs"`  // certificates of the hidden server: 1 = ServerConfig(true); 2, 3 = GetCertificate/GetCertList closures
	Target  int    `json:"target"` // certificate whose KEM key the case's honest request uses
	Live    bool   `json:"live"`   // a hidden session (client vCli2Addr) is established first and stays open during the probe
	Class   string `json:"class"`  // honest | delayed | replayed-late | future | stamped | wrong-kem | altered | junk | discoverable | own-cookie-ack | session-unknown | session-live
	Src     int    `json:"src"`    // source of injected datagrams: 0 an address the server never saw, 1 the live client's address, 2 the requesting client's address
	N       int    `json:"n"`      // junk / session classes: number of datagrams
	Type    int    `json:"type"`   // junk / session classes: first byte (-1: from the tape); discoverable: message index (-1: all five in order)
	Len     int    `json:"len"`    // junk / session classes: datagram length; altered (truncate): new length
	Kind    int    `json:"kind"`   // altered: 0 xor, 1 truncate, 2 extend by Len bytes; junk: 1 = hidden-request-shaped (version and length field fit); session-live: 0 junk body, 1 replay of an authentic datagram, 2 altered authentic datagram
	Off     int    `json:"off"`
	Mask    int    `json:"mask"`
	DelayMs int64  `json:"delayMs"` // delayed / replayed-late: hold time; future: how far the requesting client's clock is ahead; stamped: time between the presentation and its replay (0: no replay)
	Seed    uint64 `json:"seed"`
	// stamped: a correctly keyed and MACed request whose 8-byte time stamp field carries
	// TsAbs + (the server's clock in seconds at the presentation, if TsNow) + TsDelta (arithmetic mod 2^64);
	// Kind: 0 replay from the same address, 1 from another address
	TsAbs   uint64 `json:"tsAbs,omitempty"`
	TsNow   bool   `json:"tsNow,omitempty"`
	TsDelta int64  `json:"tsDelta,omitempty"`
	// stamped: the 4-byte header AS SENT (it is the first thing both sides absorb, so every tag and MAC of the request
	// is computed over it): version byte = Version ^ VerXor (0: the protocol's version); certificates-length field =
	// real length + LenDelta (mod 2^16; the hidden request has no reserved bytes, bytes 2..3 frame the message); with
	// Pad and LenDelta > 0 the datagram is extended by LenDelta bytes so that it has the size its header announces.
	VerXor   int  `json:"verXor,omitempty"`
	LenDelta int  `json:"lenDelta,omitempty"`
	Pad      bool `json:"pad,omitempty"`
}

// c19HdrMalformed: is the header of a harness-written request one that no request of this protocol carries?
// handshake_spec.md, Client Request Message: type 0x18 | Protocol Version | Certs Len; transport/common.go: "Version is
// the protocol version being used. Only one version is supported." A request that announces another version, or whose
// length field does not describe the message that follows, is not a well-formed hidden-mode request - however
// consistently its tags were computed.
func c19HdrMalformed(c c19HiddenCase) (kind string) {
	switch {
	case c.VerXor&0xff != 0 && c.LenDelta&0xffff != 0:
		return "unsupported-version+misframed"
	case c.VerXor&0xff != 0:
		return "unsupported-version"
	case c.LenDelta&0xffff != 0:
		return "misframed"
	}
	return ""
}

var c19DiscoverableNames = []string{"ClientHello", "ServerHello", "ClientAck", "ServerAuth", "ClientAuth"}

// c19HiddenNormalize redirects the shapes that trigger a process-killing finding while it is listed open.
func c19HiddenNormalize(c *c19HiddenCase) string {
	if c.Certs > 1 && c19Open(c19SigHiddenMulti) {
		hit := false
		switch c.Class {
		case "wrong-kem", "altered":
			hit = true
		case "honest", "delayed", "replayed-late", "future", "stamped":
			hit = c.Target > 0 || (c.Class == "stamped" && c.LenDelta&0xffff != 0)
		case "junk":
			hit = (c.Type < 0 || c.Type == int(MessageTypeClientRequestHidden)) && c.Len >= c19MinHiddenLen
		}
		if hit {
			c.Certs, c.Target = 1, 0
			return c19SigHiddenMulti
		}
	}
	if c.Class == "session-live" && c.Kind == 0 && c.Len >= HeaderLen+SessionIDLen && c.Len < HeaderLen+SessionIDLen+CounterLen+TagLen && c19Open(c19SigMakeslice) {
		c.Len += HeaderLen + SessionIDLen + CounterLen + TagLen
		return c19SigMakeslice
	}
	return ""
}

func c19HiddenValid(c c19HiddenCase) bool {
	if c.Certs < 1 || c.Certs > 3 || c.Target < 0 || c.Target >= c.Certs || c.Src < 0 || c.Src > 2 || c.N < 0 || c.N > 64 || c.Len < 0 || c.Len > 4000 || c.DelayMs < 0 {
		return false
	}
	switch c.Class {
	case "honest", "delayed", "replayed-late", "future", "wrong-kem", "own-cookie-ack":
		return true
	case "stamped":
		return c.Kind >= 0 && c.Kind <= 1 && c.VerXor >= 0 && c.VerXor <= 0xff && c.LenDelta > -0x10000 && c.LenDelta < 0x10000
	case "altered":
		return c.Kind >= 0 && c.Kind <= 2 && (c.Kind != 0 || c.Mask&0xff != 0) && (c.Kind != 2 || c.Len > 0)
	case "junk", "session-unknown":
		return c.N >= 1 && c.Len >= 1
	case "session-live":
		return c.Live && c.N >= 1 && c.Len >= 1 && c.Kind >= 0 && c.Kind <= 2 && (c.Kind != 2 || c.Mask&0xff != 0)
	case "discoverable":
		return c.Type >= -1 && c.Type < 5
	}
	return false
}

// c19CaptureDiscoverable runs an honest discoverable handshake against another server instance and returns its five messages.
func c19CaptureDiscoverable() ([][]byte, string) {
	w := vGetWorld()
	env2 := vStartServer(w.ServerConfig(false))
	defer env2.Stop()
	var mu sync.Mutex
	var msgs [][]byte
	env2.Net.Filter = func(d simnet.Datagram) []simnet.Datagram {
		if vIsHandshake(d.Data) {
			mu.Lock()
			msgs = append(msgs, append([]byte(nil), d.Data...))
			mu.Unlock()
		}
		return []simnet.Datagram{d}
	}
	cli, _ := env2.NewClient(vCliAddr, w.ClientConfig(false, false))
	err := c19Handshake(cli, 10*time.Second)
	if err == nil {
		_, err = env2.Srv.AcceptTimeout(time.Second)
	}
	cli.Close()
	mu.Lock()
	defer mu.Unlock()
	if err != nil || len(msgs) != 5 {
		return nil, fmt.Sprintf("honest discoverable run against the other instance: err %v, %d handshake datagrams", err, len(msgs))
	}
	for i, m := range msgs {
		if int(m[0]) != i+1 {
			return nil, fmt.Sprintf("honest discoverable run: datagram %d has type %#x", i, m[0])
		}
	}
	return msgs, ""
}

// c19MakeRequest lets a real hidden client whose clock is aheadMs ahead of a fresh bubble's start write its request.
func c19MakeRequest(t *testing.T, aheadMs int64, cc ClientConfig) []byte {
	var req []byte
	vlib.Bubble(t, 30*time.Second, func() {
		time.Sleep(time.Duration(aheadMs) * time.Millisecond)
		n := simnet.New()
		sock := n.Dial(vCliAddr, vSrvAddr)
		cli := NewClient(sock, vSrvAddr, cc)
		done := make(chan error, 1)
		go func() { done <- cli.Handshake() }()
		time.Sleep(time.Millisecond)
		for _, d := range n.SentSnapshot() {
			if len(d.Data) > 0 && MessageType(d.Data[0]) == MessageTypeClientRequestHidden {
				req = d.Data
			}
		}
		cli.Close()
		<-done
	})
	return req
}

// c19StampedRequest writes a hidden request for the client configuration cc the way Client.clientHandshakeLocked,
// beginPQHiddenHandshake and writePQClientRequestHidden do (same duplex operations on the same real primitives),
// except that the time stamp field carries ts instead of time.Now().Unix(). The self-test presents one stamped with
// the server's own clock and requires the real server to answer it, so a drift of this copy is a machinery failure.
func c19StampedRequest(cc ClientConfig, ts uint64) ([]byte, error) {
	return c19StampedRequestHdr(cc, ts, Version, 0, false)
}

// c19StampedRequestHdr: the same, with the header's version byte and length field as given (length field = real length
// of the encrypted certificates + lenDelta mod 2^16); the header is absorbed as it is sent.
func c19StampedRequestHdr(cc ClientConfig, ts uint64, version byte, lenDelta int, pad bool) ([]byte, error) {
	hs := new(HandshakeState)
	hs.duplex.InitializeEmpty()
	hs.dh = new(dhState)
	hs.dh.ephemeral.Generate()
	hs.dh.static = cc.Exchanger
	hs.kem = new(kemState)
	hs.kem.ephemeral = *c19NewKEM()
	if cc.Leaf == nil || cc.ServerKEMKey == nil {
		return nil, fmt.Errorf("client configuration without leaf certificate or server KEM key")
	}
	leaf, err := cc.Leaf.Marshal()
	if err != nil {
		return nil, err
	}
	var inter []byte
	if cc.Intermediate != nil {
		if inter, err = cc.Intermediate.Marshal(); err != nil {
			return nil, err
		}
	}
	hs.duplex.Absorb([]byte(PostQuantumHiddenProtocolName))
	hs.RekeyFromSqueeze(PostQuantumHiddenProtocolName)

	encCertsLen := EncryptedCertificatesLength(leaf, inter)
	out := make([]byte, HeaderLen+KemKeyLen+KemCtLen+encCertsLen+MacLen+TimestampLen+MacLen)
	b := out
	lenField := (encCertsLen + lenDelta) & 0xffff
	b[0], b[1], b[2], b[3] = byte(MessageTypeClientRequestHidden), version, byte(lenField>>8), byte(lenField)
	hs.duplex.Absorb(b[:HeaderLen])
	b = b[HeaderLen:]
	eph, err := hs.kem.ephemeral.Public.MarshalBinary()
	if err != nil {
		return nil, err
	}
	copy(b, eph)
	hs.duplex.Absorb(b[:KemKeyLen])
	b = b[KemKeyLen:]
	ct, k, err := keys.Encapsulate(rand.Reader, cc.ServerKEMKey)
	if err != nil || len(ct) != KemCtLen {
		return nil, fmt.Errorf("encapsulation: %v (%d bytes)", err, len(ct))
	}
	copy(b, ct)
	b = b[KemCtLen:]
	hs.duplex.Absorb(k)
	enc, err := EncryptCertificates(&hs.duplex, leaf, inter)
	if err != nil || len(enc) != encCertsLen {
		return nil, fmt.Errorf("certificates: %v (%d bytes, expected %d)", err, len(enc), encCertsLen)
	}
	copy(b, enc)
	b = b[encCertsLen:]
	hs.duplex.Squeeze(b[:MacLen])
	b = b[MacLen:]
	var stamp [TimestampLen]byte
	binary.BigEndian.PutUint64(stamp[:], ts)
	hs.duplex.Encrypt(b, stamp[:])
	b = b[TimestampLen:]
	hs.duplex.Squeeze(b[:MacLen])
	if pad && lenDelta > 0 {
		out = append(out, vlib.Fill(ts^uint64(lenDelta), lenDelta)...)
	}
	return out, nil
}

// c19HiddenWindowSec is the hidden-mode freshness window in SECONDS, as a protocol parameter of its own: the time stamp
// on the wire is a Unix time in seconds (handshake_spec.md: timestamp = duplex.encrypt(time.Now().Unix())) and the
// documentation of the parameter in transport/common.go says "5 sec". The harness deliberately does NOT read the code's
// HiddenModeTimestampExpiration: an oracle that takes the window from the code under test moves with it (a change of the
// constant's value, unit or type would shift the oracle, or - as a typed time.Duration - turn it into 5e9 seconds).
const c19HiddenWindowSec = 5

// c19Freshness reads a time stamp against the server's clock (seconds) the way the "delayed" and "future" classes
// already do: must-be-silent needs a full second beyond the documented window (c19HiddenWindowSec) on either
// side; a stamp that is ahead of the clock by less than that is not judged (clock-skew tolerance is not fixed by the
// statement). The field is 64 bits wide and unsigned on the wire (binary.BigEndian.PutUint64 of a Unix time).
func c19Freshness(ts uint64, now int64) string {
	t, w := uint64(now), uint64(c19HiddenWindowSec)
	switch {
	case ts > t && ts-t >= w+1:
		return "future"
	case ts > t:
		return "ahead-inside-window-width"
	case t-ts <= w:
		return "fresh"
	}
	return "stale"
}

// c19StampName describes a stamp relative to the landmarks of the field (labels and messages only).
func c19StampName(c c19HiddenCase) string {
	var parts []string
	switch {
	case c.TsAbs == 0:
	case c.TsAbs&(c.TsAbs-1) == 0:
		parts = append(parts, fmt.Sprintf("2^%d", bits.TrailingZeros64(c.TsAbs)))
	case c.TsAbs == ^uint64(0):
		parts = append(parts, "2^64-1")
	case (c.TsAbs+1)&c.TsAbs == 0:
		parts = append(parts, fmt.Sprintf("2^%d-1", bits.TrailingZeros64(c.TsAbs+1)))
	default:
		parts = append(parts, "value")
	}
	if c.TsNow {
		parts = append(parts, "now")
	}
	switch {
	case c.TsDelta > 0 && c.TsDelta <= 8, c.TsDelta < 0 && c.TsDelta >= -8:
		parts = append(parts, fmt.Sprintf("%+d", c.TsDelta))
	case c.TsDelta != 0:
		parts = append(parts, map[bool]string{true: "+delta", false: "-delta"}[c.TsDelta > 0])
	}
	if len(parts) == 0 {
		return "0"
	}
	return strings.Join(parts, " ")
}

type c19HiddenJudge struct {
	v     *vlib.Verdict
	watch *c19Watch
}

// silent: whatever preceded must not have made the server send anything.
func (j *c19HiddenJudge) silent(class, what string) bool {
	got := j.watch.delta()
	if len(got) == 0 {
		return true
	}
	j.v.Failf("C19:hidden-server-answered:"+class, "hidden server sent %d datagram(s) after %s:%s", len(got), what, c19Describe(got))
	return false
}

// atMostOneResponse: a request that is fresh by the server's own criterion may be answered by exactly one
// ServerResponseHidden to its source; returns whether it was.
func (j *c19HiddenJudge) atMostOneResponse(class, what string, to *net.UDPAddr) (answered, ok bool) {
	got := j.watch.delta()
	if len(got) == 0 {
		return false, true
	}
	d := got[0]
	if len(got) > 1 || len(d.Data) == 0 || MessageType(d.Data[0]) != MessageTypeServerResponseHidden || !c19Same(d.Dst, to) {
		j.v.Failf("C19:hidden-server-answered:not-exactly-one-response:"+class, "after %s from %v the hidden server sent:%s (allowed: one ServerResponseHidden to the source)", what, to, c19Describe(got))
		return true, false
	}
	return true, true
}

func c19JunkClass(b []byte) string {
	if len(b) == 0 {
		return "empty"
	}
	mt := MessageType(b[0])
	switch {
	case mt == MessageTypeClientRequestHidden:
		return "hidden-request-typed"
	case mt >= MessageTypeClientHello && mt <= MessageTypeClientAuth, mt == MessageTypeServerResponseHidden:
		return "handshake-typed"
	case mt == MessageTypeTransport, mt == MessageTypeControl:
		return "session-typed"
	}
	return "unknown-type"
}

func c19Hidden(c c19HiddenCase, v *vlib.Verdict, future []byte) (mach string) {
	env := vStartServer(c19HiddenServerConfig(c.Certs))
	defer env.Stop()
	var mu sync.Mutex
	mode := "pass" // treatment of the hidden request of the client at vCliAddr
	var captured []byte
	var liveSent [][]byte
	env.Net.Filter = func(d simnet.Datagram) []simnet.Datagram {
		mu.Lock()
		defer mu.Unlock()
		if len(d.Data) == 0 {
			return []simnet.Datagram{d}
		}
		if c19Same(d.Src, vCli2Addr) && !MessageType(d.Data[0]).IsHandshakeType() {
			liveSent = append(liveSent, append([]byte(nil), d.Data...))
		}
		if !c19Same(d.Src, vCliAddr) || MessageType(d.Data[0]) != MessageTypeClientRequestHidden {
			return []simnet.Datagram{d}
		}
		captured = append([]byte(nil), d.Data...)
		switch mode {
		case "hold":
			d.Delay = time.Duration(c.DelayMs) * time.Millisecond
		case "alter":
			switch c.Kind {
			case 0:
				d.Data[c.Off%len(d.Data)] ^= byte(c.Mask)
			case 1:
				d.Data = d.Data[:c.Len%len(d.Data)]
			case 2:
				d.Data = append(d.Data, vlib.Fill(c.Seed, c.Len)...)
			}
		}
		return []simnet.Datagram{d}
	}
	setMode := func(m string) { mu.Lock(); mode = m; mu.Unlock() }
	var clients []*Client
	defer func() {
		for _, cl := range clients {
			cl.Close()
		}
	}()
	newClient := func(addr *net.UDPAddr, cc ClientConfig) *Client {
		cl, _ := env.NewClient(addr, cc)
		clients = append(clients, cl)
		return cl
	}
	var live *Client
	if c.Live {
		live = newClient(vCli2Addr, c19HiddenClientConfig(0, true))
		if err := c19Handshake(live, 5*time.Second); err != nil {
			return "honest hidden handshake (live session) failed: " + err.Error()
		}
		if _, err := env.Srv.AcceptTimeout(time.Second); err != nil {
			return "live hidden session not offered by Accept: " + err.Error()
		}
		c19Settle()
	}
	src := vEvilAddr
	switch {
	case c.Src == 1 && c.Live:
		src = vCli2Addr
	case c.Src == 2:
		src = vCliAddr
	}
	j := &c19HiddenJudge{v: v, watch: c19NewWatch(env.Net)}
	inject := func(b []byte) { env.Net.Inject(src, vSrvAddr, b) }
	window := int64(c19HiddenWindowSec) * 1000

	switch c.Class {
	case "honest":
		cl := newClient(vCliAddr, c19HiddenClientConfig(c.Target, false))
		err := c19Handshake(cl, 5*time.Second)
		c19Settle()
		answered, ok := j.atMostOneResponse("fresh-request", "a fresh valid request", vCliAddr)
		if !ok {
			return
		}
		if !answered || err != nil {
			v.Labelf("fresh-valid-request:unanswered-or-client-failed(not-judged)")
			v.Note = fmt.Sprintf("answered %v, client err %v", answered, err)
		} else {
			v.Label("fresh-valid-request:answered-once")
			mu.Lock()
			c19LastReqLen.Store(int64(len(captured)))
			mu.Unlock()
		}

	case "delayed":
		setMode("hold")
		began := time.Now()
		cl := newClient(vCliAddr, c19HiddenClientConfig(c.Target, false))
		c19Handshake(cl, time.Duration(c.DelayMs)*time.Millisecond+2*time.Second)
		// the client may give up (its own handshake timeout) before the held request is released: the verdict below is
		// about what the server does with the request, so wait until it has certainly been delivered (a delay equal to the
		// client's timeout plus the settle time once put the response into the NEXT probe's observation window)
		if rem := time.Duration(c.DelayMs)*time.Millisecond + 50*time.Millisecond - time.Since(began); rem > 0 {
			time.Sleep(rem)
		}
		c19Settle()
		switch {
		case c.DelayMs >= window+1000:
			v.NonTrivial = true
			v.Label("delayed-beyond-window")
			if !j.silent("stale-request:delayed", fmt.Sprintf("a valid request that was delivered %d ms after it was written (window %d s)", c.DelayMs, c19HiddenWindowSec)) {
				return
			}
		case c.DelayMs <= window:
			answered, ok := j.atMostOneResponse("delayed-inside-window", "a valid request delayed inside the window", vCliAddr)
			if !ok {
				return
			}
			v.Labelf("delayed-inside-window:answered=%v", answered)
		default:
			answered, ok := j.atMostOneResponse("delayed-window-edge", "a valid request delayed to the edge of the window", vCliAddr)
			if !ok {
				return
			}
			v.Labelf("delayed-window-edge(not-judged):answered=%v", answered)
		}

	case "replayed-late":
		cl := newClient(vCliAddr, c19HiddenClientConfig(c.Target, false))
		err := c19Handshake(cl, 5*time.Second)
		c19Settle()
		answered, ok := j.atMostOneResponse("fresh-request", "a fresh valid request", vCliAddr)
		if !ok {
			return
		}
		if err != nil || !answered || captured == nil {
			v.Label("fresh-valid-request:unanswered-or-client-failed(not-judged)")
			break
		}
		time.Sleep(time.Duration(c.DelayMs) * time.Millisecond)
		inject(captured)
		c19Settle()
		where := map[bool]string{true: "same-address", false: "other-address"}[c19Same(src, vCliAddr)]
		switch {
		case c.DelayMs >= window+1000:
			v.NonTrivial = true
			v.Label("replayed-beyond-window:" + where)
			if !j.silent("stale-request:replayed-late", fmt.Sprintf("a byte-identical replay (%s) of an answered request, %d ms after it was written", where, c.DelayMs)) {
				return
			}
		default:
			again, ok := j.atMostOneResponse("replay-inside-window", "a replay inside the window", src)
			if !ok {
				return
			}
			v.Labelf("replayed-inside-window-or-edge(not-judged):%s:answered=%v", where, again)
		}

	case "future":
		if future == nil {
			return "no pre-made future request"
		}
		inject(future)
		c19Settle()
		if c.DelayMs >= window+1000 {
			v.NonTrivial = true
			v.Label("future-beyond-window-width")
			if !j.silent("future-request", fmt.Sprintf("a valid request time-stamped %d ms in the future", c.DelayMs)) {
				return
			}
		} else {
			answered, ok := j.atMostOneResponse("future-inside-window-width", "a request stamped slightly in the future", src)
			if !ok {
				return
			}
			v.Labelf("future-inside-window-width(not-judged):answered=%v", answered)
		}

	case "stamped":
		// align to 100 ms past a whole second: the server's second does not change while it handles the datagram
		time.Sleep(time.Until(time.Now().Truncate(time.Second).Add(1100 * time.Millisecond)))
		now := time.Now().Unix()
		ts := c.TsAbs + uint64(c.TsDelta)
		if c.TsNow {
			ts += uint64(now)
		}
		req, err := c19StampedRequestHdr(c19HiddenClientConfig(c.Target, false), ts, Version^byte(c.VerXor), c.LenDelta, c.Pad)
		if err != nil {
			return "stamped request: " + err.Error()
		}
		name := c19StampName(c)
		malformed := c19HdrMalformed(c)
		present := func(from *net.UDPAddr, step string) bool {
			now := time.Now().Unix()
			env.Net.Inject(from, vSrvAddr, req)
			c19Settle()
			fr := c19Freshness(ts, now)
			what := fmt.Sprintf("a correctly keyed and MACed request (%s) whose time stamp field is %#016x = %s, server clock %d (%#x), window %d s", step, ts, name, now, now, c19HiddenWindowSec)
			if malformed != "" {
				// not a well-formed request of this protocol, whatever its time stamp says
				v.NonTrivial = true
				v.Labelf("stamped:header-%s:stamp-%s:%s", malformed, fr, step)
				return j.silent(malformed+"-request:stamped:"+step, fmt.Sprintf("%s, sent under the header % x (version byte %#x, protocol version %#x; length field = real length %+d, %d bytes) with every tag and MAC computed over that header", what, req[:HeaderLen], req[1], Version, c.LenDelta, len(req)))
			}
			switch fr {
			case "stale", "future":
				v.NonTrivial = true
				v.Labelf("stamped:%s:%s", fr, step)
				return j.silent(fr+"-request:stamped:"+step, what)
			}
			answered, ok := j.atMostOneResponse("stamped-"+fr+":"+step, what, from)
			if fr == "fresh" {
				v.Labelf("stamped:fresh:%s:answered=%v", step, answered)
			} else {
				v.Labelf("stamped:%s(not-judged):%s:answered=%v", fr, step, answered)
			}
			return ok
		}
		switch {
		case ts < 1<<31:
			v.Label("stamp-field:below-2^31")
		case ts < 1<<32:
			v.Label("stamp-field:2^31..2^32")
		case ts < 1<<63:
			v.Label("stamp-field:2^32..2^63")
		default:
			v.Label("stamp-field:top-bit-set")
		}
		if c.TsNow && c.TsAbs != 0 {
			v.Label("stamp-field:clock-plus-high-bits")
		}
		if !present(src, "first") {
			return
		}
		if c.DelayMs > 0 {
			time.Sleep(time.Duration(c.DelayMs) * time.Millisecond)
			if got := j.watch.delta(); len(got) > 0 {
				// whatever the server does about an answered request that nobody continues belongs to that request
				v.Label("server-sent-something-while-waiting-for-the-replay(not-judged)")
				v.Note = c19Describe(got)
			}
			from, where := src, "replay-same-address"
			if c.Kind == 1 {
				from, where = c19AddrSamePort, "replay-other-address"
			}
			if !present(from, where) {
				return
			}
		}

	case "wrong-kem":
		cc := c19HiddenClientConfig(0, false)
		pk := c19NewKEM().Public
		cc.ServerKEMKey = &pk
		cl := newClient(vCliAddr, cc)
		c19Handshake(cl, 3*time.Second)
		c19Settle()
		v.NonTrivial = true
		v.Label("request-under-wrong-kem-key")
		if !j.silent("wrong-kem-request", "a well-formed request built for another KEM public key") {
			return
		}

	case "altered":
		setMode("alter")
		cl := newClient(vCliAddr, c19HiddenClientConfig(c.Target, false))
		c19Handshake(cl, 3*time.Second)
		c19Settle()
		kind := []string{"xor", "truncated", "extended"}[c.Kind]
		v.NonTrivial = true
		region := ""
		if c.Kind == 0 && captured != nil {
			region = ":" + c19RequestRegion(c.Off%len(captured), len(captured))
		}
		v.Label("altered-request:" + kind + region)
		if !j.silent("altered-request:"+kind, fmt.Sprintf("a valid request altered in flight (%s off=%d mask=%#x len=%d of %d bytes)", kind, c.Off, c.Mask, c.Len, len(captured))) {
			return
		}

	case "junk":
		cls := ""
		for i := 0; i < c.N; i++ {
			b := vlib.Fill(c.Seed+uint64(i), c.Len)
			if c.Type >= 0 {
				b[0] = byte(c.Type)
			}
			if c.Kind == 1 && len(b) >= c19MinHiddenLen {
				b[1] = Version
				e := len(b) - c19MinHiddenLen
				b[2], b[3] = byte(e>>8), byte(e)
			}
			if c.Certs > 1 && c19Open(c19SigHiddenMulti) && MessageType(b[0]) == MessageTypeClientRequestHidden && len(b) >= c19MinHiddenLen {
				b[1] = Version + 1 // excluded by construction (see c19HiddenNormalize)
			}
			cls = c19JunkClass(b)
			inject(b)
		}
		c19Settle()
		v.NonTrivial = true
		if c.Kind == 1 && c.Len >= c19MinHiddenLen {
			cls += "+well-sized"
		}
		v.Label("junk:" + cls)
		if !j.silent("junk:"+cls, fmt.Sprintf("%d junk datagram(s) of %d bytes, first byte %#x", c.N, c.Len, c.Type)) {
			return
		}

	case "discoverable":
		msgs, m := c19CaptureDiscoverable()
		if m != "" {
			return m
		}
		v.NonTrivial = true
		for i, msg := range msgs {
			if c.Type >= 0 && c.Type != i {
				continue
			}
			inject(msg)
			c19Settle()
			v.Label("discoverable:" + c19DiscoverableNames[i])
			if !j.silent("discoverable:"+c19DiscoverableNames[i], "a valid discoverable-mode "+c19DiscoverableNames[i]+" captured from an honest run against another instance") {
				return
			}
		}

	case "own-cookie-ack":
		// white-box: the acknowledgement that this very server WOULD accept if it were discoverable (cookie sealed under its own current cookie key)
		kp := c19NewKEM()
		chs, _ := c19Hello(kp)
		shs := &HandshakeState{dh: new(dhState), kem: new(kemState)}
		shs.duplex.InitializeEmpty()
		shs.duplex.Absorb([]byte(PostQuantumProtocolName))
		_, hello := c19Hello(kp)
		if _, err := readPQClientHello(shs, hello); err != nil {
			return "own-cookie-ack: " + err.Error()
		}
		shs.cookieKey = c19CookieKey(env.Srv)
		shs.remoteAddr = src
		shb := make([]byte, c19SHLen)
		if _, err := writePQServerHello(shs, shb); err != nil {
			return "own-cookie-ack: " + err.Error()
		}
		if _, err := readPQServerHello(chs, shb); err != nil {
			return "own-cookie-ack: " + err.Error()
		}
		chs.RekeyFromSqueeze(PostQuantumProtocolName)
		ack := make([]byte, c19AckLen)
		if _, err := chs.writePQClientAck(ack); err != nil {
			return "own-cookie-ack: " + err.Error()
		}
		inject(hello)
		c19Settle()
		v.NonTrivial = true
		v.Label("discoverable:ClientHello")
		if !j.silent("discoverable:ClientHello", "a valid client hello") {
			return
		}
		inject(ack)
		c19Settle()
		v.Label("discoverable:ClientAck-with-cookie-under-the-servers-own-key")
		if !j.silent("discoverable:ClientAck", "a client acknowledgement whose cookie is sealed under the hidden server's own cookie key for this source and key") {
			return
		}

	case "session-unknown", "session-live":
		var sid SessionID
		copy(sid[:], vlib.Fill(c.Seed^0x5e55, SessionIDLen))
		if live != nil {
			lid := live.ss.sessionID
			if c.Class == "session-live" {
				sid = lid
			} else if sid == lid {
				sid[0] ^= 0xff
			}
		}
		v.NonTrivial = true
		typ := byte(MessageTypeTransport)
		if c.Type >= 0 {
			typ = byte(c.Type)
		}
		switch {
		case c.Class == "session-live" && c.Kind >= 1:
			// an authentic datagram of the live session, then replays / altered copies of it
			mu.Lock()
			liveSent = nil
			mu.Unlock()
			if err := live.WriteMsg(vlib.Fill(c.Seed, 1+c.Len%512)); err != nil {
				return "live client WriteMsg: " + err.Error()
			}
			c19Settle()
			mu.Lock()
			var auth []byte
			if len(liveSent) > 0 {
				auth = liveSent[0]
			}
			mu.Unlock()
			if auth == nil {
				return "live client's datagram not seen on the wire"
			}
			if got := j.watch.delta(); len(got) > 0 {
				v.Label("authentic-session-datagram-elicited-a-datagram(not-judged)")
			}
			for i := 0; i < c.N; i++ {
				b := append([]byte(nil), auth...)
				if c.Kind == 2 {
					b[(c.Off+i)%len(b)] ^= byte(c.Mask)
				}
				inject(b)
			}
			c19Settle()
			sub := []string{"", "replay-of-authentic", "altered-authentic"}[c.Kind]
			v.Label("session-datagram:live-id:" + sub)
			if !j.silent("session-datagram:live-id:"+sub, fmt.Sprintf("%d %s datagram(s) of the live session from %v", c.N, sub, src)) {
				return
			}
		default:
			for i := 0; i < c.N; i++ {
				b := vlib.Fill(c.Seed+uint64(i), c.Len)
				b[0] = typ
				if len(b) >= HeaderLen+SessionIDLen {
					copy(b[HeaderLen:], sid[:])
				}
				inject(b)
			}
			c19Settle()
			which := map[bool]string{true: "live-id", false: "unknown-id"}[c.Class == "session-live"]
			v.Labelf("session-datagram:%s:type-%#x", which, typ)
			if !j.silent("session-datagram:"+which, fmt.Sprintf("%d datagram(s) type %#x of %d bytes carrying %s %x from %v", c.N, typ, c.Len, which, sid, src)) {
				return
			}
		}
	default:
		return "unknown class " + c.Class
	}

	// the server must still be a working hidden server (a dead server is trivially silent)
	setMode("pass")
	pc, _ := env.NewClient(c19AddrLiveness, c19HiddenClientConfig(0, false))
	clients = append(clients, pc)
	err := c19Handshake(pc, 5*time.Second)
	c19Settle()
	answered, ok := j.atMostOneResponse("fresh-request", "a fresh valid request (closing probe)", c19AddrLiveness)
	if !ok {
		return
	}
	if !answered || err != nil {
		v.Label("closing-honest-request:unanswered(not-judged)")
		v.Note = fmt.Sprintf("closing probe: answered %v, client err %v", answered, err)
	}
	v.Labelf("server-certs:%d", c.Certs)
	if c.Live {
		v.Label("with-live-session")
	}
	return ""
}

// c19RequestRegion names the field of a hidden request that holds offset off (layout of writePQClientRequestHidden).
func c19RequestRegion(off, total int) string {
	certs := total - c19MinHiddenLen
	switch {
	case off < HeaderLen:
		return "header"
	case off < HeaderLen+KemKeyLen:
		return "client-kem-key"
	case off < HeaderLen+KemKeyLen+KemCtLen:
		return "kem-ciphertext"
	case off < HeaderLen+KemKeyLen+KemCtLen+certs:
		return "certificates"
	case off < HeaderLen+KemKeyLen+KemCtLen+certs+MacLen:
		return "tag"
	case off < HeaderLen+KemKeyLen+KemCtLen+certs+MacLen+TimestampLen:
		return "timestamp"
	}
	return "mac"
}

func c19HiddenRun(t *testing.T) func(c c19HiddenCase, v *vlib.Verdict) {
	return func(c c19HiddenCase, v *vlib.Verdict) {
		if !c19HiddenValid(c) {
			v.Discard = true
			return
		}
		if sig := c19HiddenNormalize(&c); sig != "" {
			v.Label("redirected-away-from-open-finding:" + sig)
		}
		var future []byte
		if c.Class == "future" {
			future = c19MakeRequest(t, c.DelayMs, c19HiddenClientConfig(c.Target, false))
			if future == nil {
				t.Errorf("VERIF-MACHINERY C19 hidden: could not produce a future-stamped request")
				return
			}
		}
		var mach string
		res := vlib.Bubble(t, 60*time.Second, func() { mach = c19Hidden(c, v, future) })
		if !c19BubbleVerdict(res, v) {
			return
		}
		if mach != "" {
			t.Errorf("VERIF-MACHINERY C19 hidden: %s (case %+v)", mach, c)
		}
	}
}

// TestVerifC19HiddenSweep enumerates the probe classes with their edge parameters.
func TestVerifC19HiddenSweep(t *testing.T) {
	run := c19HiddenRun(t)
	if vlib.ReplayEnumerated(t, "C19", run) {
		return
	}
	L := c19SelfTestHidden(t)
	rec := vlib.Open(t, "C19")
	idx := 0
	emit := func(c c19HiddenCase) bool {
		idx++
		if !rec.Mine(idx) || !c19HiddenValid(c) {
			return true
		}
		probe := c
		if sig := c19HiddenNormalize(&probe); sig != "" {
			rec.Excluded(sig)
		}
		rec.Persist(c)
		return vlib.Each(t, rec, c, run)
	}
	both := []bool{false, true}
	th := vlib.Thorough()
	// honest requests to every certificate
	for certs := 1; certs <= 3; certs++ {
		for target := 0; target < certs; target++ {
			for _, live := range both {
				if !emit(c19HiddenCase{Certs: certs, Target: target, Live: live, Class: "honest"}) {
					return
				}
			}
		}
	}
	// valid discoverable messages
	for certs := 1; certs <= 2; certs++ {
		for _, live := range both {
			for _, src := range []int{0, 1, 2} {
				if src == 1 && !live {
					continue
				}
				for typ := -1; typ < 5; typ++ {
					if !emit(c19HiddenCase{Certs: certs, Live: live, Class: "discoverable", Type: typ, Src: src}) {
						return
					}
				}
				if !emit(c19HiddenCase{Certs: certs, Live: live, Class: "own-cookie-ack", Src: src}) {
					return
				}
			}
		}
	}
	// junk by first byte and length
	types := []int{0x00, 0x01, 0x02, 0x03, 0x04, 0x05, 0x06, 0x07, 0x08, 0x09, 0x0a, 0x10, 0x11, 0x18, 0x20, 0x80, 0xff}
	lens := []int{1, 3, 4, 5, 7, 8, 11, 12, 47, 48, 100, PQHelloLen, c19AckLen, c19MinHiddenLen - 1, c19MinHiddenLen, c19MinHiddenLen + 1, L - 1, L, L + 1, 2500}
	for _, typ := range types {
		for _, ln := range lens {
			for kind := 0; kind <= 1; kind++ {
				if kind == 1 && (typ != int(MessageTypeClientRequestHidden) || ln < c19MinHiddenLen) {
					continue
				}
				for certs := 1; certs <= 2; certs++ {
					if certs == 2 && !th && ln != 4 && ln != 48 && ln != L {
						continue
					}
					if !emit(c19HiddenCase{Certs: certs, Class: "junk", N: 1, Type: typ, Len: ln, Kind: kind, Seed: uint64(typ*4001 + ln)}) {
						return
					}
				}
			}
		}
	}
	// session datagrams
	for _, typ := range []int{0x10, 0x80, 0x20, 0x00} {
		for _, ln := range []int{4, 5, 7, 8, 12, 20, 47, 48, 49, 64, 1000} {
			for _, live := range both {
				for _, src := range []int{0, 1} {
					if src == 1 && !live {
						continue
					}
					if !emit(c19HiddenCase{Certs: 1, Live: live, Class: "session-unknown", N: 2, Type: typ, Len: ln, Src: src, Seed: uint64(typ*977 + ln)}) {
						return
					}
					if live && !emit(c19HiddenCase{Certs: 1 + ln%2, Live: true, Class: "session-live", N: 2, Type: typ, Len: ln, Src: src, Seed: uint64(typ*977 + ln)}) {
						return
					}
				}
			}
		}
	}
	for _, src := range []int{0, 1} {
		for _, n := range []int{1, 3} {
			if !emit(c19HiddenCase{Certs: 1, Live: true, Class: "session-live", Kind: 1, N: n, Len: 40, Src: src, Seed: 7}) {
				return
			}
		}
		for _, off := range []int{0, 1, 4, 7, 8, 15, 16, 20, 40, 55, 56} {
			for _, m := range []int{0x01, 0x80} {
				if !emit(c19HiddenCase{Certs: 1, Live: true, Class: "session-live", Kind: 2, N: 1, Len: 40, Off: off, Mask: m, Src: src, Seed: 9}) {
					return
				}
			}
		}
	}
	// requests under a wrong KEM key
	for certs := 1; certs <= 2; certs++ {
		for _, live := range both {
			if !emit(c19HiddenCase{Certs: certs, Live: live, Class: "wrong-kem"}) {
				return
			}
		}
	}
	// altered valid requests
	edges := map[int]bool{}
	certsLen := L - c19MinHiddenLen
	for _, e := range []int{0, HeaderLen, HeaderLen + KemKeyLen, HeaderLen + KemKeyLen + KemCtLen, HeaderLen + KemKeyLen + KemCtLen + certsLen,
		L - MacLen - TimestampLen - MacLen, L - MacLen - TimestampLen, L - MacLen, L} {
		for d := -2; d <= 2; d++ {
			if e+d >= 0 && e+d < L {
				edges[e+d] = true
			}
		}
	}
	step, tstep := 16, 64
	masks := []int{0x01, 0x80}
	if th {
		step, tstep = 1, 8
		masks = []int{0x01, 0x80, 0xff}
	}
	for _, target := range []int{0, 1} {
		for off := 0; off < L; off++ {
			if off%step != 0 && !edges[off] {
				continue
			}
			if target == 1 && !edges[off] && !th {
				continue
			}
			for _, m := range masks {
				if !emit(c19HiddenCase{Certs: 1 + target, Target: target, Class: "altered", Kind: 0, Off: off, Mask: m}) {
					return
				}
			}
		}
	}
	for ln := 0; ln < L; ln++ {
		if ln%tstep != 0 && !edges[ln] {
			continue
		}
		if !emit(c19HiddenCase{Certs: 1, Class: "altered", Kind: 1, Len: ln}) {
			return
		}
	}
	for _, ext := range []int{1, 2, 16, 64, 500} {
		for _, live := range both {
			if !emit(c19HiddenCase{Certs: 1, Live: live, Class: "altered", Kind: 2, Len: ext, Seed: uint64(ext)}) {
				return
			}
		}
	}
	// delayed, replayed late, stamped in the future
	delays := []int64{0, 1000, 4000, 5000, 5500, 6000, 6001, 7000, 10000, 60000, 600000, 3600000}
	for _, d := range delays {
		for _, live := range both {
			for certs := 1; certs <= 2; certs++ {
				if !emit(c19HiddenCase{Certs: certs, Live: live, Class: "delayed", DelayMs: d}) {
					return
				}
			}
			for _, src := range []int{2, 0, 1} {
				if src == 1 && !live {
					continue
				}
				if !emit(c19HiddenCase{Certs: 1, Live: live, Class: "replayed-late", DelayMs: d, Src: src}) {
					return
				}
			}
		}
	}
	for _, d := range []int64{1000, 5000, 6000, 7000, 60000, 3600000, 86400000 * 365} {
		for _, live := range both {
			for _, src := range []int{2, 0} {
				if !emit(c19HiddenCase{Certs: 1, Live: live, Class: "future", DelayMs: d, Src: src}) {
					return
				}
			}
		}
	}
	// correctly keyed requests whose time stamp field carries a chosen value: landmarks of the 64-bit field, absolute and
	// relative to the server's clock, and the window edges; each also replayed after the window from another address
	type stamp struct {
		abs   uint64
		now   bool
		delta int64
	}
	var stamps []stamp
	for _, d := range []int64{0, -1, 1, -4, 4, -5, 5, -6, 6, -7, 7, -3600, 3600} {
		stamps = append(stamps, stamp{0, true, d})
	}
	for _, a := range []uint64{0, 1, 1 << 31, 1 << 32, 1 << 62, 1<<63 - 1, 1 << 63, 1<<63 + 1, ^uint64(0), ^uint64(0) - 1, 1<<32 - 1, 1<<31 - 1} {
		stamps = append(stamps, stamp{a, false, 0})
	}
	for _, b := range []uint{8, 16, 31, 32, 33, 48, 62, 63} {
		// the clock with one higher bit added or taken away (mod 2^64): fresh only to a reader that drops or misreads that bit
		for _, d := range []int64{-6, -5, -1, 0, 1, 6} {
			if (b == 63 || b == 32 || b == 31) || d == 0 || d == -1 {
				stamps = append(stamps, stamp{1 << b, true, d}, stamp{-(1 << b), true, d})
			}
		}
	}
	for _, st := range stamps {
		for _, live := range both {
			if live && !th && st.delta != 0 && st.delta != -1 && st.delta != 6 {
				continue
			}
			for _, src := range []int{0, 2} {
				if !emit(c19HiddenCase{Certs: 1, Live: live, Class: "stamped", Src: src, TsAbs: st.abs, TsNow: st.now, TsDelta: st.delta, DelayMs: 7000, Kind: 1}) {
					return
				}
			}
		}
		if !emit(c19HiddenCase{Certs: 2, Target: 1, Class: "stamped", TsAbs: st.abs, TsNow: st.now, TsDelta: st.delta}) {
			return
		}
	}
	// the header of such a request as a dimension: every other version byte (neighbours of the protocol's version, the
	// ends and the middle of the byte, each single bit) and length fields that do not frame the message, the tags being
	// computed over the header as sent; stamped inside and outside the window, replayed from another address
	versions := []int{0, 2, 3, 0x7f, 0x80, 0x81, 0xfe, 0xff, 5, 9, 0x11, 0x21, 0x41}
	for _, ver := range versions {
		for _, d := range []int64{0, -1, -5, -7, 6} {
			if d != 0 && !th && ver != 0 && ver != 2 && ver != 0xff {
				continue
			}
			for _, live := range both {
				if live && d != 0 {
					continue
				}
				for _, src := range []int{0, 2} {
					if !emit(c19HiddenCase{Certs: 1, Live: live, Class: "stamped", Src: src, TsNow: true, TsDelta: d, VerXor: ver ^ int(Version), DelayMs: 2000, Kind: 1}) {
						return
					}
				}
			}
			if !emit(c19HiddenCase{Certs: 2, Target: 1, Class: "stamped", TsNow: true, TsDelta: d, VerXor: ver ^ int(Version)}) {
				return
			}
		}
	}
	encL := L - c19MinHiddenLen // length of the encrypted certificates of an honest request
	for _, ld := range []int{-1, 1, -2, 16, -16, 255, 256, -256, 0x7fff, 0x8000, 0xffff, -encL, 1 - encL} {
		for _, pad := range both {
			if pad && (ld <= 0 || ld > 2000) {
				continue
			}
			for _, ver := range []int{int(Version), 0} {
				for _, certs := range []int{1, 2} {
					if !emit(c19HiddenCase{Certs: certs, Class: "stamped", Src: 2, TsNow: true, LenDelta: ld, Pad: pad, VerXor: ver ^ int(Version), DelayMs: 1000}) {
						return
					}
				}
			}
		}
	}
	// accepted requests (stamped inside the window) replayed from the same / another address at the delays of the replayed-late class
	for _, d := range []int64{0, -1, -4, -5} {
		for _, delay := range delays {
			if delay == 0 {
				continue
			}
			for kind := 0; kind <= 1; kind++ {
				if !emit(c19HiddenCase{Certs: 1, Class: "stamped", Src: 2 * kind, TsNow: true, TsDelta: d, DelayMs: delay, Kind: kind}) {
					return
				}
			}
		}
	}
	rec.Extra("enumerated", "honest requests per certificate; the five discoverable messages (each / all) x source x live session; acknowledgement under the server's own cookie key; junk: 17 first bytes x 20 lengths (+ hidden-request-shaped); session datagrams unknown/live id x 4 types x 11 lengths, replayed and altered authentic datagrams; wrong KEM key; valid request xor (quick: every 16th offset + all field edges, thorough: every offset) / truncated / extended; delayed and replayed-late at 12 delays from 0 to 1 h; future-stamped at 7 offsets up to 1 year; harness-written requests with a chosen 64-bit time stamp: clock +/- {0,1,4,5,6,7,3600} s, 0, 1, 2^31(-1), 2^32(-1), 2^62, 2^63-1, 2^63, 2^63+1, 2^64-2, 2^64-1, clock +/- 2^b (b in 8,16,31,32,33,48,62,63) with offsets -6..+6, each replayed 7 s later from another address; harness-written requests under another header (tags over the header as sent): version byte {0,2,3,5,9,0x11,0x21,0x41,0x7f,0x80,0x81,0xfe,0xff} x stamp clock+{0,-1,-5,-7,6} x source x 1/2 certificates, length field off by {+-1,-2,+-16,255,+-256,0x7fff,0x8000,0xffff,...} with and without padding to the announced size; requests stamped clock-{0,1,4,5} replayed at the 11 delays from the same / another address")
	rec.Extra("honest_request_bytes", L)
}

func c19HiddenGen(L int) func(t *rapid.T) c19HiddenCase {
	return func(t *rapid.T) c19HiddenCase {
		c := c19HiddenCase{Certs: rapid.SampledFrom([]int{1, 1, 2, 3}).Draw(t, "certs")}
		c.Target = rapid.IntRange(0, c.Certs-1).Draw(t, "target")
		c.Live = rapid.Bool().Draw(t, "live")
		c.Class = rapid.SampledFrom([]string{"junk", "junk", "junk", "discoverable", "own-cookie-ack", "session-unknown", "session-live", "session-live",
			"wrong-kem", "altered", "altered", "altered", "delayed", "delayed", "replayed-late", "replayed-late", "future", "honest",
			"stamped", "stamped", "stamped", "stamped"}).Draw(t, "class")
		c.Src = rapid.IntRange(0, 2).Draw(t, "src")
		c.Seed = rapid.Uint64().Draw(t, "seed")
		delay := func() int64 {
			switch rapid.IntRange(0, 5).Draw(t, "delayZone") {
			case 0:
				return int64(rapid.IntRange(0, 5000).Draw(t, "delayInside"))
			case 1:
				return int64(rapid.IntRange(5001, 5999).Draw(t, "delayEdge"))
			case 2:
				return int64(rapid.IntRange(6000, 8000).Draw(t, "delayJustBeyond"))
			default:
				return int64(rapid.IntRange(6000, 3600000).Draw(t, "delayBeyond"))
			}
		}
		switch c.Class {
		case "junk":
			c.N = rapid.IntRange(1, 8).Draw(t, "n")
			c.Type = rapid.SampledFrom([]int{-1, -1, 0, 1, 2, 3, 4, 5, 8, 8, 8, 9, 0x10, 0x80, 0x18, 0xff}).Draw(t, "type")
			c.Len = rapid.SampledFrom([]int{rapid.IntRange(1, 64).Draw(t, "lenSmall"), rapid.IntRange(1, 3000).Draw(t, "lenAny"), L + rapid.IntRange(-2, 2).Draw(t, "lenAroundRequest")}).Draw(t, "len")
			if c.Type == int(MessageTypeClientRequestHidden) {
				c.Kind = rapid.IntRange(0, 1).Draw(t, "shaped")
			}
		case "discoverable":
			c.Type = rapid.IntRange(-1, 4).Draw(t, "msg")
		case "session-unknown", "session-live":
			c.N = rapid.IntRange(1, 8).Draw(t, "n")
			c.Type = rapid.SampledFrom([]int{0x10, 0x10, 0x80, 0x80, 0x20, 0x00, 0x07, 0xf0}).Draw(t, "type")
			c.Len = rapid.SampledFrom([]int{rapid.IntRange(1, 64).Draw(t, "lenSmall"), rapid.IntRange(48, 2000).Draw(t, "lenAny")}).Draw(t, "len")
			if c.Class == "session-live" {
				c.Live = true
				c.Kind = rapid.SampledFrom([]int{0, 0, 1, 2}).Draw(t, "kind")
				c.Off = rapid.IntRange(0, 600).Draw(t, "off")
				c.Mask = rapid.IntRange(1, 255).Draw(t, "mask")
			}
		case "altered":
			c.Kind = rapid.SampledFrom([]int{0, 0, 0, 1, 2}).Draw(t, "kind")
			switch c.Kind {
			case 0:
				// field first, then the offset inside it (layout of writePQClientRequestHidden)
				starts := []int{0, HeaderLen, HeaderLen + KemKeyLen, HeaderLen + KemKeyLen + KemCtLen, L - MacLen - TimestampLen - MacLen, L - TimestampLen - MacLen, L - MacLen, L}
				f := rapid.IntRange(0, len(starts)-2).Draw(t, "field")
				if starts[f+1] > starts[f] {
					c.Off = rapid.IntRange(starts[f], starts[f+1]-1).Draw(t, "off")
				}
				c.Mask = rapid.IntRange(1, 255).Draw(t, "mask")
			case 1:
				c.Len = rapid.IntRange(0, L-1).Draw(t, "len")
			case 2:
				c.Len = rapid.IntRange(1, 600).Draw(t, "ext")
			}
		case "delayed", "replayed-late":
			c.DelayMs = delay()
		case "future":
			c.DelayMs = 1000 + delay()
		case "stamped":
			// a landmark of the 64-bit field, optionally riding on the server's clock, plus a small or a wide offset
			switch rapid.IntRange(0, 4).Draw(t, "stampBase") {
			case 0: // around the clock itself
				c.TsNow = true
			case 1: // a power of two (or its negative) alone or added to the clock
				c.TsAbs = uint64(1) << uint(rapid.SampledFrom([]int{8, 16, 24, 31, 32, 33, 40, 48, 56, 62, 63, 63, 63}).Draw(t, "stampBit"))
				if rapid.Bool().Draw(t, "stampNegated") {
					c.TsAbs = -c.TsAbs
				}
				c.TsNow = rapid.Bool().Draw(t, "stampOnClock")
			case 2: // the ends of the field
				c.TsAbs = rapid.SampledFrom([]uint64{0, 1, ^uint64(0), 1<<63 - 1, 1 << 63}).Draw(t, "stampEnd")
			case 3: // anything
				c.TsAbs = rapid.Uint64().Draw(t, "stampAny")
				c.TsNow = rapid.Bool().Draw(t, "stampOnClock")
			case 4: // the clock read as a narrower or signed quantity: high half arbitrary, low half riding on the clock
				c.TsAbs = uint64(rapid.Uint32().Draw(t, "stampHigh")) << 32
				c.TsNow = true
			}
			switch rapid.IntRange(0, 2).Draw(t, "stampOffset") {
			case 0:
				c.TsDelta = int64(rapid.IntRange(-8, 8).Draw(t, "stampDeltaSmall"))
			case 1:
				c.TsDelta = int64(rapid.IntRange(-1000000000, 1000000000).Draw(t, "stampDeltaWide"))
			}
			if rapid.Bool().Draw(t, "stampReplayed") {
				c.DelayMs = delay()
				c.Kind = rapid.IntRange(0, 1).Draw(t, "replayFrom")
			}
			// the header as sent: one time in three not the protocol's
			switch rapid.IntRange(0, 8).Draw(t, "header") {
			case 0:
				c.VerXor = int(Version) ^ rapid.SampledFrom([]int{0, 0, 2, 3, 0x7f, 0x80, 0xfe, 0xff}).Draw(t, "version")
			case 1:
				c.VerXor = rapid.IntRange(1, 255).Draw(t, "versionXor")
			case 2:
				c.LenDelta = rapid.SampledFrom([]int{-1, 1, -2, 2, 16, 255, 256, -256, 0x8000, 0xffff, rapid.IntRange(-0xffff, 0xffff).Draw(t, "lenDeltaAny")}).Draw(t, "lenDelta")
				c.Pad = c.LenDelta > 0 && c.LenDelta <= 2000 && rapid.Bool().Draw(t, "pad")
				if rapid.IntRange(0, 3).Draw(t, "alsoVersion") == 0 {
					c.VerXor = rapid.IntRange(1, 255).Draw(t, "versionXor")
				}
			}
			if c.VerXor != 0 || c.LenDelta != 0 {
				// malformed requests matter most when everything else about them is acceptable
				if rapid.IntRange(0, 2).Draw(t, "headerFreshStamp") > 0 {
					c.TsAbs, c.TsNow, c.TsDelta = 0, true, -int64(rapid.IntRange(0, int(c19HiddenWindowSec)).Draw(t, "freshBy"))
				}
			}
		}
		return c
	}
}

func TestVerifC19HiddenRandom(t *testing.T) {
	L := c19SelfTestHidden(t)
	vlib.Drive(t, vlib.Spec[c19HiddenCase]{ID: "C19", Quick: 2500, Gen: c19HiddenGen(L), Run: c19HiddenRun(t)})
}

// ---------------------------------------------------------------------------
// self-test of the harness: the fully honest presentations must be accepted / answered (machinery failure otherwise)

var (
	c19SelfCookieOnce sync.Once
	c19SelfCookieErr  string
	c19SelfHiddenOnce sync.Once
	c19SelfHiddenErr  string
	c19SelfLen        int
)

// c19SelfTestCookie: unaltered acknowledgements (real client, harness-driven, built by the forging helper, presented 60 s
// later) are accepted.
func c19SelfTestCookie(t *testing.T) {
	c19SelfCookieOnce.Do(func() {
		c19StartRealClock()
		// region-altered keys: every longer region gives a well-formed key that differs from K only inside the region
		raw, _ := c19NewKEM().Public.MarshalBinary()
		for off := 0; off+4 <= KemKeyLen; off++ {
			for _, n := range []int{4, 5, 32, 33} {
				if off+n > KemKeyLen {
					continue
				}
				alt := c19AlterKey(raw, c19CookieCase{Key: 4, KOff: off, KLen: n, KSeed: uint64(off*7 + n)})
				d0, d1 := c19FirstLastDiff(raw, alt)
				if _, err := keys.ParseKEMPublicKeyFromBytes(alt); err != nil || d0 < off || d1 >= off+n {
					c19SelfCookieErr = fmt.Sprintf("C19 key alteration: region %d..%d gives a key that differs in %d..%d, parser: %v", off, off+n-1, d0, d1, err)
					return
				}
			}
		}
		for _, c := range []c19CookieCase{{}, {Forge: true}, {Real: true}, {DelayS: 60}, {AgeS: 130}, {AgeS: 250, DelayS: 100}, {Real: true, AgeS: 370, DelayS: 60},
			// traffic around a rotation instant that does not lie between minting and presentation changes nothing
			{DelayS: 60, Busy: []c19Busy{{Rot: 1, LeadMs: 500, SendMs: 800, Burst: 3}}}} {
			var out c19CookieOut
			res := vlib.Bubble(t, 60*time.Second, func() { out = c19Cookie(c) })
			if res.Panic != "" || res.Hung || out.mach != "" || !out.serverAuth || !out.entry {
				c19SelfCookieErr = fmt.Sprintf("C19:valid-cookie-rejected: honest acknowledgement %+v: panic %q hung %v machinery %q ServerAuth %v handshake entry %v", c, res.Panic, res.Hung, out.mach, out.serverAuth, out.entry)
				return
			}
		}
	})
	if c19SelfCookieErr != "" {
		t.Fatalf("VERIF-MACHINERY %s", c19SelfCookieErr)
	}
}

// c19SelfTestHidden: an honest hidden handshake is answered exactly once (one and two certificates); returns the
// length of an honest request.
func c19SelfTestHidden(t *testing.T) int {
	c19SelfHiddenOnce.Do(func() {
		for certs := 1; certs <= 2; certs++ {
			var v vlib.Verdict
			var mach string
			c19LastReqLen.Store(0)
			res := vlib.Bubble(t, 60*time.Second, func() { mach = c19Hidden(c19HiddenCase{Certs: certs, Class: "honest"}, &v, nil) })
			if res.Panic != "" || res.Hung || mach != "" || !v.OK() || c19LastReqLen.Load() < c19MinHiddenLen {
				c19SelfHiddenErr = fmt.Sprintf("honest hidden handshake against a %d-certificate server is not answered exactly once: panic %q hung %v machinery %q violations %v labels %v", certs, res.Panic, res.Hung, mach, v.Violations, v.Labels)
				return
			}
			c19SelfLen = int(c19LastReqLen.Load())
		}
		if req := c19MakeRequest(t, 7000, c19HiddenClientConfig(0, false)); len(req) != c19SelfLen {
			c19SelfHiddenErr = fmt.Sprintf("future-stamped request has %d bytes, honest request %d", len(req), c19SelfLen)
			return
		}
		// the harness's copy of the request writer: stamped with the server's own clock (and 5 s before it) it is answered
		// by the real server, one and two certificates, and has the length of an honest request
		for _, c := range []c19HiddenCase{{Certs: 1, Class: "stamped", TsNow: true}, {Certs: 2, Target: 1, Class: "stamped", TsNow: true, TsDelta: -int64(c19HiddenWindowSec)}} {
			var v vlib.Verdict
			var mach string
			res := vlib.Bubble(t, 60*time.Second, func() { mach = c19Hidden(c, &v, nil) })
			answered := false
			for _, l := range v.Labels {
				answered = answered || l == "stamped:fresh:first:answered=true"
			}
			if res.Panic != "" || res.Hung || mach != "" || !v.OK() || !answered {
				c19SelfHiddenErr = fmt.Sprintf("a request written by the harness's copy of writePQClientRequestHidden and stamped inside the window (%+v) is not answered exactly once: panic %q hung %v machinery %q violations %v labels %v", c, res.Panic, res.Hung, mach, v.Violations, v.Labels)
				return
			}
		}
		if req, err := c19StampedRequest(c19HiddenClientConfig(0, false), 0); err != nil || len(req) != c19SelfLen {
			c19SelfHiddenErr = fmt.Sprintf("harness-written request has %d bytes (err %v), honest request %d", len(req), err, c19SelfLen)
		}
	})
	if c19SelfHiddenErr != "" {
		t.Fatalf("VERIF-MACHINERY %s", c19SelfHiddenErr)
	}
	return c19SelfLen
}
