//go:build go1.25

package transport

// C10, real-time stress unit — the clause "keeps running ... still completes a subsequent honest handshake" against
// interleavings that a synctest bubble cannot produce: inside a bubble the clock only advances when every goroutine is
// blocked, so a timer callback of the server (the handshake-timeout callback that takes the table lock for writing)
// never overlaps the receive loop. Here a real Server runs on simnet OUTSIDE any bubble, with a handshake timeout of a
// few milliseconds, while several goroutines of unauthenticated strangers (a) walk through ClientHello / ClientAck from
// ever new addresses and abandon the handshake - every one leaves a timeout callback behind - and (b) stream
// transport / control-typed datagrams that name established, pending (announced in a ServerAuth) and unknown session
// ids. Afterwards the usual oracle: an honest handshake from a fresh address completes and carries a message each way,
// the sessions established before the flood still do, Close returns.
//
// Soundness under load: slowness is never a violation. A failed or unfinished oracle only makes the case a candidate;
// the verdict "wedged" needs PROOF from goroutine dumps taken over a span longer than every timeout used here: the
// same goroutine of the server's receive loop (or the caller of Server.Close) waits for a sync.Mutex / sync.RWMutex at
// the same frames in every dump, and no goroutine is runnable (or sleeping) inside the code under test in the dumps.
// Anything else is counted inconclusive.

import (
	"crypto/rand"
	"flag"
	"fmt"
	"net"
	"regexp"
	"runtime"
	"sort"
	"strconv"
	"strings"
	"sync"
	"sync/atomic"
	"testing"
	"time"

	"pgregory.net/rapid"

	"hop.computer/hop/certs"
	"hop.computer/hop/keys"
	"verif.local/vlib"
	"verif.local/vlib/simnet"
)

type c10StressCase struct {
	Certs     int    `json:"certs"`              // 1: ServerConfig.Certificate; 2,3: virtual hosts (discoverable server)
	Fallback  bool   `json:"fallback,omitempty"` // the last virtual host has pattern "*"
	TimeoutMs int    `json:"timeoutMs"`          // the server's HandshakeTimeout while the strangers are at work
	Sessions  int    `json:"sessions"`           // honest sessions established before
	HS        int    `json:"hs"`                 // goroutines that abandon handshakes after the ClientAck
	TR        int    `json:"tr"`                 // goroutines that send session-typed datagrams
	Rounds    int    `json:"rounds"`             // abandoned handshakes per goroutine
	Burst     int    `json:"burst"`              // session-typed datagrams between two pauses
	PauseUs   int    `json:"pauseUs"`            // pause (0: yield only)
	Close     bool   `json:"close,omitempty"`    // Server.Close is called in the middle of the flood (the oracle is then: Close returns)
	Seed      uint64 `json:"seed"`
}

const (
	c10StressCalm     = 3 * time.Second // the server's HandshakeTimeout while HONEST handshakes run (baseline and final probe)
	c10StressPatience = 6 * time.Second // every deadline the oracle of this unit uses
	c10StressSpan     = 8 * time.Second // a wedge must persist over this span (longer than every timeout above)
	c10StressReply    = 250 * time.Millisecond
)

var (
	c10StressEphOnce sync.Once
	c10StressEph     *keys.KEMKeyPair
	c10StressWedged  *vlib.Verdict // a proven wedge leaves blocked goroutines behind: later cases of this process repeat the verdict
)

// c10HalfHandshake sends ClientHello and ClientAck (valid cookie, the given server name) from sock's current address and
// returns the session id the server announces in clear in its ServerAuth. Nobody authenticates.
func c10HalfHandshake(sock *simnet.Sock, eph *keys.KEMKeyPair, name certs.Name, patience time.Duration, buf []byte) (sid SessionID, step string) {
	hs := new(HandshakeState)
	hs.duplex.InitializeEmpty()
	hs.duplex.Absorb([]byte(PostQuantumProtocolName))
	hs.dh = new(dhState)
	hs.dh.ephemeral.Generate()
	hs.kem = new(kemState)
	hs.kem.ephemeral = *eph
	hs.certVerify = &VerifyConfig{Name: name}
	n, err := writePQClientHello(hs, buf)
	if err != nil {
		return sid, "hello-not-written"
	}
	sock.WriteMsgUDP(buf[:n], nil, vSrvAddr)
	var m int
	for {
		sock.SetReadDeadline(time.Now().Add(patience))
		m, _, _, _, err = sock.ReadMsgUDP(buf, nil)
		if err != nil {
			return sid, "no-server-hello"
		}
		if m > 0 && buf[0] == byte(MessageTypeServerHello) {
			break
		}
	}
	if _, err := readPQServerHello(hs, buf[:m]); err != nil {
		return sid, "bad-server-hello"
	}
	hs.RekeyFromSqueeze(PostQuantumProtocolName)
	n, err = hs.writePQClientAck(buf)
	if err != nil {
		return sid, "ack-not-written"
	}
	sock.WriteMsgUDP(buf[:n], nil, vSrvAddr)
	for {
		sock.SetReadDeadline(time.Now().Add(patience))
		m, _, _, _, err = sock.ReadMsgUDP(buf, nil)
		if err != nil {
			return sid, "no-server-auth"
		}
		if m >= HeaderLen+SessionIDLen && buf[0] == byte(MessageTypeServerAuth) {
			break
		}
	}
	copy(sid[:], buf[HeaderLen:HeaderLen+SessionIDLen])
	return sid, ""
}

// ---------------------------------------------------------------------------
// goroutine dumps

type c10Goroutine struct {
	ID     int
	State  string   // wait reason / scheduler state
	Frames []string // function names, innermost first
	Hop    []string // the frames inside hop.computer/hop that are not harness code (package path trimmed)
}

var c10GoroutineHead = regexp.MustCompile(`^goroutine (\d+)[^\[]*\[([^\]]*)\]:`)

func c10ParseDump(dump string) []c10Goroutine {
	var out []c10Goroutine
	for _, blk := range strings.Split(dump, "\n\n") {
		lines := strings.Split(strings.TrimSpace(blk), "\n")
		m := c10GoroutineHead.FindStringSubmatch(lines[0])
		if m == nil {
			continue
		}
		g := c10Goroutine{}
		g.ID, _ = strconv.Atoi(m[1])
		g.State = strings.TrimSpace(strings.SplitN(m[2], ",", 2)[0])
		for i := 1; i < len(lines); i++ {
			l := lines[i]
			if strings.HasPrefix(l, "\t") || strings.HasPrefix(l, "created by ") || strings.HasPrefix(l, "...") {
				continue
			}
			fn := l
			if k := strings.LastIndex(fn, "("); k > 0 {
				fn = fn[:k]
			}
			g.Frames = append(g.Frames, fn)
			if strings.HasPrefix(fn, "hop.computer/hop/") && !(i+1 < len(lines) && strings.Contains(lines[i+1], "zz_verif")) {
				g.Hop = append(g.Hop, strings.TrimPrefix(fn, "hop.computer/hop/"))
			}
		}
		out = append(out, g)
	}
	return out
}

// mutexWait: the goroutine waits for a sync.Mutex / sync.RWMutex.
func (g c10Goroutine) mutexWait() bool {
	switch g.State {
	case "sync.Mutex.Lock", "sync.RWMutex.RLock", "sync.RWMutex.Lock", "semacquire":
	default:
		return false
	}
	for _, f := range g.Frames {
		if strings.Contains(f, "sync.(*RWMutex).") || strings.Contains(f, "sync.(*Mutex).") {
			return true
		}
	}
	return false
}

// serverCritical: the server's receive loop, or a caller of Server.Close.
func (g c10Goroutine) serverCritical() bool {
	for _, f := range g.Hop {
		if f == "transport.(*Server).Serve.func1" || f == "transport.(*Server).Close" {
			return true
		}
	}
	return false
}

// active: inside the code under test and able to go on by itself (so it might still release what others wait for).
func (g c10Goroutine) active() bool {
	if len(g.Hop) == 0 {
		return false
	}
	switch g.State {
	case "running", "runnable", "syscall", "sleep", "preempted", "copystack":
		return true
	}
	return false
}

// c10CriticalWaiters: id -> frames of the receive-loop / Close goroutines that wait for a mutex.
func c10CriticalWaiters(gs []c10Goroutine) map[int]string {
	out := map[int]string{}
	for _, g := range gs {
		if g.serverCritical() && g.mutexWait() {
			out[g.ID] = strings.Join(g.Frames, "<")
		}
	}
	return out
}

// c10ProveWedge takes goroutine dumps over span. proven: the same receive-loop / Close goroutine waits for a mutex at
// the same frames in EVERY dump, and in (nearly) all dumps no goroutine is active inside the code under test.
func c10ProveWedge(span time.Duration) (frames []string, proven bool, note string) {
	var stuck map[int]string
	var waiters []string
	quiet, total := 0, 0
	start := time.Now()
	for {
		gs := c10ParseDump(vlib.AllStacks())
		cur := c10CriticalWaiters(gs)
		if stuck == nil {
			stuck = cur
		} else {
			for id, fr := range stuck {
				if cur[id] != fr {
					delete(stuck, id)
				}
			}
		}
		if len(stuck) == 0 {
			return nil, false, fmt.Sprintf("no goroutine of the server's receive loop / Close waits for a mutex throughout (dump %d)", total+1)
		}
		total++
		act := false
		for _, g := range gs {
			if g.active() {
				act = true
			}
		}
		if !act {
			quiet++
			seen := map[string]bool{}
			waiters = waiters[:0]
			for _, g := range gs {
				if g.mutexWait() && len(g.Hop) > 0 && !seen[g.Hop[0]] {
					seen[g.Hop[0]] = true
					waiters = append(waiters, g.Hop[0])
				}
			}
			sort.Strings(waiters)
		}
		if time.Since(start) >= span {
			break
		}
		time.Sleep(span / 8)
	}
	if quiet < 3 || quiet*3 < total*2 {
		return nil, false, fmt.Sprintf("goroutines were active inside the code under test in %d of %d dumps", total-quiet, total)
	}
	return waiters, true, ""
}

// ---------------------------------------------------------------------------
// one case

func c10StressAddr(g, i int) *net.UDPAddr {
	return simnet.Addr(fmt.Sprintf("10.%d.%d.%d", 20+g, 1+(i/250)%250, 1+i%250), 1024+i%60000)
}

type c10StressRT struct {
	c       c10StressCase
	env     *vEnv
	mu      sync.Mutex
	handles map[SessionID]*Handle
	clients []*Client
	socks   []*simnet.Sock
}

func (r *c10StressRT) acceptLoop(done chan struct{}) {
	defer close(done)
	for {
		h, err := r.env.Srv.Accept()
		if err != nil || h == nil {
			return
		}
		r.mu.Lock()
		r.handles[h.ss.sessionID] = h
		r.mu.Unlock()
	}
}

// setTimeout changes the server's HandshakeTimeout. The field is only read by setHandshakeState, under s.m (write lock).
func (r *c10StressRT) setTimeout(d time.Duration) {
	r.env.Srv.m.Lock()
	r.env.Srv.config.HandshakeTimeout = d
	r.env.Srv.m.Unlock()
}

func (r *c10StressRT) establish(addr *net.UDPAddr, host int, second bool) (*c10Sess, error) {
	cfg := c10ClientConfig(false, host, second)
	cfg.HSTimeout = c10StressPatience
	cli, sock := r.env.NewClient(addr, cfg)
	r.mu.Lock()
	r.clients = append(r.clients, cli)
	r.socks = append(r.socks, sock)
	r.mu.Unlock()
	if err := cli.Handshake(); err != nil {
		return nil, fmt.Errorf("client handshake: %v", err)
	}
	s := &c10Sess{cli: cli, id: cli.ss.sessionID, addr: addr}
	for end := time.Now().Add(c10StressPatience); s.h == nil && time.Now().Before(end); {
		r.mu.Lock()
		s.h = r.handles[s.id]
		r.mu.Unlock()
		if s.h == nil {
			time.Sleep(time.Millisecond)
		}
	}
	if s.h == nil {
		return nil, fmt.Errorf("server did not offer session %x through Accept", s.id)
	}
	return s, nil
}

func c10StressProbe(s *c10Sess, seed uint64) error {
	buf := make([]byte, 256)
	m1 := vlib.Fill(seed, 20+int(seed%13))
	if err := s.cli.WriteMsg(m1); err != nil {
		return fmt.Errorf("client WriteMsg: %v", err)
	}
	s.h.SetReadDeadline(time.Now().Add(c10StressPatience))
	n, err := s.h.ReadMsg(buf)
	if err != nil {
		return fmt.Errorf("server ReadMsg: %v", err)
	}
	if string(buf[:n]) != string(m1) {
		return fmt.Errorf("server read %x, client wrote %x", buf[:n], m1)
	}
	m2 := vlib.Fill(seed+1, 24+int(seed%7))
	if err := s.h.WriteMsg(m2); err != nil {
		return fmt.Errorf("server WriteMsg: %v", err)
	}
	s.cli.SetReadDeadline(time.Now().Add(c10StressPatience))
	n, err = s.cli.ReadMsg(buf)
	if err != nil {
		return fmt.Errorf("client ReadMsg: %v", err)
	}
	if string(buf[:n]) != string(m2) {
		return fmt.Errorf("client read %x, server wrote %x", buf[:n], m2)
	}
	return nil
}

func c10StressRun(c c10StressCase, v *vlib.Verdict) {
	if c10StressWedged != nil {
		*v = *c10StressWedged
		return
	}
	c10Hosts()
	c10StressEphOnce.Do(func() {
		k, err := keys.GenerateKEMKeyPair(rand.Reader)
		vMust(err)
		c10StressEph = k
	})
	cfg := c10ServerConfig(c10Cfg{Certs: c.Certs, Fallback: c.Fallback})
	cfg.HandshakeTimeout = c10StressCalm
	r := &c10StressRT{c: c, handles: map[SessionID]*Handle{}}
	r.env = vStartServer(cfg)
	r.env.Net.LogCap = 0
	acceptDone := make(chan struct{})
	go r.acceptLoop(acceptDone)
	cleanup := func() { // (only on paths where the server is known to be responsive)
		r.mu.Lock()
		clients, socks := r.clients, r.socks
		r.mu.Unlock()
		for _, cl := range clients {
			cl.Close()
		}
		for _, s := range socks {
			s.Close()
		}
		r.env.Stop()
		<-acceptDone
	}

	// honest sessions before the flood
	var sess []*c10Sess
	hostOf := func(i int) int { return i % max(1, c.Certs) }
	for i := 0; i < c.Sessions; i++ {
		s, err := r.establish(c10CliAddr(i), hostOf(i), i%2 == 1)
		if err == nil {
			err = c10StressProbe(s, uint64(100+i))
		}
		if err != nil {
			v.Inconclusive = fmt.Sprintf("honest baseline before the flood failed (session %d): %v", i, err)
			cleanup()
			return
		}
		sess = append(sess, s)
	}
	r.setTimeout(time.Duration(c.TimeoutMs) * time.Millisecond)

	// the flood
	var (
		stop, closing   atomic.Bool
		pend            [64]atomic.Uint32
		pendN           atomic.Uint32
		abandoned, sent atomic.Int64
		noReply         atomic.Int64
		hsWG, trWG      sync.WaitGroup
		closeDone       = make(chan struct{})
		closeOnce       sync.Once
	)
	shortOpen := c10Open(c10SigSrvShort)
	deadline := time.Now().Add(10 * time.Second) // bounds the work, decides nothing
	name := certs.RawStringName(c10Hosts()[0].Name)
	for g := 0; g < c.HS; g++ {
		hsWG.Add(1)
		go func(g int) {
			defer hsWG.Done()
			sock := r.env.Net.Dial(c10StressAddr(g, 0), vSrvAddr)
			defer sock.Close()
			buf := make([]byte, 4096)
			fails := 0
			for i := 0; i < c.Rounds && !stop.Load() && time.Now().Before(deadline); i++ {
				if c.Close && g == 0 && i == c.Rounds/2 {
					closeOnce.Do(func() {
						closing.Store(true)
						go func() { r.env.Srv.Close(); close(closeDone) }()
					})
				}
				sock.Rebind(c10StressAddr(g, i))
				patience := c10StressReply
				if closing.Load() {
					patience = 20 * time.Millisecond
				}
				sid, step := c10HalfHandshake(sock, c10StressEph, name, patience, buf)
				if step != "" {
					noReply.Add(1)
					if fails++; fails >= 4 {
						return // nobody answers any more: the oracle decides what that means
					}
					continue
				}
				fails = 0
				abandoned.Add(1)
				pend[pendN.Add(1)%uint32(len(pend))].Store(uint32(sid[0])<<24 | uint32(sid[1])<<16 | uint32(sid[2])<<8 | uint32(sid[3]))
			}
		}(g)
	}
	for g := 0; g < c.TR; g++ {
		trWG.Add(1)
		go func(g int) {
			defer trWG.Done()
			src := c10EvilAddr(1 + g)
			zero := [KeyLen]byte{}
			for n := 0; !stop.Load(); n++ {
				var id SessionID
				kind := n % 3
				switch {
				case kind == 0 && len(sess) > 0:
					id = sess[(n/3)%len(sess)].id
				case kind == 1 && pendN.Load() > 0:
					x := pend[(pendN.Load()-uint32(n/3)%4)%uint32(len(pend))].Load()
					id = SessionID{byte(x >> 24), byte(x >> 16), byte(x >> 8), byte(x)}
				default:
					kind = 2
					copy(id[:], vlib.Fill(c.Seed+uint64(g)<<32+uint64(n), 4))
				}
				ty := byte(MessageTypeTransport)
				switch {
				case n%8 == 3:
					ty = byte(MessageTypeControl)
				case n%32 == 5:
					ty = 0x11
				}
				var data []byte
				if n%32 == 7 {
					// correctly sealed under a key anybody can compute
					tmp := &SessionState{sessionID: id, count: uint64(n)}
					data, _ = tmp.sealPacketLocked(MessageType(ty), []byte{byte(ControlMessageClose)}, &zero)
				} else {
					body := []int{40, 0, 64, 8, 48, 100}[n%6]
					if shortOpen && kind != 2 && body < 40 {
						body = 40
					}
					data = append([]byte{ty, 0, 0, 0, id[0], id[1], id[2], id[3]}, vlib.Fill(c.Seed^uint64(n), body)...)
				}
				from := src
				if kind == 0 && n%5 == 0 {
					from = sess[(n/3)%len(sess)].addr
				}
				for r.env.SrvSock.Backlog() > 512 && !stop.Load() {
					runtime.Gosched() // back-pressure instead of drops: the strangers' handshake datagrams share the queue
				}
				r.env.Net.Inject(from, vSrvAddr, data)
				sent.Add(1)
				if (n+1)%max(1, c.Burst) == 0 {
					if c.PauseUs > 0 {
						time.Sleep(time.Duration(c.PauseUs) * time.Microsecond)
					} else {
						runtime.Gosched()
					}
				}
			}
		}(g)
	}
	hsWG.Wait()
	stop.Store(true)
	trWG.Wait()
	v.Labelf("abandoned-handshakes:%s", c10Bucket(int(abandoned.Load())))
	v.Labelf("session-typed-datagrams:%s", c10Bucket(int(sent.Load())))
	if noReply.Load() > 0 && !c.Close {
		v.Label("some-half-handshakes-unanswered")
	}

	// oracle
	result := make(chan string, 1)
	go func() {
		if c.Close {
			closeOnce.Do(func() { go func() { r.env.Srv.Close(); close(closeDone) }() })
			<-closeDone
			cleanup()
			result <- ""
			return
		}
		r.setTimeout(c10StressCalm)
		var s *c10Sess
		var err error
		for try := 0; try < 3 && s == nil; try++ {
			s, err = r.establish(simnet.Addr("10.9.9.9", 49990+try), hostOf(int(c.Seed%3)), true)
		}
		if err == nil {
			err = c10StressProbe(s, 9001)
		}
		if err != nil {
			result <- "an honest handshake from a fresh address does not complete / carry a message each way: " + err.Error()
			return
		}
		for i, s := range sess {
			if err := c10StressProbe(s, uint64(500+i)); err != nil {
				result <- fmt.Sprintf("session %d (%x, established before the flood) no longer carries a message each way: %v", i, s.id, err)
				return
			}
		}
		cleanup()
		result <- ""
	}()
	// A wedged receive loop is usually visible at once: look at the goroutines twice a second instead of waiting for the
	// oracle's deadlines. Whatever raises the suspicion, only c10ProveWedge decides.
	failure := ""
	var frames []string
	tick := time.NewTicker(500 * time.Millisecond)
	defer tick.Stop()
	limit := time.After(10 * c10StressPatience)
	suspicious := 0
	for failure == "" {
		select {
		case res := <-result:
			if res == "" {
				v.NonTrivial = abandoned.Load() >= 20 && sent.Load() >= 1000
				if c.Close {
					v.Label("close-during-the-flood")
				}
				return
			}
			failure = res
		case <-tick.C:
			if len(c10CriticalWaiters(c10ParseDump(vlib.AllStacks()))) == 0 {
				suspicious = 0
			} else if suspicious++; suspicious >= 2 {
				suspicious = 0
				if fr, proven, _ := c10ProveWedge(c10StressSpan); proven {
					failure, frames = "the server's receive loop (or the caller of Close) waits for a mutex for good", fr
				}
			}
		case <-limit:
			failure = fmt.Sprintf("the oracle (honest handshake, probes, Close) did not finish within %v", 10*c10StressPatience)
		}
	}
	if frames == nil {
		fr, proven, note := c10ProveWedge(c10StressSpan)
		if !proven {
			v.Inconclusive = "real-time stress: " + failure + "; no wedge proven (" + note + ")"
			return
		}
		frames = fr
	}
	flag.Set("rapid.shrinktime", "1ms") // every further evaluation costs many seconds and inherits blocked goroutines
	v.Failf("C10:endpoint-wedged:"+fmt.Sprint(frames)+":real-time-stress",
		"after %d abandoned handshakes (HandshakeTimeout %d ms) interleaved with %d transport/control-typed datagrams from %d+%d goroutines: %s; goroutine dumps over %v show the receive loop / Close waiting for a mutex at the same frames throughout while nothing is runnable inside the code under test; mutex waiters: %v",
		abandoned.Load(), c.TimeoutMs, sent.Load(), c.HS, c.TR, failure, c10StressSpan, frames)
	w := *v
	c10StressWedged = &w
}

func c10Bucket(n int) string {
	switch {
	case n == 0:
		return "0"
	case n < 20:
		return "1-19"
	case n < 200:
		return "20-199"
	case n < 2000:
		return "200-1999"
	case n < 20000:
		return "2000-19999"
	}
	return "20000+"
}

func c10StressGen(t *rapid.T) c10StressCase {
	c := c10StressCase{}
	c.Certs = c10W[int](t, "certs", 1, 3, 2, 1, 3, 1)
	if c.Certs >= 2 {
		c.Fallback = rapid.Bool().Draw(t, "fallback")
	}
	c.TimeoutMs = c10W[int](t, "timeoutMs", 1, 3, 2, 2, 3, 1, 5, 2, 10, 1)
	c.Sessions = rapid.IntRange(1, 2).Draw(t, "sessions")
	c.HS = rapid.IntRange(1, 3).Draw(t, "hs")
	c.TR = rapid.IntRange(1, 4).Draw(t, "tr")
	c.Rounds = c10W[int](t, "rounds", 150, 1, 300, 2, 600, 1) / c.HS
	c.Burst = c10W[int](t, "burst", 1, 1, 8, 2, 64, 2)
	c.PauseUs = c10W[int](t, "pauseUs", 0, 3, 20, 1, 200, 1)
	c.Close = rapid.IntRange(0, 5).Draw(t, "close") == 0
	c.Seed = rapid.Uint64Range(1, 1<<40).Draw(t, "seed")
	return c
}

func TestVerifC10Stress(t *testing.T) {
	vGetWorld()
	// self-test of the dump parser (the wedge proof rests on it): a goroutine parked on a mutex must be recognised
	var mu sync.Mutex
	mu.Lock()
	parked := make(chan struct{})
	go func() { close(parked); mu.Lock(); mu.Unlock() }()
	<-parked
	ok := false
	for i := 0; i < 200 && !ok; i++ {
		time.Sleep(5 * time.Millisecond)
		for _, g := range c10ParseDump(vlib.AllStacks()) {
			if g.mutexWait() && len(g.Frames) > 0 && strings.Contains(strings.Join(g.Frames, " "), "TestVerifC10Stress") {
				ok = true
			}
		}
	}
	mu.Unlock()
	if !ok {
		t.Fatalf("VERIF-MACHINERY C10 stress: the goroutine-dump parser does not recognise a goroutine that waits for a mutex")
	}
	vlib.Drive(t, vlib.Spec[c10StressCase]{ID: "C10", Quick: 12, Gen: c10StressGen, Run: c10StressRun})
}
