//go:build go1.25

package transport

// C14 (server part) — the same generated probe histories as in zz_verif_c14_test.go / zz_verif_c14s_test.go, but sent as
// datagrams to a real serving Server that holds an established session (real handshake over vlib/simnet inside a
// synctest bubble): every probe is a packet sealed with the client's real session keys and a chosen counter, genuine or
// with one bit after the counter flipped, and arrives FROM A DRAWN SOURCE ADDRESS (the handshake address, the same host
// with another port, two other hosts, the same host in the other byte form of its address; all in the three address
// families of the fixtures). It passes through the server's real read loop and Server.handleSessionMessage (roaming
// branch included); the application reads the session's Handle with ReadMsg.
//
// Oracle (the property statement; "accepted" = authenticated and accepted): a probe is handed to the application iff it
// is genuine and fresh by the reference filter over the counters of the packets accepted so far - from whatever address
// it and the earlier packets came (the statement speaks of the sequence of counters of the session; nothing in it or in
// the documentation makes the filter's memory depend on the path a packet took).

import (
	"encoding/binary"
	"fmt"
	"net"
	"sort"
	"sync"
	"testing"
	"testing/synctest"
	"time"

	"pgregory.net/rapid"
	"verif.local/vlib"
	"verif.local/vlib/simnet"
)

type c14vCase struct {
	Fam    int     `json:"fam"`    // address family of the fixtures (see vSetFamily)
	Hidden bool    `json:"hidden"` // hidden-mode handshake
	Burst  int     `json:"burst"`  // probes arrive in bursts of this many datagrams before the application's reads are looked at
	Ops    []c14Op `json:"ops"`
	Src    []int   `json:"src"` // per probe: index of the source address (c14vAddrs)
}

const c14vNAddr = 5

var c14vAddrNames = []string{"handshake-address", "same-host-other-port", "second-host", "third-host", "same-host-other-address-form"}

// c14vAddrs builds the source addresses in the current family. Index 0 is where the handshake came from.
func c14vAddrs() []*net.UDPAddr {
	alt := &net.UDPAddr{Port: vCliAddr.Port}
	switch v4 := vCliAddr.IP.To4(); {
	case v4 != nil && len(vCliAddr.IP) == net.IPv4len:
		alt.IP = vCliAddr.IP.To16() // the 16-byte IPv4-mapped form of the same host
	case v4 != nil:
		alt.IP = v4 // the 4-byte form of the same host
	default:
		alt.IP = simnet.Addr("10.0.0.9", 1).IP // IPv6: another host, same port
	}
	return []*net.UDPAddr{vCliAddr, {IP: vCliAddr.IP, Port: vCliAddr.Port + 2}, vCli2Addr, vEvilAddr, alt}
}

type c14vStep struct {
	seq     uint64
	genuine bool
	dup     bool   // the counter had been accepted before (by the reference filter)
	top     uint64 // reference top when the probe was sent
	want    bool
	src     int
	payload []byte
}

type c14vScn struct {
	setupErr string
	labels   map[string]bool
	dup      bool
	jump     bool
	forged   bool
	moved    bool // a packet was accepted from another address than the previously accepted one
	dupAfter bool // an already accepted counter was probed after such a move
}

func c14vScenario(c c14vCase, v *vlib.Verdict, s *c14vScn) {
	w := vGetWorld()
	env := vStartServer(w.ServerConfig(c.Hidden))
	defer env.Stop()
	cli, _ := env.NewClient(vCliAddr, w.ClientConfig(c.Hidden, false))
	defer cli.Close()
	if err := cli.Handshake(); err != nil {
		s.setupErr = fmt.Sprintf("honest handshake failed: %v", err)
		return
	}
	h, err := env.Srv.AcceptTimeout(3 * time.Second)
	if err != nil || h == nil {
		s.setupErr = fmt.Sprintf("honest handshake not accepted: %v", err)
		return
	}
	// the application: reads the handle until it is closed
	var mu sync.Mutex
	var got [][]byte
	rdDone := make(chan struct{})
	go func() {
		defer close(rdDone)
		buf := make([]byte, 65535)
		for {
			n, err := h.ReadMsg(buf)
			if err != nil {
				return
			}
			mu.Lock()
			got = append(got, append([]byte(nil), buf[:n]...))
			mu.Unlock()
		}
	}()
	defer func() { h.Close(); <-rdDone }()
	synctest.Wait()
	cli.ss.m.Lock()
	sent := cli.ss.count
	cli.ss.m.Unlock()
	if sent != 0 || len(got) != 0 {
		s.setupErr = "harness: the client sent session packets during the handshake (the reference filter would not start empty)"
		return
	}

	addrs := c14vAddrs()
	m := &c14Model{acc: map[uint64]bool{}}
	var seen []uint64
	var last uint64
	lastAccSrc := 0
	var steps []c14vStep
	for base := 0; base < len(c.Ops); base += c.Burst {
		end := min(base+c.Burst, len(c.Ops))
		var expect []int
		for i := base; i < end; i++ {
			op := c.Ops[i]
			seq := c14Resolve(op, m.top, last, seen)
			last = seq
			payload := append([]byte{byte(i), byte(i >> 8)}, vlib.Fill(seq^uint64(i), int((seq+uint64(i))%4))...)
			cli.ss.m.Lock()
			cli.ss.count = seq
			pkt, err := cli.ss.sealPacketLocked(MessageTypeTransport, payload, cli.ss.writeKey)
			cli.ss.m.Unlock()
			if err != nil {
				s.setupErr = "harness: seal: " + err.Error()
				return
			}
			if !op.Mark {
				pkt[HeaderLen+SessionIDLen+CounterLen+int(seq%uint64(len(payload)+TagLen))] ^= 1 << (seq % 8)
				s.forged = true
			}
			st := c14vStep{seq: seq, genuine: op.Mark, dup: m.acc[seq], top: m.top, src: c.Src[i], payload: payload}
			if st.dup {
				s.dup = true
				if s.moved {
					s.dupAfter = true
				}
			}
			if seq > m.top && (seq>>6) != (m.top>>6) {
				s.jump = true
			}
			st.want = op.Mark && m.accept(seq)
			if st.want {
				m.mark(seq)
				expect = append(expect, i)
				if st.src != lastAccSrc {
					s.moved = true
					s.labels["accepted-from:"+c14vAddrNames[st.src]] = true
				}
				lastAccSrc = st.src
			}
			seen = append(seen, seq)
			steps = append(steps, st)
			und := env.Net.Undeliverable
			env.Net.Inject(addrs[st.src], vSrvAddr, pkt)
			if env.Net.Undeliverable != und {
				s.setupErr = "harness: injected datagram did not reach the server's socket"
				return
			}
		}
		synctest.Wait()
		mu.Lock()
		msgs := got
		got = nil
		mu.Unlock()
		// what the application read in this burst, as step indices
		delivered := map[int]int{}
		for _, p := range msgs {
			idx := -1
			if len(p) >= 2 {
				idx = int(binary.LittleEndian.Uint16(p))
			}
			if idx < base || idx >= end || string(steps[idx].payload) != string(p) {
				v.Failf("C14:server:delivered-something-else", "probes %d..%d: the application read %x, which is not the payload of any probe of this burst", base, end-1, p)
				return
			}
			delivered[idx]++
		}
		wanted := map[int]bool{}
		for _, i := range expect {
			wanted[i] = true
		}
		for i := base; i < end; i++ {
			st := steps[i]
			n := delivered[i]
			if n == 0 && !wanted[i] || n == 1 && wanted[i] {
				continue
			}
			kind := "rejected-fresh"
			switch {
			case n > 0 && !st.genuine:
				kind = "accepted-unauthentic"
			case n > 1:
				kind = "delivered-twice"
			case n > 0 && st.dup:
				kind = "accepted-duplicate"
			case n > 0:
				kind = "accepted-stale"
			}
			v.Failf("C14:server:"+kind, "step %d: packet with counter %d (genuine=%v) from %s [%s] was handed to the application %d time(s); the reference filter over the accepted counters says accept=%v (top=%d, top-seq=%d, accepted before=%v; a packet had been accepted from a changed source address before: %v)", i, st.seq, st.genuine, addrs[st.src], c14vAddrNames[st.src], n, st.want, st.top, int64(st.top-st.seq), st.dup, s.moved)
			return
		}
	}
}

func c14vRun(t *testing.T) func(c c14vCase, v *vlib.Verdict) {
	return func(c c14vCase, v *vlib.Verdict) {
		if len(c.Ops) == 0 || len(c.Ops) > 65535 || len(c.Src) != len(c.Ops) || c.Burst < 1 || c.Burst > 64 || c.Fam < 0 || c.Fam > 2 {
			v.Discard = true
			return
		}
		for _, x := range c.Src {
			if x < 0 || x >= c14vNAddr {
				v.Discard = true
				return
			}
		}
		s := c14vScn{labels: map[string]bool{}}
		defer vSetFamily(vSetFamily(c.Fam))
		res := vlib.Bubble(t, 60*time.Second, func() { c14vScenario(c, v, &s) })
		if res.Hung {
			v.Inconclusive = "bubble hung in real time (C14 server unit)"
			return
		}
		if res.Panic != "" {
			if res.Leak() || res.Deadlock() {
				v.Inconclusive = fmt.Sprintf("goroutines left in the bubble (C14 server unit): %v", vlib.BlockedHopFrames(res.Stacks))
			} else {
				v.Failf(vlib.PanicSig(res.Panic, res.Stacks), "panic: %s", res.Panic)
			}
			return
		}
		if s.setupErr != "" {
			v.Inconclusive = s.setupErr
			return
		}
		if !v.OK() {
			return
		}
		v.NonTrivial = s.dupAfter && s.forged
		v.Label("addresses:" + vFamilyNames[c.Fam%3])
		v.Label(map[bool]string{false: "discoverable", true: "hidden"}[c.Hidden])
		var ls []string
		for l := range s.labels {
			ls = append(ls, l)
		}
		sort.Strings(ls)
		for _, l := range ls {
			v.Label(l)
		}
		if s.moved {
			v.Label("accepted-packet-from-changed-address")
		}
		if s.dupAfter {
			v.Label("duplicate-probe-after-address-change")
		}
		if s.forged {
			v.Label("forged-packets-in-sequence")
		}
		if s.dup {
			v.Label("duplicate-probe")
		}
		if s.jump {
			v.Label("block-jump")
		}
		if c.Burst > 1 {
			v.Label("bursts")
		}
		v.Labelf("len<=%d", bucket(len(c.Ops)))
	}
}

func c14vGen(t *rapid.T) c14vCase {
	c := c14vCase{
		Fam:    rapid.IntRange(0, 2).Draw(t, "fam"),
		Hidden: rapid.IntRange(0, 3).Draw(t, "hidden") == 0,
		Burst:  rapid.SampledFrom([]int{1, 1, 2, 5, 16}).Draw(t, "burst"),
	}
	n := 60
	if rapid.IntRange(0, 4).Draw(t, "long") == 0 {
		n = 400
	}
	// (the length is drawn explicitly: rapid's own slice lengths are strongly biased towards very short slices)
	n = rapid.IntRange(2, n).Draw(t, "len")
	c.Ops = rapid.SliceOfN(c14OpGen(), n, n).Draw(t, "ops")
	cur := 0
	for range c.Ops {
		// the peer mostly stays where it is; now and then the next packet comes from somewhere else (or back)
		if rapid.IntRange(0, 3).Draw(t, "move") == 0 {
			cur = rapid.IntRange(0, c14vNAddr-1).Draw(t, "src")
		}
		c.Src = append(c.Src, cur)
	}
	return c
}

// c14vBaseline: an honest in-order history from the handshake address, then from a second address, must be delivered
// completely (checks the harness's sealing, injection and reading, in every family and both handshake modes).
func c14vBaseline(t *testing.T) {
	run := c14vRun(t)
	for fam := 0; fam < 3; fam++ {
		for _, hidden := range []bool{false, true} {
			c := c14vCase{Fam: fam, Hidden: hidden, Burst: 1 + fam}
			for i := 0; i < 12; i++ {
				c.Ops = append(c.Ops, c14Op{Kind: 0, D: uint64(i), Mark: true})
				c.Src = append(c.Src, (i/4)%c14vNAddr)
			}
			var v vlib.Verdict
			run(c, &v)
			if !v.OK() || v.Inconclusive != "" || v.Discard {
				t.Fatalf("VERIF-MACHINERY C14 server baseline (family %d hidden=%v): honest in-order history does not pass: %+v %s", fam, hidden, v.Violations, v.Inconclusive)
			}
		}
	}
}

func TestVerifC14Server(t *testing.T) {
	c14vBaseline(t)
	vlib.Drive(t, vlib.Spec[c14vCase]{ID: "C14", Quick: 6000, Gen: c14vGen, Run: c14vRun(t)})
}
