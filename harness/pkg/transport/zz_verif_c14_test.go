package transport

// C14 — the replay filter accepts each fresh counter once and nothing stale.
// Oracle: a set + max model written from the property statement.

import (
	"fmt"
	"testing"

	"pgregory.net/rapid"
	"verif.local/vlib"
)

const c14Window = 448

type c14Op struct {
	Kind int    `json:"k"` // 0 absolute, 1 top+D, 2 top-D, 3 revisit index D, 4 last+D, 5 last-D
	D    uint64 `json:"d"`
	Mark bool   `json:"m"` // check-and-mark (true) or check only (AEAD failure)
}

type c14Case struct {
	Ops []c14Op `json:"ops"`
}

type c14Model struct {
	acc map[uint64]bool
	top uint64
}

func (m *c14Model) accept(seq uint64) bool {
	if m.acc[seq] {
		return false
	}
	return seq > m.top || m.top-seq <= c14Window
}

func (m *c14Model) mark(seq uint64) {
	m.acc[seq] = true
	if seq > m.top {
		m.top = seq
	}
}

const c14Max = uint64(1)<<63 - 1

func c14Resolve(op c14Op, top, last uint64, seen []uint64) uint64 {
	var s uint64
	switch op.Kind {
	case 0:
		s = op.D
	case 1:
		s = top + op.D
	case 2:
		if op.D > top {
			s = 0
		} else {
			s = top - op.D
		}
	case 3:
		if len(seen) == 0 {
			s = op.D
		} else {
			s = seen[int(op.D%uint64(len(seen)))]
		}
	case 4:
		s = last + op.D
	case 5:
		if op.D > last {
			s = 0
		} else {
			s = last - op.D
		}
	}
	if s > c14Max || (op.Kind == 1 || op.Kind == 4) && s < op.D { // overflow: stay below 2^63
		s = c14Max
	}
	return s
}

func c14Run(c c14Case, v *vlib.Verdict) {
	var w SlidingWindow
	m := &c14Model{acc: map[uint64]bool{}}
	var seen []uint64
	var last uint64
	dup, jump, stale, edge := false, false, false, false
	for i, op := range c.Ops {
		seq := c14Resolve(op, m.top, last, seen)
		last = seq
		want := m.accept(seq)
		got := w.Check(seq)
		if m.acc[seq] {
			dup = true
		}
		if seq > m.top && (seq>>6) != (m.top>>6) {
			jump = true
		}
		if seq < m.top && m.top-seq > c14Window {
			stale = true
		}
		if seq < m.top && (m.top-seq == c14Window || m.top-seq == c14Window+1) {
			edge = true
		}
		if got != want {
			kind := "rejected-fresh"
			if got {
				if m.acc[seq] {
					kind = "accepted-duplicate"
				} else {
					kind = "accepted-stale"
				}
			}
			v.Failf("C14:"+kind, "step %d: Check(%d)=%v, model says %v (top=%d, top-seq=%d, seen=%v)", i, seq, got, want, m.top, int64(m.top-seq), m.acc[seq])
			return
		}
		if got && op.Mark {
			w.Mark(seq)
			m.mark(seq)
		}
		seen = append(seen, seq)
	}
	v.NonTrivial = dup && jump
	if dup {
		v.Label("duplicate-probe")
	}
	if jump {
		v.Label("block-jump")
	}
	if stale {
		v.Label("stale-probe")
	}
	if edge {
		v.Label("window-edge-probe")
	}
	v.Labelf("len<=%d", bucket(len(c.Ops)))
}

func bucket(n int) int {
	for _, b := range []int{1, 3, 10, 30, 100, 300, 1000, 3000, 10000, 100000} {
		if n <= b {
			return b
		}
	}
	return 1 << 30
}

var c14Edges = []uint64{0, 1, 2, 62, 63, 64, 65, 127, 128, 447, 448, 449, 450, 511, 512, 513, 575, 576, 959, 960, 961, 1023, 1024, 1 << 32, 1<<32 + 448, 1 << 62, 1<<62 + 449}

// c14OpGen draws one probe of a history (shared by the filter, session and server units).
func c14OpGen() *rapid.Generator[c14Op] {
	deltas := []uint64{0, 1, 2, 3, 63, 64, 65, 446, 447, 448, 449, 450, 511, 512, 513, 1000, 64*5 - 1, 64*5 + 1, 64*8 - 1, 64*8 + 1, 64 * 9, 1 << 20, 1 << 40}
	return rapid.Custom(func(t *rapid.T) c14Op {
		k := rapid.IntRange(0, 5).Draw(t, "kind")
		var d uint64
		switch k {
		case 0:
			if rapid.Bool().Draw(t, "edgeAbs") {
				d = rapid.SampledFrom(c14Edges).Draw(t, "abs")
			} else {
				d = rapid.Uint64Range(0, 5000).Draw(t, "absSmall")
			}
		case 3:
			d = rapid.Uint64Range(0, 1<<20).Draw(t, "idx")
		default:
			switch rapid.IntRange(0, 2).Draw(t, "dk") {
			case 0:
				d = rapid.SampledFrom(deltas).Draw(t, "delta")
			case 1:
				d = rapid.Uint64Range(0, 70).Draw(t, "small")
			default:
				d = rapid.Uint64Range(0, 1200).Draw(t, "mid")
			}
		}
		return c14Op{Kind: k, D: d, Mark: rapid.IntRange(0, 9).Draw(t, "mark") != 0}
	})
}

func c14Gen(t *rapid.T) c14Case {
	n := 3000
	if rapid.IntRange(0, 3).Draw(t, "short") != 0 {
		n = 200
	}
	return c14Case{Ops: rapid.SliceOfN(c14OpGen(), 1, n).Draw(t, "ops")}
}

func TestVerifC14Random(t *testing.T) {
	vlib.Drive(t, vlib.Spec[c14Case]{ID: "C14", Quick: 20000, Gen: c14Gen, Run: c14Run})
}

// TestVerifC14Exhaustive enumerates every check-and-mark history of length <= 3
// over an edge alphabet (absolute counters around block, window and ring edges).
func TestVerifC14Exhaustive(t *testing.T) {
	if vlib.ReplayEnumerated(t, "C14", c14Run) {
		return
	}
	rec := vlib.Open(t, "C14")
	alpha := []uint64{0, 1, 63, 64, 65, 127, 128, 191, 192, 447, 448, 449, 450, 511, 512, 513, 575, 576, 577, 639, 640, 895, 896, 897, 959, 960, 961, 1023, 1024, 1025, 1087, 1088, 1471, 1472, 1473, 1535, 1536, 2047, 2048, 4096}
	idx := 0
	n := len(alpha)
	total := n + n*n + n*n*n
	_ = total
	emit := func(vals ...uint64) bool {
		idx++
		if !rec.Mine(idx) {
			return true
		}
		c := c14Case{}
		for _, x := range vals {
			c.Ops = append(c.Ops, c14Op{Kind: 0, D: x, Mark: true})
		}
		// final probes: re-probe every value and the window edges below the top
		top := uint64(0)
		for _, x := range vals {
			if x > top {
				top = x
			}
		}
		for _, x := range vals {
			c.Ops = append(c.Ops, c14Op{Kind: 0, D: x, Mark: false})
		}
		for _, d := range []uint64{447, 448, 449, 511, 512} {
			c.Ops = append(c.Ops, c14Op{Kind: 2, D: d, Mark: false})
		}
		return vlib.Each(t, rec, c, c14Run)
	}
	for _, a := range alpha {
		if !emit(a) {
			return
		}
		for _, b := range alpha {
			if !emit(a, b) {
				return
			}
			for _, c := range alpha {
				if !emit(a, b, c) {
					return
				}
			}
		}
	}
	rec.SetExhaustive(true)
	rec.Extra("enumerated", fmt.Sprintf("all check-and-mark histories of length<=3 over %d edge counters (%d histories), each followed by re-probes", n, total))
}
