//go:build go1.25

package transport

// C03 — transport channel: authentic, at-most-once, complete and confidential delivery.

import (
	"bytes"
	"encoding/binary"
	"errors"
	"fmt"
	"io"
	"net"
	"os"
	"sync"
	"sync/atomic"
	"testing"
	"time"

	"hop.computer/hop/pkg/verifhook"
	"pgregory.net/rapid"
	"verif.local/vlib"
	"verif.local/vlib/simnet"
)

type c03Write struct {
	Msg  bool   `json:"msg"`  // WriteMsg (true) or Write (false)
	Size int    `json:"size"` // total bytes
	Seed uint64 `json:"seed"`
}

type c03Action struct {
	Dir  int `json:"dir"`  // 0 client->server, 1 server->client
	Idx  int `json:"idx"`  // index of the transport datagram in that direction
	Kind int `json:"kind"` // see c03Kinds
	A    int `json:"a"`
	B    int `json:"b"`
}

var c03Kinds = []string{"drop", "duplicate", "hold", "flip-copy", "truncate-copy", "extend-copy", "reflect-copy", "cross-session-copy", "forged", "flip-in-flight", "late-duplicate"}

type c03Case struct {
	Hidden   bool          `json:"hidden"`
	Two      bool          `json:"two"` // a second session (other client) exists, so cross-session injection is possible
	CliW     [][]c03Write  `json:"cliWriters"` // concurrent writers on the client
	SrvW     [][]c03Write  `json:"srvWriters"`
	Script   []c03Action   `json:"script"`
	Fam      int           `json:"fam,omitempty"` // address family of the fixture addresses (simnet.Family)
	// Yields: schedule for the yield point at the entry of the packet send path (before any lock is taken): the k-th
	// arrival there, counted over all writers of the case, sleeps Yields[k mod len] virtual microseconds (0: no pause).
	// Spreads the interleavings of overlapping Write / WriteMsg calls of concurrent writers.
	Yields []int `json:"yields,omitempty"`
	// NoGap: the writers issue their calls back to back (default: one virtual millisecond between two calls of a writer)
	NoGap bool `json:"noGap,omitempty"`
}

const c03YieldPoint = "transport.Handle.send.enter"

const c03Hdr = 24

// payload: 24-byte header (magic, dir, writer, seq, size, seed) + keyed bytes
// Sizes below the header length (0 = the empty message, 1..23) give header-less keyed bytes: such messages carry no
// identification of their own and are judged by multiset count per reader.
func c03Payload(dir, writer, seq int, w c03Write) []byte {
	n := w.Size
	if n < c03Hdr {
		if n < 0 {
			n = 0
		}
		return append([]byte{}, vlib.Fill(w.Seed^0x5151, n)...)
	}
	b := make([]byte, c03Hdr, n)
	copy(b, "C03>")
	b[4], b[5] = byte(dir), byte(writer)
	binary.BigEndian.PutUint16(b[6:], uint16(seq))
	binary.BigEndian.PutUint32(b[8:], uint32(n))
	binary.BigEndian.PutUint64(b[12:], w.Seed)
	binary.BigEndian.PutUint32(b[20:], 0xC0DEC0DE)
	return append(b, vlib.Fill(w.Seed^0xABCDEF, n-c03Hdr)...)
}

// c03Chunks: the messages a correct transport puts on the wire for one call.
func c03Chunks(w c03Write, b []byte) [][]byte {
	if w.Msg || len(b) <= MaxPlaintextSize {
		return [][]byte{b}
	}
	var out [][]byte
	for i := 0; i < len(b); i += MaxPlaintextSize {
		end := i + MaxPlaintextSize
		if end > len(b) {
			end = len(b)
		}
		out = append(out, b[i:end])
	}
	return out
}

type c03End struct {
	name     string
	conn     MsgConn
	mu       sync.Mutex
	expected map[string]int // hash-free: message bytes -> outstanding count
	optionalEmpty int       // empty messages that MAY arrive (zero-length Write calls): allowed, never demanded
	order    map[int][][]byte // per writer: expected messages in order
	got      [][]byte
	closedEarly bool
}

type c03RunT struct {
	c   c03Case
	v   *vlib.Verdict
	mu  sync.Mutex
}

func (r *c03RunT) fail(sig, f string, a ...any) {
	r.mu.Lock()
	defer r.mu.Unlock()
	if r.v.OK() {
		r.v.Failf(sig, f, a...)
	}
}

func c03Destructive(k int) bool { return k == 0 || k == 2 || k == 9 }

func c03Scenario(c c03Case, v *vlib.Verdict) {
	r := &c03RunT{c: c, v: v}
	w := vGetWorld()
	env := vStartServer(w.ServerConfig(c.Hidden))
	defer env.Stop()
	cli, cliSock := env.NewClient(vCliAddr, w.ClientConfig(c.Hidden, false))
	if err := cli.Handshake(); err != nil {
		v.Failf("C03:sanity:honest-handshake-fails", "honest handshake failed: %v", err)
		return
	}
	defer cli.Close()
	h, err := env.Srv.AcceptTimeout(2 * time.Second)
	if err != nil {
		v.Failf("C03:sanity:honest-handshake-fails", "server did not accept: %v", err)
		return
	}
	var cli2 *Client
	var h2 *Handle
	if c.Two {
		cli2, _ = env.NewClient(vCli2Addr, w.ClientConfig(c.Hidden, true))
		if err := cli2.Handshake(); err == nil {
			h2, _ = env.Srv.AcceptTimeout(2 * time.Second)
			defer cli2.Close()
		}
	}
	_ = cliSock
	// ---- adversary
	var amu sync.Mutex
	idx := [2]int{}
	actions := map[[2]int][]c03Action{}
	destructive := false
	for _, a := range c.Script {
		actions[[2]int{a.Dir, a.Idx}] = append(actions[[2]int{a.Dir, a.Idx}], a)
		if c03Destructive(a.Kind) {
			destructive = true
		}
	}
	type heldT struct {
		d       simnet.Datagram
		release int
		dir     int
	}
	var held []heldT
	sid1 := cli.ss.sessionID
	env.Net.Filter = func(d simnet.Datagram) []simnet.Datagram {
		if len(d.Data) == 0 || (d.Data[0] != byte(MessageTypeTransport) && d.Data[0] != byte(MessageTypeControl)) {
			return []simnet.Datagram{d}
		}
		dir := -1
		switch {
		case simnetEq(d.Src, vCliAddr) && simnetEq(d.Dst, vSrvAddr):
			dir = 0
		case simnetEq(d.Src, vSrvAddr) && simnetEq(d.Dst, vCliAddr):
			dir = 1
		default:
			return []simnet.Datagram{d}
		}
		amu.Lock()
		k := idx[dir]
		idx[dir]++
		acts := actions[[2]int{dir, k}]
		// release held datagrams that are due
		var out []simnet.Datagram
		var keep []heldT
		for _, hd := range held {
			if hd.dir == dir && k >= hd.release {
				out = append(out, hd.d)
			} else {
				keep = append(keep, hd)
			}
		}
		held = keep
		amu.Unlock()
		deliverOrig := true
		clone := func() simnet.Datagram {
			x := d
			x.Data = append([]byte(nil), d.Data...)
			return x
		}
		var pre, post []simnet.Datagram
		for _, a := range acts {
			switch a.Kind {
			case 0:
				deliverOrig = false
			case 1:
				for i := 0; i < 1+a.A%3; i++ {
					post = append(post, clone())
				}
			case 2:
				deliverOrig = false
				amu.Lock()
				held = append(held, heldT{d: clone(), release: k + 1 + a.A, dir: dir})
				amu.Unlock()
			case 10:
				// the original is delivered now, a verbatim copy again after a.A further datagrams of this direction
				// (replay at a distance: inside, at the edge of, or beyond the replay window)
				amu.Lock()
				held = append(held, heldT{d: clone(), release: k + 1 + a.A, dir: dir})
				amu.Unlock()
			case 3, 9:
				x := clone()
				L := len(x.Data)
				var lo, hi int
				switch a.A % 6 {
				case 0:
					lo, hi = 0, 1
				case 1:
					lo, hi = 1, 4
				case 2:
					lo, hi = 4, 8
				case 3:
					lo, hi = 8, 16
				case 4:
					lo, hi = 16, L-TagLen
				default:
					lo, hi = L-TagLen, L
				}
				if hi > L {
					hi = L
				}
				if hi <= lo {
					lo, hi = 0, 1
				}
				bit := a.B % (8 * (hi - lo))
				x.Data[lo+bit/8] ^= 1 << (bit % 8)
				if a.Kind == 9 {
					deliverOrig = false
					post = append(post, x)
				} else {
					pre = append(pre, x)
				}
			case 4:
				x := clone()
				n := a.A % (len(x.Data) + 1)
				if n < 48 && vlib.KnownOpen("panic:transport.(*Server).handleSessionMessage:makeslice") {
					n = 48
				}
				x.Data = x.Data[:n]
				pre = append(pre, x)
			case 5:
				x := clone()
				x.Data = append(x.Data, vlib.Fill(uint64(a.A), 1+a.A%40)...)
				pre = append(pre, x)
			case 6:
				x := clone()
				x.Src, x.Dst = d.Dst, d.Src
				pre = append(pre, x)
			case 7:
				if h2 != nil {
					x := clone()
					if dir == 0 {
						x.Src = vCli2Addr
					} else {
						x.Dst = vCli2Addr
					}
					if a.A%2 == 0 && cli2 != nil && len(x.Data) >= 8 {
						copy(x.Data[4:8], cli2.ss.sessionID[:])
					}
					// delivered AFTER the original: an unmodified genuine datagram that arrives first from another
					// address is, by design, a roaming client (the peer address legitimately moves, see C15)
					post = append(post, x)
				}
			case 8:
				x := clone()
				body := vlib.Fill(uint64(a.B), 1+a.B%64)
				typ := byte(MessageTypeControl)
				if a.A%3 == 1 {
					typ = 0x20
				} else if a.A%3 == 2 {
					typ = byte(MessageTypeTransport)
				}
				pkt := append([]byte{typ, 0, 0, 0}, sid1[:]...)
				pkt = binary.BigEndian.AppendUint64(pkt, uint64(1000+a.B))
				pkt = append(pkt, body...)
				pkt = append(pkt, vlib.Fill(uint64(a.B)+7, TagLen)...)
				x.Data = pkt
				if a.A%2 == 0 {
					x.Src = vEvilAddr
				}
				pre = append(pre, x)
			}
		}
		out = append(out, pre...)
		if deliverOrig {
			out = append(out, d)
		}
		out = append(out, post...)
		return out
	}
	// ---- yield schedule of the writers
	if len(c.Yields) > 0 {
		var hits atomic.Int64
		verifhook.Set(func(point string) {
			if point != c03YieldPoint {
				return
			}
			k := int(hits.Add(1) - 1)
			if us := c.Yields[k%len(c.Yields)]; us > 0 {
				time.Sleep(time.Duration(us) * time.Microsecond)
			}
		})
		defer verifhook.Set(nil)
	}
	// ---- expected messages, readers, writers
	mk := func(name string, conn MsgConn) *c03End {
		return &c03End{name: name, conn: conn, expected: map[string]int{}, order: map[int][][]byte{}}
	}
	srvEnd, cliEnd := mk("server", h), mk("client", cli)
	type plan struct {
		from   *c03End
		to     *c03End
		dir    int
		writer int
		writes []c03Write
		bufs   [][]byte
	}
	var plans []*plan
	add := func(from, to *c03End, dir int, ws [][]c03Write) {
		for wi, lst := range ws {
			p := &plan{from: from, to: to, dir: dir, writer: wi, writes: lst}
			for si, wr := range lst {
				b := c03Payload(dir, wi, si, wr)
				p.bufs = append(p.bufs, b)
				if wr.Msg && len(b) > MaxPlaintextSize {
					continue // must be refused, nothing expected
				}
				if !wr.Msg && len(b) == 0 {
					// Write of zero bytes: there is no byte to deliver. The implementation sends one empty packet; the
					// statement does not demand it, so an empty message is allowed for it but not required.
					to.optionalEmpty++
					continue
				}
				for _, ch := range c03Chunks(wr, b) {
					to.expected[string(ch)]++
					to.order[wi] = append(to.order[wi], ch)
				}
			}
			plans = append(plans, p)
		}
	}
	add(cliEnd, srvEnd, 0, c.CliW)
	add(srvEnd, cliEnd, 1, c.SrvW)
	stopRead := make(chan struct{})
	var rwg sync.WaitGroup
	reader := func(e *c03End) {
		defer rwg.Done()
		buf := make([]byte, 70000)
		for {
			select {
			case <-stopRead:
				return
			default:
			}
			e.conn.SetReadDeadline(time.Now().Add(500 * time.Millisecond))
			n, err := e.conn.ReadMsg(buf)
			if err != nil {
				if errors.Is(err, os.ErrDeadlineExceeded) {
					continue
				}
				if err == io.EOF || errors.Is(err, net.ErrClosed) {
					e.mu.Lock()
					e.closedEarly = true
					e.mu.Unlock()
				}
				return
			}
			m := append([]byte(nil), buf[:n]...)
			e.mu.Lock()
			e.got = append(e.got, m)
			if e.expected[string(m)] > 0 {
				e.expected[string(m)]--
				e.mu.Unlock()
				continue
			}
			if len(m) == 0 && e.optionalEmpty > 0 {
				e.optionalEmpty--
				e.mu.Unlock()
				continue
			}
			e.mu.Unlock()
			if len(m) >= 4 && string(m[:4]) == "C03?" {
				continue // probe messages are handled below
			}
			kind := "never-written"
			for _, p := range plans {
				for _, b := range p.bufs {
					if bytes.Equal(b, m) || (len(m) > 32 && bytes.Contains(b, m)) {
						if p.to == e {
							kind = "delivered-twice"
						} else if kind == "never-written" {
							kind = "written-on-another-session-or-direction"
						}
					}
				}
			}
			r.fail("C03:reader-got-unauthentic-message:"+kind, "%s read a %d-byte message that is not an outstanding message written to it on this session (%s)", e.name, len(m), kind)
			return
		}
	}
	rwg.Add(2)
	go reader(srvEnd)
	go reader(cliEnd)
	var wwg sync.WaitGroup
	for _, p := range plans {
		wwg.Add(1)
		go func(p *plan) {
			defer wwg.Done()
			for si, wr := range p.writes {
				b := p.bufs[si]
				if wr.Msg {
					err := p.from.conn.WriteMsg(b)
					if len(b) > MaxPlaintextSize {
						if !errors.Is(err, ErrBufOverflow) {
							r.fail("C03:oversize-writemsg-not-refused", "%s: WriteMsg of %d bytes (> MaxPlaintextSize %d) returned %v", p.from.name, len(b), MaxPlaintextSize, err)
						}
					} else if err != nil {
						r.fail("C03:write-fails-on-open-session", "%s: WriteMsg of %d bytes returned %v", p.from.name, len(b), err)
					}
				} else {
					n, err := p.from.conn.Write(b)
					if err != nil || n != len(b) {
						r.fail("C03:write-reports-wrong-count", "%s: Write of %d bytes returned (%d, %v)", p.from.name, len(b), n, err)
					}
				}
				if !r.v.OK() {
					return
				}
				if !c.NoGap {
					time.Sleep(time.Millisecond)
				}
			}
		}(p)
	}
	wwg.Wait()
	time.Sleep(200 * time.Millisecond)
	// flush what the adversary still holds, let it settle
	amu.Lock()
	rest := held
	held = nil
	amu.Unlock()
	env.Net.Filter = nil
	for _, hd := range rest {
		env.Net.Inject(hd.d.Src, hd.d.Dst, hd.d.Data)
	}
	time.Sleep(2 * time.Second)
	// ---- (2) undisturbed: a fresh probe arrives both ways
	probe := func(from MsgConn, to *c03End, tag byte) {
		msg := append([]byte("C03?"), tag)
		msg = append(msg, vlib.Fill(uint64(tag), 40)...)
		if err := from.WriteMsg(msg); err != nil {
			r.fail("C03:session-disturbed:probe-write-fails", "after the adversarial traffic a probe write on the %s side fails: %v", map[byte]string{1: "client", 2: "server"}[tag], err)
			return
		}
		dl := time.Now().Add(3 * time.Second)
		for time.Now().Before(dl) {
			to.mu.Lock()
			for _, m := range to.got {
				if bytes.Equal(m, msg) {
					to.mu.Unlock()
					return
				}
			}
			to.mu.Unlock()
			time.Sleep(50 * time.Millisecond)
		}
		r.fail("C03:session-disturbed:probe-not-delivered", "after the adversarial traffic a fresh probe message to the %s did not arrive (reader closed early: %v)", to.name, to.closedEarly)
	}
	if v.OK() {
		probe(cli, srvEnd, 1)
	}
	if v.OK() {
		probe(h, cliEnd, 2)
	}
	close(stopRead)
	rwg.Wait()
	// ---- (3) completeness when every original datagram was delivered at least once
	if v.OK() && !destructive {
		for _, e := range []*c03End{srvEnd, cliEnd} {
			missing := 0
			var which []string
			for m, n := range e.expected {
				missing += n
				if n > 0 && len(which) < 4 {
					switch {
					case len(m) >= c03Hdr && m[:4] == "C03>":
						which = append(which, fmt.Sprintf("writer %d seq %d size %d", m[5], binary.BigEndian.Uint16([]byte(m[6:8])), len(m)))
					case len(m) < c03Hdr:
						which = append(which, fmt.Sprintf("%d x the %d-byte message", n, len(m)))
					default:
						which = append(which, fmt.Sprintf("a later packet of a multi-packet Write, %d bytes", len(m)))
					}
				}
			}
			if missing > 0 {
				sig := "C03:accepted-write-not-delivered"
				if len(c.Script) > 0 {
					sig = "C03:genuine-datagram-lost-to-unauthentic-traffic"
				}
				v.Failf(sig, "%s: %d written messages/chunks were never delivered although every genuine datagram reached it (script: %d non-destructive actions); missing: %v; got %d messages", e.name, missing, len(c.Script), which, len(e.got))
				break
			}
			// per-writer order on a faithful network with a single writer
			if len(c.Script) == 0 && len(e.order) == 1 {
				var want [][]byte
				for _, lst := range e.order {
					want = lst
				}
				k := 0
				for _, m := range e.got {
					if k < len(want) && bytes.Equal(m, want[k]) {
						k++
					}
				}
				if k != len(want) {
					v.Failf("C03:order-not-preserved-on-faithful-network", "%s: messages of the single writer arrived out of order", e.name)
				}
			}
		}
	}
	// ---- (4) confidentiality: markers never appear on the wire
	if v.OK() {
		var markers [][]byte
		for _, p := range plans {
			for _, b := range p.bufs {
				if len(b) >= c03Hdr+16 {
					markers = append(markers, b[c03Hdr:c03Hdr+16])
				}
				if len(b) >= c03Hdr {
					markers = append(markers, b[:c03Hdr])
				}
			}
		}
		markers = append(markers, []byte("server.verif.test"), []byte("client-one"), w.SrvKey.Public[:], w.CliKey.Public[:])
		if raw, err := w.SrvLeaf.Marshal(); err == nil && len(raw) > 60 {
			markers = append(markers, raw[20:60])
		}
		if raw, err := w.CliLeaf.Marshal(); err == nil && len(raw) > 60 {
			markers = append(markers, raw[20:60])
		}
		for _, d := range env.Net.SentSnapshot() {
			for mi, m := range markers {
				if bytes.Contains(d.Data, m) {
					v.Failf("C03:plaintext-on-the-wire", "datagram %d (type %#x, %d bytes, %v -> %v) contains marker %d in the clear", d.Idx, d.Data[0], len(d.Data), d.Src, d.Dst, mi)
					break
				}
			}
			if !v.OK() {
				break
			}
		}
	}
	// ---- classification
	big := false
	for _, p := range plans {
		for _, b := range p.bufs {
			if len(b) > MaxPlaintextSize {
				big = true
			}
		}
	}
	v.NonTrivial = len(c.Script) > 0 || big
	if big {
		v.Label("write-larger-than-one-packet")
	}
	if len(c.Script) == 0 {
		v.Label("faithful-network")
	} else if destructive {
		v.Label("destructive-script")
	} else {
		v.Label("non-destructive-script")
	}
	for _, a := range c.Script {
		v.Label("action:" + c03Kinds[a.Kind])
	}
	if c.Two {
		v.Label("two-sessions")
	}
	if len(c.CliW) > 1 || len(c.SrvW) > 1 {
		v.Label("concurrent-writers")
	}
	for ei, ws := range [][][]c03Write{c.CliW, c.SrvW} {
		nw := 0 // writers of this end that call Write at least once
		for _, lst := range ws {
			for _, wr := range lst {
				if !wr.Msg {
					nw++
					break
				}
			}
		}
		if nw > 1 {
			v.Label("concurrent-Write-callers:" + []string{"Client.Write", "Handle.Write"}[ei])
		}
	}
	if len(c.Yields) > 0 {
		v.Label("yield-schedule-at-send-entry")
	}
	var nEmpty, nShort int
	for _, p := range plans {
		for _, b := range p.bufs {
			if len(b) == 0 {
				nEmpty++
			} else if len(b) < c03Hdr {
				nShort++
			}
		}
	}
	if nEmpty > 0 {
		v.Label("empty-message")
		if nEmpty > 1 {
			v.Label("several-empty-messages")
		}
	}
	if nShort > 0 {
		v.Label("message-shorter-than-24-bytes")
	}
	for _, ws := range append(append([][]c03Write{}, c.CliW...), c.SrvW...) {
		if len(ws) > 64 {
			v.Label("stream-longer-than-one-window-block")
			break
		}
	}
	if h2 != nil {
		h2.Close()
	}
}

func c03Run(t *testing.T) func(c c03Case, v *vlib.Verdict) {
	return func(c c03Case, v *vlib.Verdict) {
		defer vSetFamily(vSetFamily(c.Fam))
		v.Label("addresses:" + vFamilyNames[c.Fam%3])
		res := vlib.Bubble(t, 90*time.Second, func() { c03Scenario(c, v) })
		if res.Hung {
			v.Inconclusive = "bubble hung in real time (C03)"
			return
		}
		if res.Panic != "" && v.OK() {
			if res.Leak() || res.Deadlock() {
				v.Failf("C03:goroutines-left:"+fmt.Sprint(vlib.BlockedHopFrames(res.Stacks)), "after closing client and server goroutines remain: %v", vlib.BlockedHopFrames(res.Stacks))
			} else {
				v.Failf(vlib.PanicSig(res.Panic, res.Stacks), "panic: %s", res.Panic)
			}
		}
	}
}

// (rapid favours the front of a SampledFrom list: small, empty and multi-packet sizes alternate)
var c03Sizes = []int{c03Hdr, 0, MaxPlaintextSize + 1, 100, 2 * MaxPlaintextSize, 1, MaxPlaintextSize, 1000, 2*MaxPlaintextSize + 1, c03Hdr + 1, MaxPlaintextSize - 1, c03Hdr - 1, 3*MaxPlaintextSize + MaxPlaintextSize/2}

func c03Gen(t *rapid.T) c03Case {
	c := c03Case{Hidden: rapid.Bool().Draw(t, "hidden"), Two: rapid.Bool().Draw(t, "two")}
	c.Fam = rapid.SampledFrom([]int{0, 0, 0, 1, 2}).Draw(t, "fam")
	writers := func(label string) [][]c03Write {
		n := rapid.SampledFrom([]int{1, 1, 1, 2, 3}).Draw(t, label+"n")
		out := make([][]c03Write, n)
		for i := range out {
			out[i] = rapid.SliceOfN(rapid.Custom(func(t *rapid.T) c03Write {
				w := c03Write{Seed: rapid.Uint64().Draw(t, "seed")}
				w.Size = rapid.OneOf(rapid.SampledFrom(c03Sizes), rapid.IntRange(c03Hdr, 3000)).Draw(t, "size")
				// Concurrent writers use Write as well as WriteMsg. A Write of at most MaxPlaintextSize bytes is one packet;
				// a larger one is split into packets that may interleave with those of other writers, which the oracle
				// allows: it compares the multiset of packets-worth of bytes ("every byte accepted ... is delivered"),
				// and demands order only from a single writer.
				w.Msg = rapid.Bool().Draw(t, "msg")
				if n > 1 && w.Size > MaxPlaintextSize && rapid.IntRange(0, 2).Draw(t, "keepBig") != 0 {
					w.Size = MaxPlaintextSize // keep most concurrent calls single-packet (cost)
				}
				return w
			}), 0, 6).Draw(t, label+"writes")
		}
		return out
	}
	c.CliW, c.SrvW = writers("cli"), writers("srv")
	if len(c.CliW) > 1 || len(c.SrvW) > 1 {
		// concurrent writers: their calls start close together and pause for a drawn time at the entry of the send path,
		// so that overlapping calls (one writer between accepting the bytes and sealing them while another starts) are common
		c.Yields = rapid.SliceOfN(rapid.SampledFrom([]int{0, 0, 1, 20, 300, 900, 1000, 1100, 2500}), 0, 8).Draw(t, "yields")
		c.NoGap = rapid.Bool().Draw(t, "noGap")
	}
	if rapid.IntRange(0, 4).Draw(t, "long") == 0 {
		// long stream: one writer per side sends many small messages, the script replays datagrams at a distance
		stream := func(label string) ([][]c03Write, int) {
			n := rapid.SampledFrom([]int{3, 40, 66, 70, 130, 200, 450, 520, 700}).Draw(t, label+"len")
			ws := make([]c03Write, n)
			sd := rapid.Uint64().Draw(t, label+"seed")
			// every k-th message of the stream is the empty message (0: none)
			empties := rapid.SampledFrom([]int{0, 0, 2, 4, 7}).Draw(t, label+"emptyEvery")
			for i := range ws {
				ws[i] = c03Write{Msg: true, Size: c03Hdr + i%3, Seed: sd + uint64(i)}
				if empties > 0 && i%empties == empties-1 {
					ws[i].Size = 0
				}
			}
			return [][]c03Write{ws}, n
		}
		var nc, ns int
		c.Yields, c.NoGap = nil, false
		c.CliW, nc = stream("cli")
		c.SrvW, ns = stream("srv")
		c.Script = rapid.SliceOfN(rapid.Custom(func(t *rapid.T) c03Action {
			a := c03Action{Dir: rapid.IntRange(0, 1).Draw(t, "dir")}
			n := nc
			if a.Dir == 1 {
				n = ns
			}
			a.Idx = rapid.IntRange(0, n-1).Draw(t, "idx")
			a.Kind = rapid.SampledFrom([]int{10, 10, 10, 10, 2, 1}).Draw(t, "kind")
			a.A = rapid.OneOf(rapid.IntRange(0, 700), rapid.SampledFrom([]int{0, 1, 62, 63, 64, 65, 127, 128, 129, 300, 446, 447, 448, 449, 450, 511, 512, 513})).Draw(t, "a")
			return a
		}), 1, 8).Draw(t, "script")
		return c
	}
	if rapid.IntRange(0, 3).Draw(t, "faithful") != 0 {
		c.Script = rapid.SliceOfN(rapid.Custom(func(t *rapid.T) c03Action {
			a := c03Action{Dir: rapid.IntRange(0, 1).Draw(t, "dir"), Idx: rapid.IntRange(0, 14).Draw(t, "idx")}
			a.Kind = rapid.IntRange(0, len(c03Kinds)-1).Draw(t, "kind")
			a.A = rapid.OneOf(rapid.IntRange(0, 70000), rapid.SampledFrom([]int{0, 1, 2, 3, 4, 5, 7, 8, 15, 16, 47, 48, 49, 447, 448, 449, 600})).Draw(t, "a")
			a.B = rapid.IntRange(0, 1<<20).Draw(t, "b")
			return a
		}), 1, 10).Draw(t, "script")
	}
	return c
}

func TestVerifC03Channel(t *testing.T) {
	vlib.Drive(t, vlib.Spec[c03Case]{ID: "C03", Quick: 4000, Gen: c03Gen, Run: c03Run(t)})
}
