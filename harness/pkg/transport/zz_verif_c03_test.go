//go:build go1.25

package transport

// C03 — transport channel: authentic, at-most-once, complete and confidential delivery.

import (
	"bytes"
	"encoding/binary"
	"errors"
	"fmt"
	"io"
	"net"
	"os"
	"sync"
	"sync/atomic"
	"syscall"
	"testing"
	"time"

	"hop.computer/hop/pkg/verifhook"
	"pgregory.net/rapid"
	"verif.local/vlib"
	"verif.local/vlib/simnet"
)

type c03Write struct {
	Msg  bool   `json:"msg"`  // WriteMsg (true) or Write (false)
	Size int    `json:"size"` // total bytes
	Seed uint64 `json:"seed"`
}

type c03Action struct {
	Dir  int `json:"dir"`  // 0 client->server, 1 server->client
	Idx  int `json:"idx"`  // index of the transport datagram in that direction
	Kind int `json:"kind"` // see c03Kinds
	A    int `json:"a"`
	B    int `json:"b"`
	// Reg (flip actions): 0 = the coarse region A%6 selects (type / reserved / session id / counter / whole body / tag);
	// 1.. = a fine region, see c03FlipRange (the body is cut into blocks of the width of the AEAD's permutation)
	Reg int `json:"reg,omitempty"`
	// Fld, Mask (header-alteration actions, kinds 11 and 12): which cleartext field of the 16-byte header is rewritten and how.
	// Fld 0: the type byte is REPLACED by another defined message type (c03DefinedTypes[A mod n]; the datagram's own type
	// is never chosen: the other session type takes its place); 1..4: type byte / 3 reserved bytes / session id / counter
	// are XORed with the low bytes of Mask (big endian, any number of bits; a mask that is zero on the field becomes 1)
	Fld  int    `json:"fld,omitempty"`
	Mask uint64 `json:"mask,omitempty"`
}

// c03DefinedTypes: every message type the protocol defines (the two session types come first and more often: a datagram
// whose type becomes the OTHER session type passes every syntactic check of the receiver, only authentication stops it)
var c03DefinedTypes = []MessageType{MessageTypeControl, MessageTypeTransport, MessageTypeControl, MessageTypeTransport,
	MessageTypeClientHello, MessageTypeServerHello, MessageTypeClientAck, MessageTypeServerAuth, MessageTypeClientAuth,
	MessageTypeClientRequestHidden, MessageTypeServerResponseHidden, MessageTypeControl, MessageTypeTransport}

var c03HeaderFields = []string{"type-replaced-by-defined-type", "type-xor-mask", "reserved-xor-mask", "session-id-xor-mask", "counter-xor-mask"}

// c03AlterHeader rewrites one cleartext header field of the datagram b in place (see c03Action.Fld); it returns a label.
func c03AlterHeader(a c03Action, b []byte) string {
	if len(b) < AssociatedDataLen {
		return ""
	}
	fld := a.Fld % len(c03HeaderFields)
	if fld < 0 {
		fld = 0
	}
	if fld == 0 {
		idx := a.A % len(c03DefinedTypes)
		if idx < 0 {
			idx = 0
		}
		nt := byte(c03DefinedTypes[idx])
		if nt == b[0] {
			if b[0] == byte(MessageTypeTransport) {
				nt = byte(MessageTypeControl)
			} else {
				nt = byte(MessageTypeTransport)
			}
		}
		b[0] = nt
		if nt == byte(MessageTypeTransport) || nt == byte(MessageTypeControl) {
			return "header-altered:type-replaced-by-the-other-session-type"
		}
		return "header-altered:type-replaced-by-a-handshake-type"
	}
	lo, hi := 0, 1
	switch fld {
	case 2:
		lo, hi = 1, HeaderLen
	case 3:
		lo, hi = HeaderLen, HeaderLen+SessionIDLen
	case 4:
		lo, hi = HeaderLen+SessionIDLen, AssociatedDataLen
	}
	m := a.Mask
	if w := hi - lo; w < 8 {
		m &= 1<<(8*uint(w)) - 1
	}
	if m == 0 {
		m = 1
	}
	for i := hi - 1; i >= lo; i-- {
		b[i] ^= byte(m)
		m >>= 8
	}
	return "header-altered:" + c03HeaderFields[fld]
}

// c03Fault disturbs the SENDING side of one endpoint (the network itself stays faithful).
type c03Fault struct {
	End int `json:"end"` // 0: the client, 1: the server (its Handle of the first session)
	// Kind 0: the socket refuses exactly the K-th transport datagram the endpoint sends (ENOBUFS, transient);
	// 1: it refuses the K-th and every later one; 2: the endpoint's own connection is closed (Client.Close / Handle.Close)
	// while its K-th transport datagram is inside the socket; 3: as 2, closing the whole Server (server end only).
	Kind int `json:"kind"`
	K    int `json:"k"`
	// Wait (kinds 2, 3): the datagram stays inside the socket until Close returned, at most Wait virtual microseconds
	// (0: it does not wait at all - Close and the Write race)
	Wait int `json:"wait,omitempty"`
}

var c03FaultKinds = []string{"socket-refuses-kth-datagram", "socket-refuses-from-kth-datagram-on", "own-close-during-kth-datagram", "server-close-during-kth-datagram"}

// c03Block: width in bytes of the permutation the AEAD (Kravatte-SANSE) absorbs its input with.
const c03Block = 200

// c03FlipRange returns the byte range [lo, hi) of a datagram of L bytes in which a flip action flips one bit.
// Layout of a transport datagram: 16 header bytes (type, 3 reserved, session id, counter), body (= the message
// as written: the AEAD plaintext is exactly the bytes of one WriteMsg / one packet of a Write), 32 tag bytes.
func c03FlipRange(reg, a, L int) (lo, hi int) {
	bodyLo, bodyHi := AssociatedDataLen, L-TagLen
	if bodyHi < bodyLo {
		bodyHi = bodyLo
	}
	clampLo := func(x int) int {
		if x < bodyLo {
			return bodyLo
		}
		return x
	}
	clampHi := func(x int) int {
		if x > bodyHi {
			return bodyHi
		}
		return x
	}
	switch reg {
	case 0:
		switch a % 6 {
		case 0:
			lo, hi = 0, 1
		case 1:
			lo, hi = 1, 4
		case 2:
			lo, hi = 4, 8
		case 3:
			lo, hi = 8, 16
		case 4:
			lo, hi = 16, L-TagLen
		default:
			lo, hi = L-TagLen, L
		}
	case 1: // the last block-width of the body
		lo, hi = clampLo(bodyHi-c03Block), bodyHi
	case 2: // the first block-width of the body
		lo, hi = bodyLo, clampHi(bodyLo+c03Block)
	case 3: // anywhere in the datagram
		lo, hi = 0, L
	case 4: // the last byte of the body
		lo, hi = clampLo(bodyHi-1), bodyHi
	case 5: // the first byte of the body
		lo, hi = bodyLo, clampHi(bodyLo+1)
	case 6: // the (a mod n)-th block-width of the body counted from its END (blocks aligned to the end)
		n := (bodyHi - bodyLo + c03Block - 1) / c03Block
		if n > 0 {
			j := a % n
			lo, hi = clampLo(bodyHi-(j+1)*c03Block), bodyHi-j*c03Block
		}
	default: // the (a mod n)-th block-width of the body counted from its START (blocks aligned as the AEAD absorbs them)
		n := (bodyHi - bodyLo + c03Block - 1) / c03Block
		if n > 0 {
			j := a % n
			lo, hi = bodyLo+j*c03Block, clampHi(bodyLo+(j+1)*c03Block)
		}
	}
	if hi > L {
		hi = L
	}
	if lo < 0 {
		lo = 0
	}
	if hi <= lo {
		lo, hi = 0, 1
	}
	return lo, hi
}

var c03Kinds = []string{"drop", "duplicate", "hold", "flip-copy", "truncate-copy", "extend-copy", "reflect-copy", "cross-session-copy", "forged", "flip-in-flight", "late-duplicate", "alter-header-copy", "alter-header-in-flight"}

type c03Case struct {
	Hidden   bool          `json:"hidden"`
	Two      bool          `json:"two"` // a second session (other client) exists, so cross-session injection is possible
	CliW     [][]c03Write  `json:"cliWriters"` // concurrent writers on the client
	SrvW     [][]c03Write  `json:"srvWriters"`
	Script   []c03Action   `json:"script"`
	Fam      int           `json:"fam,omitempty"` // address family of the fixture addresses (simnet.Family)
	// Yields: schedule for the yield point at the entry of the packet send path (before any lock is taken): the k-th
	// arrival there, counted over all writers of the case, sleeps Yields[k mod len] virtual microseconds (0: no pause).
	// Spreads the interleavings of overlapping Write / WriteMsg calls of concurrent writers.
	Yields []int `json:"yields,omitempty"`
	// NoGap: the writers issue their calls back to back (default: one virtual millisecond between two calls of a writer)
	NoGap bool `json:"noGap,omitempty"`
	// Faults: at most one per endpoint; an endpoint with a fault has a single writer (its calls are sequential, so the
	// datagrams the socket accepted between the start and the return of a call are the datagrams of that call)
	Faults []c03Fault `json:"faults,omitempty"`
}

const c03YieldPoint = "transport.Handle.send.enter"

const c03Hdr = 24

// payload: 24-byte header (magic, dir, writer, seq, size, seed) + keyed bytes
// Sizes below the header length (0 = the empty message, 1..23) give header-less keyed bytes: such messages carry no
// identification of their own and are judged by multiset count per reader.
func c03Payload(dir, writer, seq int, w c03Write) []byte {
	n := w.Size
	if n < c03Hdr {
		if n < 0 {
			n = 0
		}
		return append([]byte{}, vlib.Fill(w.Seed^0x5151, n)...)
	}
	b := make([]byte, c03Hdr, n)
	copy(b, "C03>")
	b[4], b[5] = byte(dir), byte(writer)
	binary.BigEndian.PutUint16(b[6:], uint16(seq))
	binary.BigEndian.PutUint32(b[8:], uint32(n))
	binary.BigEndian.PutUint64(b[12:], w.Seed)
	binary.BigEndian.PutUint32(b[20:], 0xC0DEC0DE)
	return append(b, vlib.Fill(w.Seed^0xABCDEF, n-c03Hdr)...)
}

// c03Chunks: the messages a correct transport puts on the wire for one call.
func c03Chunks(w c03Write, b []byte) [][]byte {
	if w.Msg || len(b) <= MaxPlaintextSize {
		return [][]byte{b}
	}
	var out [][]byte
	for i := 0; i < len(b); i += MaxPlaintextSize {
		end := i + MaxPlaintextSize
		if end > len(b) {
			end = len(b)
		}
		out = append(out, b[i:end])
	}
	return out
}

type c03End struct {
	name     string
	conn     MsgConn
	mu       sync.Mutex
	expected map[string]int // hash-free: message bytes -> outstanding count
	optionalEmpty int       // empty messages that MAY arrive (zero-length Write calls): allowed, never demanded
	order    map[int][][]byte // per writer: expected messages in order
	got      [][]byte
	closedEarly bool
}

type c03RunT struct {
	c   c03Case
	v   *vlib.Verdict
	mu  sync.Mutex
}

func (r *c03RunT) fail(sig, f string, a ...any) {
	r.mu.Lock()
	defer r.mu.Unlock()
	if r.v.OK() {
		r.v.Failf(sig, f, a...)
	}
}

func c03Destructive(k int) bool { return k == 0 || k == 2 || k == 9 || k == 12 }

func c03Scenario(c c03Case, v *vlib.Verdict) {
	r := &c03RunT{c: c, v: v}
	w := vGetWorld()
	env := vStartServer(w.ServerConfig(c.Hidden))
	defer env.Stop()
	cli, cliSock := env.NewClient(vCliAddr, w.ClientConfig(c.Hidden, false))
	if err := cli.Handshake(); err != nil {
		v.Failf("C03:sanity:honest-handshake-fails", "honest handshake failed: %v", err)
		return
	}
	defer cli.Close()
	h, err := env.Srv.AcceptTimeout(2 * time.Second)
	if err != nil {
		v.Failf("C03:sanity:honest-handshake-fails", "server did not accept: %v", err)
		return
	}
	var cli2 *Client
	var h2 *Handle
	if c.Two {
		cli2, _ = env.NewClient(vCli2Addr, w.ClientConfig(c.Hidden, true))
		if err := cli2.Handshake(); err == nil {
			h2, _ = env.Srv.AcceptTimeout(2 * time.Second)
			defer cli2.Close()
		}
	}
	_ = cliSock
	// ---- adversary
	var amu sync.Mutex
	idx := [2]int{}
	actions := map[[2]int][]c03Action{}
	destructive := false
	for _, a := range c.Script {
		actions[[2]int{a.Dir, a.Idx}] = append(actions[[2]int{a.Dir, a.Idx}], a)
		if c03Destructive(a.Kind) {
			destructive = true
		}
	}
	type heldT struct {
		d       simnet.Datagram
		release int
		dir     int
	}
	var held []heldT
	var flipAlignedLast, flipLast atomic.Bool // (classification only)
	var alterMu sync.Mutex
	altered := map[string]bool{} // (classification only) header alterations that met a datagram
	sid1 := cli.ss.sessionID
	env.Net.Filter = func(d simnet.Datagram) []simnet.Datagram {
		if len(d.Data) == 0 || (d.Data[0] != byte(MessageTypeTransport) && d.Data[0] != byte(MessageTypeControl)) {
			return []simnet.Datagram{d}
		}
		dir := -1
		switch {
		case simnetEq(d.Src, vCliAddr) && simnetEq(d.Dst, vSrvAddr):
			dir = 0
		case simnetEq(d.Src, vSrvAddr) && simnetEq(d.Dst, vCliAddr):
			dir = 1
		default:
			return []simnet.Datagram{d}
		}
		amu.Lock()
		k := idx[dir]
		idx[dir]++
		acts := actions[[2]int{dir, k}]
		// release held datagrams that are due
		var out []simnet.Datagram
		var keep []heldT
		for _, hd := range held {
			if hd.dir == dir && k >= hd.release {
				out = append(out, hd.d)
			} else {
				keep = append(keep, hd)
			}
		}
		held = keep
		amu.Unlock()
		deliverOrig := true
		clone := func() simnet.Datagram {
			x := d
			x.Data = append([]byte(nil), d.Data...)
			return x
		}
		var pre, post []simnet.Datagram
		for _, a := range acts {
			switch a.Kind {
			case 0:
				deliverOrig = false
			case 1:
				for i := 0; i < 1+a.A%3; i++ {
					post = append(post, clone())
				}
			case 2:
				deliverOrig = false
				amu.Lock()
				held = append(held, heldT{d: clone(), release: k + 1 + a.A, dir: dir})
				amu.Unlock()
			case 10:
				// the original is delivered now, a verbatim copy again after a.A further datagrams of this direction
				// (replay at a distance: inside, at the edge of, or beyond the replay window)
				amu.Lock()
				held = append(held, heldT{d: clone(), release: k + 1 + a.A, dir: dir})
				amu.Unlock()
			case 3, 9:
				x := clone()
				lo, hi := c03FlipRange(a.Reg, a.A, len(x.Data))
				bit := a.B % (8 * (hi - lo))
				x.Data[lo+bit/8] ^= 1 << (bit % 8)
				if body, at := len(x.Data)-AssociatedDataLen-TagLen, lo+bit/8; body > 0 && at >= AssociatedDataLen && at < AssociatedDataLen+body {
					switch {
					case body%c03Block == 0 && body >= 2*c03Block && at >= AssociatedDataLen+body-c03Block:
						flipAlignedLast.Store(true)
					case at >= AssociatedDataLen+body-c03Block:
						flipLast.Store(true)
					}
				}
				if a.Kind == 9 {
					deliverOrig = false
					post = append(post, x)
				} else {
					pre = append(pre, x)
				}
			case 11, 12:
				// a cleartext header field is rewritten (another VALID type, or any multi-bit change of a field); the copy
				// arrives before the original (11) or instead of it (12)
				x := clone()
				if lab := c03AlterHeader(a, x.Data); lab != "" {
					alterMu.Lock()
					altered[lab] = true
					alterMu.Unlock()
				}
				if a.Kind == 12 {
					deliverOrig = false
					post = append(post, x)
				} else {
					pre = append(pre, x)
				}
			case 4:
				x := clone()
				n := a.A % (len(x.Data) + 1)
				if n < 48 && vlib.KnownOpen("panic:transport.(*Server).handleSessionMessage:makeslice") {
					n = 48
				}
				x.Data = x.Data[:n]
				pre = append(pre, x)
			case 5:
				x := clone()
				x.Data = append(x.Data, vlib.Fill(uint64(a.A), 1+a.A%40)...)
				pre = append(pre, x)
			case 6:
				x := clone()
				x.Src, x.Dst = d.Dst, d.Src
				pre = append(pre, x)
			case 7:
				if h2 != nil {
					x := clone()
					if dir == 0 {
						x.Src = vCli2Addr
					} else {
						x.Dst = vCli2Addr
					}
					if a.A%2 == 0 && cli2 != nil && len(x.Data) >= 8 {
						copy(x.Data[4:8], cli2.ss.sessionID[:])
					}
					// delivered AFTER the original: an unmodified genuine datagram that arrives first from another
					// address is, by design, a roaming client (the peer address legitimately moves, see C15)
					post = append(post, x)
				}
			case 8:
				x := clone()
				body := vlib.Fill(uint64(a.B), 1+a.B%64)
				typ := byte(MessageTypeControl)
				if a.A%3 == 1 {
					typ = 0x20
				} else if a.A%3 == 2 {
					typ = byte(MessageTypeTransport)
				}
				pkt := append([]byte{typ, 0, 0, 0}, sid1[:]...)
				pkt = binary.BigEndian.AppendUint64(pkt, uint64(1000+a.B))
				pkt = append(pkt, body...)
				pkt = append(pkt, vlib.Fill(uint64(a.B)+7, TagLen)...)
				x.Data = pkt
				if a.A%2 == 0 {
					x.Src = vEvilAddr
				}
				pre = append(pre, x)
			}
		}
		out = append(out, pre...)
		if deliverOrig {
			out = append(out, d)
		}
		out = append(out, post...)
		return out
	}
	// ---- faults on the sending side of an endpoint (the write gate of its socket sees every datagram before the socket
	// accepts it; the send log of the network holds exactly the datagrams a socket accepted)
	var faultOf [2]*c03Fault
	var faultFired [2]atomic.Bool
	for i := range c.Faults {
		f := c.Faults[i]
		if f.End < 0 || f.End > 1 || faultOf[f.End] != nil {
			v.Discard = true
			return
		}
		faultOf[f.End] = &f
		sock := cliSock
		if f.End == 1 {
			sock = env.SrvSock
		}
		closeFn := func() { cli.Close() }
		if f.End == 1 {
			closeFn = func() { h.Close() }
			if f.Kind == 3 {
				closeFn = func() { env.Srv.Close() }
			}
		}
		refused := &net.OpError{Op: "write", Net: "udp", Err: syscall.ENOBUFS}
		var seen atomic.Int64
		end := f.End
		sock.SetWriteGate(func(b []byte, dst *net.UDPAddr, closed <-chan struct{}) {
			if len(b) == 0 || b[0] != byte(MessageTypeTransport) {
				return
			}
			k := int(seen.Add(1) - 1)
			switch f.Kind {
			case 0:
				if k == f.K {
					faultFired[end].Store(true)
					sock.FailWrites(refused)
				} else {
					sock.FailWrites(nil)
				}
			case 1:
				if k >= f.K {
					faultFired[end].Store(true)
					sock.FailWrites(refused)
				}
			default:
				if k == f.K {
					faultFired[end].Store(true)
					done := make(chan struct{})
					go func() { closeFn(); close(done) }()
					if f.Wait > 0 {
						tm := time.NewTimer(time.Duration(f.Wait) * time.Microsecond)
						select {
						case <-done:
						case <-tm.C:
						}
						tm.Stop()
					}
				}
			}
		})
		defer sock.SetWriteGate(nil)
		defer sock.FailWrites(nil)
	}
	faulty := len(c.Faults) > 0
	if faulty && (len(c.CliW) > 1 || len(c.SrvW) > 1 || c.Two || len(c.Script) > 0) {
		v.Discard = true // (the generator never produces this: attribution of datagrams to calls needs sequential calls)
		return
	}
	endAddr := func(e int) (src, dst *net.UDPAddr) {
		if e == 0 {
			return vCliAddr, vSrvAddr
		}
		return vSrvAddr, vCliAddr
	}
	// sentBytes: number of transport datagrams endpoint e's socket accepted since position from of the send log, and the
	// payload bytes they carry
	sentBytes := func(e, from int) (n, nb int) {
		src, dst := endAddr(e)
		log := env.Net.SentSnapshot()
		for _, d := range log[from:] {
			if len(d.Data) >= AssociatedDataLen+TagLen && d.Data[0] == byte(MessageTypeTransport) && simnetEq(d.Src, src) && simnetEq(d.Dst, dst) {
				n++
				nb += len(d.Data) - AssociatedDataLen - TagLen
			}
		}
		return n, nb
	}
	sentLen := func() int { return len(env.Net.SentSnapshot()) }
	// ---- yield schedule of the writers
	if len(c.Yields) > 0 {
		var hits atomic.Int64
		verifhook.Set(func(point string) {
			if point != c03YieldPoint {
				return
			}
			k := int(hits.Add(1) - 1)
			if us := c.Yields[k%len(c.Yields)]; us > 0 {
				time.Sleep(time.Duration(us) * time.Microsecond)
			}
		})
		defer verifhook.Set(nil)
	}
	// ---- expected messages, readers, writers
	mk := func(name string, conn MsgConn) *c03End {
		return &c03End{name: name, conn: conn, expected: map[string]int{}, order: map[int][][]byte{}}
	}
	srvEnd, cliEnd := mk("server", h), mk("client", cli)
	type plan struct {
		from   *c03End
		to     *c03End
		dir    int
		writer int
		writes []c03Write
		bufs   [][]byte
		ns     []int // what each call reported (Write: the count; -1: call not made)
	}
	var plans []*plan
	add := func(from, to *c03End, dir int, ws [][]c03Write) {
		for wi, lst := range ws {
			p := &plan{from: from, to: to, dir: dir, writer: wi, writes: lst, ns: make([]int, len(lst))}
			for i := range p.ns {
				p.ns[i] = -1
			}
			for si, wr := range lst {
				b := c03Payload(dir, wi, si, wr)
				p.bufs = append(p.bufs, b)
				if wr.Msg && len(b) > MaxPlaintextSize {
					continue // must be refused, nothing expected
				}
				if !wr.Msg && len(b) == 0 {
					// Write of zero bytes: there is no byte to deliver. The implementation sends one empty packet; the
					// statement does not demand it, so an empty message is allowed for it but not required.
					to.optionalEmpty++
					continue
				}
				for _, ch := range c03Chunks(wr, b) {
					to.expected[string(ch)]++
					to.order[wi] = append(to.order[wi], ch)
				}
			}
			plans = append(plans, p)
		}
	}
	add(cliEnd, srvEnd, 0, c.CliW)
	add(srvEnd, cliEnd, 1, c.SrvW)
	stopRead := make(chan struct{})
	var rwg sync.WaitGroup
	reader := func(e *c03End) {
		defer rwg.Done()
		buf := make([]byte, 70000)
		for {
			select {
			case <-stopRead:
				return
			default:
			}
			e.conn.SetReadDeadline(time.Now().Add(500 * time.Millisecond))
			n, err := e.conn.ReadMsg(buf)
			if err != nil {
				if errors.Is(err, os.ErrDeadlineExceeded) {
					continue
				}
				if err == io.EOF || errors.Is(err, net.ErrClosed) {
					e.mu.Lock()
					e.closedEarly = true
					e.mu.Unlock()
				}
				return
			}
			m := append([]byte(nil), buf[:n]...)
			e.mu.Lock()
			e.got = append(e.got, m)
			if e.expected[string(m)] > 0 {
				e.expected[string(m)]--
				e.mu.Unlock()
				continue
			}
			if len(m) == 0 && e.optionalEmpty > 0 {
				e.optionalEmpty--
				e.mu.Unlock()
				continue
			}
			e.mu.Unlock()
			if len(m) >= 4 && string(m[:4]) == "C03?" {
				continue // probe messages are handled below
			}
			kind := "never-written"
			for _, p := range plans {
				for _, b := range p.bufs {
					if bytes.Equal(b, m) || (len(m) > 32 && bytes.Contains(b, m)) {
						if p.to == e {
							kind = "delivered-twice"
						} else if kind == "never-written" {
							kind = "written-on-another-session-or-direction"
						}
					}
				}
			}
			r.fail("C03:reader-got-unauthentic-message:"+kind, "%s read a %d-byte message that is not an outstanding message written to it on this session (%s)", e.name, len(m), kind)
			return
		}
	}
	rwg.Add(2)
	go reader(srvEnd)
	go reader(cliEnd)
	var wwg sync.WaitGroup
	for _, p := range plans {
		wwg.Add(1)
		go func(p *plan) {
			defer wwg.Done()
			for si, wr := range p.writes {
				b := p.bufs[si]
				if faulty {
					// One writer per end: the transport datagrams this end's socket accepted between the start and the return
					// of the call are the datagrams of this call - the ground truth for "the number of bytes it sent".
					e := p.dir
					opName := []string{"Client", "Handle"}[e]
					disturbed := faultOf[e] != nil // a refused datagram or a Close ends the session: later calls may fail
					from := sentLen()
					if wr.Msg {
						err := p.from.conn.WriteMsg(b)
						nd, nb := sentBytes(e, from)
						switch {
						case len(b) > MaxPlaintextSize:
							// (on a connection that was closed meanwhile the refusal may name that instead of the size)
							if (!disturbed && !errors.Is(err, ErrBufOverflow)) || err == nil || nd != 0 {
								r.fail("C03:oversize-writemsg-not-refused", "%s: WriteMsg of %d bytes (> MaxPlaintextSize %d) returned %v, %d datagrams sent", p.from.name, len(b), MaxPlaintextSize, err, nd)
							}
						case err == nil && (nd != 1 || nb != len(b)):
							// documented: "A successful return means the configured UDPLike transport accepted it"
							r.fail("C03:writemsg-succeeds-without-sending:"+opName+".WriteMsg", "%s: WriteMsg of %d bytes returned nil, but the socket accepted %d transport datagrams carrying %d bytes for it", p.from.name, len(b), nd, nb)
						case err != nil && !disturbed:
							r.fail("C03:write-fails-on-open-session", "%s: WriteMsg of %d bytes returned %v", p.from.name, len(b), err)
						}
						if err == nil {
							p.ns[si] = len(b)
						} else {
							p.ns[si] = 0
						}
					} else {
						n, err := p.from.conn.Write(b)
						nd, nb := sentBytes(e, from)
						p.ns[si] = n
						switch {
						case n != nb:
							r.fail("C03:write-count-differs-from-bytes-sent:"+opName+".Write", "%s: Write of %d bytes returned (%d, %v), but the socket accepted %d transport datagrams carrying %d payload bytes for this call (fault at this end: %v)", p.from.name, len(b), n, err, nd, nb, disturbed)
						case err == nil && n != len(b):
							r.fail("C03:write-reports-wrong-count", "%s: Write of %d bytes returned (%d, %v)", p.from.name, len(b), n, err)
						case err != nil && !disturbed:
							r.fail("C03:write-reports-wrong-count", "%s: Write of %d bytes returned (%d, %v) on an open session", p.from.name, len(b), n, err)
						}
					}
				} else if wr.Msg {
					err := p.from.conn.WriteMsg(b)
					if len(b) > MaxPlaintextSize {
						if !errors.Is(err, ErrBufOverflow) {
							r.fail("C03:oversize-writemsg-not-refused", "%s: WriteMsg of %d bytes (> MaxPlaintextSize %d) returned %v", p.from.name, len(b), MaxPlaintextSize, err)
						}
					} else if err != nil {
						r.fail("C03:write-fails-on-open-session", "%s: WriteMsg of %d bytes returned %v", p.from.name, len(b), err)
					}
				} else {
					n, err := p.from.conn.Write(b)
					if err != nil || n != len(b) {
						r.fail("C03:write-reports-wrong-count", "%s: Write of %d bytes returned (%d, %v)", p.from.name, len(b), n, err)
					}
				}
				if !r.v.OK() {
					return
				}
				if !c.NoGap {
					time.Sleep(time.Millisecond)
				}
			}
		}(p)
	}
	wwg.Wait()
	time.Sleep(200 * time.Millisecond)
	// flush what the adversary still holds, let it settle
	amu.Lock()
	rest := held
	held = nil
	amu.Unlock()
	env.Net.Filter = nil
	for _, hd := range rest {
		env.Net.Inject(hd.d.Src, hd.d.Dst, hd.d.Data)
	}
	time.Sleep(2 * time.Second)
	// ---- (2) undisturbed: a fresh probe arrives both ways
	probe := func(from MsgConn, to *c03End, tag byte) {
		msg := append([]byte("C03?"), tag)
		msg = append(msg, vlib.Fill(uint64(tag), 40)...)
		if err := from.WriteMsg(msg); err != nil {
			r.fail("C03:session-disturbed:probe-write-fails", "after the adversarial traffic a probe write on the %s side fails: %v", map[byte]string{1: "client", 2: "server"}[tag], err)
			return
		}
		dl := time.Now().Add(3 * time.Second)
		for time.Now().Before(dl) {
			to.mu.Lock()
			for _, m := range to.got {
				if bytes.Equal(m, msg) {
					to.mu.Unlock()
					return
				}
			}
			to.mu.Unlock()
			time.Sleep(50 * time.Millisecond)
		}
		r.fail("C03:session-disturbed:probe-not-delivered", "after the adversarial traffic a fresh probe message to the %s did not arrive (reader closed early: %v)", to.name, to.closedEarly)
	}
	// (a refused datagram or a Close legitimately ends the session: no probes when the sending side was disturbed)
	if v.OK() && !faulty {
		probe(cli, srvEnd, 1)
	}
	if v.OK() && !faulty {
		probe(h, cliEnd, 2)
	}
	close(stopRead)
	rwg.Wait()
	// ---- (3') interrupted writes on a faithful network: every byte a call REPORTED as sent reached the reader of an
	// undisturbed peer - the packets of buf[:n] for a Write that returned n, the whole message for a WriteMsg that
	// returned nil (a caller that follows io.Writer resumes from buf[n:]; those n bytes must not be lost)
	if v.OK() && faulty {
		for _, p := range plans {
			peer := 1 - p.dir
			if faultOf[peer] != nil {
				continue // the reader's own connection was closed / its session ended: it is not obliged to drain
			}
			have := map[string]int{}
			p.to.mu.Lock()
			for _, m := range p.to.got {
				have[string(m)]++
			}
			p.to.mu.Unlock()
			for si, wr := range p.writes {
				n := p.ns[si]
				if n <= 0 || n > len(p.bufs[si]) {
					continue
				}
				for ci, ch := range c03Chunks(wr, p.bufs[si][:n]) {
					if have[string(ch)] > 0 {
						have[string(ch)]--
						continue
					}
					v.Failf("C03:reported-bytes-not-delivered", "%s: call %d (%d bytes, WriteMsg=%v) reported %d bytes as sent, but packet %d of those bytes never reached the undisturbed reader on a faithful network", p.from.name, si, len(p.bufs[si]), wr.Msg, n, ci)
					break
				}
				if !v.OK() {
					break
				}
			}
			if !v.OK() {
				break
			}
		}
	}
	// ---- (3) completeness when every original datagram was delivered at least once
	if v.OK() && !destructive && !faulty {
		for _, e := range []*c03End{srvEnd, cliEnd} {
			missing := 0
			var which []string
			for m, n := range e.expected {
				missing += n
				if n > 0 && len(which) < 4 {
					switch {
					case len(m) >= c03Hdr && m[:4] == "C03>":
						which = append(which, fmt.Sprintf("writer %d seq %d size %d", m[5], binary.BigEndian.Uint16([]byte(m[6:8])), len(m)))
					case len(m) < c03Hdr:
						which = append(which, fmt.Sprintf("%d x the %d-byte message", n, len(m)))
					default:
						which = append(which, fmt.Sprintf("a later packet of a multi-packet Write, %d bytes", len(m)))
					}
				}
			}
			if missing > 0 {
				sig := "C03:accepted-write-not-delivered"
				if len(c.Script) > 0 {
					sig = "C03:genuine-datagram-lost-to-unauthentic-traffic"
				}
				v.Failf(sig, "%s: %d written messages/chunks were never delivered although every genuine datagram reached it (script: %d non-destructive actions); missing: %v; got %d messages", e.name, missing, len(c.Script), which, len(e.got))
				break
			}
			// per-writer order on a faithful network with a single writer
			if len(c.Script) == 0 && len(e.order) == 1 {
				var want [][]byte
				for _, lst := range e.order {
					want = lst
				}
				k := 0
				for _, m := range e.got {
					if k < len(want) && bytes.Equal(m, want[k]) {
						k++
					}
				}
				if k != len(want) {
					v.Failf("C03:order-not-preserved-on-faithful-network", "%s: messages of the single writer arrived out of order", e.name)
				}
			}
		}
	}
	// ---- (4) confidentiality: markers never appear on the wire
	if v.OK() {
		var markers [][]byte
		for _, p := range plans {
			for _, b := range p.bufs {
				if len(b) >= c03Hdr+16 {
					markers = append(markers, b[c03Hdr:c03Hdr+16])
				}
				if len(b) >= c03Hdr {
					markers = append(markers, b[:c03Hdr])
				}
			}
		}
		markers = append(markers, []byte("server.verif.test"), []byte("client-one"), w.SrvKey.Public[:], w.CliKey.Public[:])
		if raw, err := w.SrvLeaf.Marshal(); err == nil && len(raw) > 60 {
			markers = append(markers, raw[20:60])
		}
		if raw, err := w.CliLeaf.Marshal(); err == nil && len(raw) > 60 {
			markers = append(markers, raw[20:60])
		}
		for _, d := range env.Net.SentSnapshot() {
			for mi, m := range markers {
				if bytes.Contains(d.Data, m) {
					v.Failf("C03:plaintext-on-the-wire", "datagram %d (type %#x, %d bytes, %v -> %v) contains marker %d in the clear", d.Idx, d.Data[0], len(d.Data), d.Src, d.Dst, mi)
					break
				}
			}
			if !v.OK() {
				break
			}
		}
	}
	// ---- classification
	big := false
	for _, p := range plans {
		for _, b := range p.bufs {
			if len(b) > MaxPlaintextSize {
				big = true
			}
		}
	}
	v.NonTrivial = len(c.Script) > 0 || big || faulty
	if big {
		v.Label("write-larger-than-one-packet")
	}
	if len(c.Script) == 0 {
		v.Label("faithful-network")
	} else if destructive {
		v.Label("destructive-script")
	} else {
		v.Label("non-destructive-script")
	}
	for _, a := range c.Script {
		v.Label("action:" + c03Kinds[a.Kind])
	}
	if c.Two {
		v.Label("two-sessions")
	}
	for _, f := range c.Faults {
		lab := "fault:" + c03FaultKinds[f.Kind%len(c03FaultKinds)] + ":" + []string{"client", "server"}[f.End]
		v.Label(lab)
		if faultFired[f.End].Load() {
			v.Label("fault-fired:" + []string{"client", "server"}[f.End])
		}
	}
	for _, p := range plans {
		for si, n := range p.ns {
			if faulty && !p.writes[si].Msg && n > 0 && n < len(p.bufs[si]) {
				v.Label("write-interrupted-in-the-middle:" + []string{"Client.Write", "Handle.Write"}[p.dir])
			}
		}
	}
	alterMu.Lock()
	for lab := range altered {
		v.Label(lab)
	}
	alterMu.Unlock()
	if flipAlignedLast.Load() {
		v.Label("flip-in-last-block-of-a-message-of-whole-blocks")
	}
	if flipLast.Load() {
		v.Label("flip-in-last-block-of-a-message")
	}
	for _, a := range c.Script {
		if (a.Kind == 3 || a.Kind == 9) && a.Reg > 0 {
			v.Label("flip-in-fine-region")
			break
		}
	}
	if len(c.CliW) > 1 || len(c.SrvW) > 1 {
		v.Label("concurrent-writers")
	}
	for ei, ws := range [][][]c03Write{c.CliW, c.SrvW} {
		nw := 0 // writers of this end that call Write at least once
		for _, lst := range ws {
			for _, wr := range lst {
				if !wr.Msg {
					nw++
					break
				}
			}
		}
		if nw > 1 {
			v.Label("concurrent-Write-callers:" + []string{"Client.Write", "Handle.Write"}[ei])
		}
	}
	if len(c.Yields) > 0 {
		v.Label("yield-schedule-at-send-entry")
	}
	var nEmpty, nShort int
	for _, p := range plans {
		for _, b := range p.bufs {
			if len(b) == 0 {
				nEmpty++
			} else if len(b) < c03Hdr {
				nShort++
			}
		}
	}
	if nEmpty > 0 {
		v.Label("empty-message")
		if nEmpty > 1 {
			v.Label("several-empty-messages")
		}
	}
	if nShort > 0 {
		v.Label("message-shorter-than-24-bytes")
	}
	for _, ws := range append(append([][]c03Write{}, c.CliW...), c.SrvW...) {
		if len(ws) > 64 {
			v.Label("stream-longer-than-one-window-block")
			break
		}
	}
	if h2 != nil {
		h2.Close()
	}
}

func c03Run(t *testing.T) func(c c03Case, v *vlib.Verdict) {
	return func(c c03Case, v *vlib.Verdict) {
		defer vSetFamily(vSetFamily(c.Fam))
		v.Label("addresses:" + vFamilyNames[c.Fam%3])
		res := vlib.Bubble(t, 90*time.Second, func() { c03Scenario(c, v) })
		if res.Hung {
			v.Inconclusive = "bubble hung in real time (C03)"
			return
		}
		if res.Panic != "" && v.OK() {
			if res.Leak() || res.Deadlock() {
				v.Failf("C03:goroutines-left:"+fmt.Sprint(vlib.BlockedHopFrames(res.Stacks)), "after closing client and server goroutines remain: %v", vlib.BlockedHopFrames(res.Stacks))
			} else {
				v.Failf(vlib.PanicSig(res.Panic, res.Stacks), "panic: %s", res.Panic)
			}
		}
	}
}

// (rapid favours the front of a SampledFrom list: small, empty and multi-packet sizes alternate)
var c03Sizes = []int{c03Hdr, 0, MaxPlaintextSize + 1, 100, 2 * MaxPlaintextSize, 1, MaxPlaintextSize, 1000, 2*MaxPlaintextSize + 1, c03Hdr + 1, MaxPlaintextSize - 1, c03Hdr - 1, 3*MaxPlaintextSize + MaxPlaintextSize/2}

// c03BoundarySize draws a message size at or next to a multiple of a block width: k*B-1, k*B, k*B+1 for every k up to a
// few thousand bytes and for the last multiples below MaxPlaintextSize. B is mostly the 200-byte width of the
// permutation behind the AEAD (the message as written IS the AEAD plaintext: the 16 header bytes are associated data,
// absorbed separately), sometimes another common block / lane width. With base > 0 (a Write of several packets) the
// LAST packet of the call has such a size.
func c03BoundarySize(t *rapid.T, allowMulti bool) (size int, multi bool) {
	B := rapid.SampledFrom([]int{c03Block, c03Block, c03Block, c03Block, c03Block, 8, 16, 32, 64, 136, 168}).Draw(t, "blockWidth")
	top := MaxPlaintextSize / B
	k := rapid.OneOf(rapid.IntRange(1, 4200/B), rapid.IntRange(2, 6), rapid.SampledFrom([]int{top, top - 1, top / 2})).Draw(t, "blocks")
	d := rapid.SampledFrom([]int{0, 0, -1, 1}).Draw(t, "delta")
	size = k*B + d
	if allowMulti && rapid.IntRange(0, 5).Draw(t, "multiPacket") == 0 {
		size += rapid.SampledFrom([]int{1, 1, 2}).Draw(t, "fullPackets") * MaxPlaintextSize
		multi = true
	}
	if size < 0 {
		size = 0
	}
	return size, multi
}

// c03Datagrams: the number of transport datagrams a correct endpoint sends for the calls of one writer.
func c03Datagrams(ws []c03Write) int {
	n := 0
	for _, w := range ws {
		switch {
		case w.Msg && w.Size > MaxPlaintextSize:
		case w.Msg || w.Size <= MaxPlaintextSize:
			n++
		default:
			n += (w.Size + MaxPlaintextSize - 1) / MaxPlaintextSize
		}
	}
	return n
}

// c03GenBoundary: messages whose sizes sit at block boundaries of the AEAD, and flips that draw their position from fine
// regions of exactly those datagrams (last / first / j-th block of the body, last byte, anywhere).
func c03GenBoundary(t *rapid.T, c c03Case) c03Case {
	c.Yields, c.NoGap = nil, false
	side := func(label string) [][]c03Write {
		return [][]c03Write{rapid.SliceOfN(rapid.Custom(func(t *rapid.T) c03Write {
			w := c03Write{Seed: rapid.Uint64().Draw(t, "seed"), Msg: rapid.Bool().Draw(t, "msg")}
			var multi bool
			w.Size, multi = c03BoundarySize(t, true)
			if multi {
				w.Msg = false
			}
			return w
		}), 1, 4).Draw(t, label+"writes")}
	}
	c.CliW, c.SrvW = side("cli"), side("srv")
	nd := [2]int{c03Datagrams(c.CliW[0]), c03Datagrams(c.SrvW[0])}
	c.Script = rapid.SliceOfN(rapid.Custom(func(t *rapid.T) c03Action {
		a := c03Action{Dir: rapid.IntRange(0, 1).Draw(t, "dir")}
		n := nd[a.Dir]
		if n < 1 {
			n = 1
		}
		a.Idx = rapid.IntRange(0, n-1).Draw(t, "idx")
		a.Kind = rapid.SampledFrom([]int{9, 3, 9, 3, 9, 3, 1, 5, 4}).Draw(t, "kind")
		a.Reg = rapid.SampledFrom([]int{1, 6, 7, 1, 2, 3, 4, 5, 0}).Draw(t, "region")
		a.A = rapid.OneOf(rapid.IntRange(0, 400), rapid.IntRange(0, 70000)).Draw(t, "a")
		a.B = rapid.IntRange(0, 1<<20).Draw(t, "b")
		return a
	}), 1, 6).Draw(t, "script")
	return c
}

// c03GenInterrupted: one writer per end on a faithful network; the sending side of one or both endpoints is disturbed
// while (mostly) a Write of several packets is in progress.
func c03GenInterrupted(t *rapid.T, c c03Case) c03Case {
	c.Two, c.Yields, c.Script = false, nil, nil
	c.NoGap = rapid.Bool().Draw(t, "noGap")
	side := func(label string) [][]c03Write {
		return [][]c03Write{rapid.SliceOfN(rapid.Custom(func(t *rapid.T) c03Write {
			w := c03Write{Seed: rapid.Uint64().Draw(t, "seed")}
			w.Size = rapid.SampledFrom([]int{3 * MaxPlaintextSize, 2*MaxPlaintextSize + 1, 2 * MaxPlaintextSize, 3*MaxPlaintextSize + MaxPlaintextSize/2, 100, MaxPlaintextSize + 1,
				4*MaxPlaintextSize + c03Block, MaxPlaintextSize, 0, 5 * MaxPlaintextSize}).Draw(t, "size")
			// mostly Write: WriteMsg is a single packet and refuses the larger sizes
			w.Msg = rapid.IntRange(0, 4).Draw(t, "msg") == 0
			return w
		}), 1, 3).Draw(t, label+"writes")}
	}
	c.CliW, c.SrvW = side("cli"), side("srv")
	nd := [2]int{c03Datagrams(c.CliW[0]), c03Datagrams(c.SrvW[0])}
	fault := func(end int) c03Fault {
		f := c03Fault{End: end}
		kinds := []int{0, 2, 1, 0, 2}
		if end == 1 {
			kinds = []int{0, 2, 3, 1, 0, 2}
		}
		f.Kind = rapid.SampledFrom(kinds).Draw(t, "faultKind")
		// mostly a datagram in the middle of the traffic of that end, sometimes the first, the last or one never sent
		f.K = rapid.IntRange(0, nd[end]).Draw(t, "k")
		if f.Kind >= 2 {
			f.Wait = rapid.SampledFrom([]int{10000, 0, 1, 100, 10000}).Draw(t, "wait")
		}
		return f
	}
	switch rapid.SampledFrom([]int{0, 1, 0, 1, 2}).Draw(t, "faultyEnds") {
	case 0:
		c.Faults = []c03Fault{fault(0)}
	case 1:
		c.Faults = []c03Fault{fault(1)}
	default:
		c.Faults = []c03Fault{fault(0), fault(1)}
	}
	return c
}

// c03GenHeaderAlteration draws what a header-alteration action does: mostly the type byte becomes another defined type,
// otherwise a field is XORed with a mask of any weight (all 64 bits uniform, a sparse mask, or the difference of two
// defined type values in every byte position).
func c03GenHeaderAlteration(t *rapid.T) (fld int, mask uint64) {
	fld = rapid.SampledFrom([]int{0, 0, 0, 1, 2, 3, 4}).Draw(t, "field")
	if fld == 0 {
		return fld, 0
	}
	mask = rapid.OneOf(
		rapid.Uint64Range(1, ^uint64(0)),
		rapid.Custom(func(t *rapid.T) uint64 {
			var m uint64
			for _, b := range rapid.SliceOfN(rapid.IntRange(0, 63), 2, 5).Draw(t, "bits") {
				m |= 1 << uint(b)
			}
			return m
		}),
		rapid.Custom(func(t *rapid.T) uint64 {
			x := rapid.SampledFrom(c03DefinedTypes).Draw(t, "typeA") ^ rapid.SampledFrom(c03DefinedTypes).Draw(t, "typeB")
			return uint64(x) << (8 * uint(rapid.IntRange(0, 7).Draw(t, "byte")))
		}),
	).Draw(t, "mask")
	return fld, mask
}

func c03Gen(t *rapid.T) c03Case {
	c := c03Case{Hidden: rapid.Bool().Draw(t, "hidden"), Two: rapid.Bool().Draw(t, "two")}
	c.Fam = rapid.SampledFrom([]int{0, 0, 0, 1, 2}).Draw(t, "fam")
	// families of cases: 0 the general one (below), 1 block-boundary sizes with finely placed flips, 2 interrupted writes
	switch rapid.SampledFrom([]int{0, 0, 0, 0, 0, 0, 1, 2}).Draw(t, "family") {
	case 1:
		return c03GenBoundary(t, c)
	case 2:
		return c03GenInterrupted(t, c)
	}
	writers := func(label string) [][]c03Write {
		n := rapid.SampledFrom([]int{1, 1, 1, 2, 3}).Draw(t, label+"n")
		out := make([][]c03Write, n)
		for i := range out {
			out[i] = rapid.SliceOfN(rapid.Custom(func(t *rapid.T) c03Write {
				w := c03Write{Seed: rapid.Uint64().Draw(t, "seed")}
				w.Size = rapid.OneOf(rapid.SampledFrom(c03Sizes), rapid.IntRange(c03Hdr, 3000), rapid.Custom(func(t *rapid.T) int {
					sz, _ := c03BoundarySize(t, false)
					return sz
				})).Draw(t, "size")
				// Concurrent writers use Write as well as WriteMsg. A Write of at most MaxPlaintextSize bytes is one packet;
				// a larger one is split into packets that may interleave with those of other writers, which the oracle
				// allows: it compares the multiset of packets-worth of bytes ("every byte accepted ... is delivered"),
				// and demands order only from a single writer.
				w.Msg = rapid.Bool().Draw(t, "msg")
				if n > 1 && w.Size > MaxPlaintextSize && rapid.IntRange(0, 2).Draw(t, "keepBig") != 0 {
					w.Size = MaxPlaintextSize // keep most concurrent calls single-packet (cost)
				}
				return w
			}), 0, 6).Draw(t, label+"writes")
		}
		return out
	}
	c.CliW, c.SrvW = writers("cli"), writers("srv")
	if len(c.CliW) > 1 || len(c.SrvW) > 1 {
		// concurrent writers: their calls start close together and pause for a drawn time at the entry of the send path,
		// so that overlapping calls (one writer between accepting the bytes and sealing them while another starts) are common
		c.Yields = rapid.SliceOfN(rapid.SampledFrom([]int{0, 0, 1, 20, 300, 900, 1000, 1100, 2500}), 0, 8).Draw(t, "yields")
		c.NoGap = rapid.Bool().Draw(t, "noGap")
	}
	if rapid.IntRange(0, 4).Draw(t, "long") == 0 {
		// long stream: one writer per side sends many small messages, the script replays datagrams at a distance
		stream := func(label string) ([][]c03Write, int) {
			n := rapid.SampledFrom([]int{3, 40, 66, 70, 130, 200, 450, 520, 700}).Draw(t, label+"len")
			ws := make([]c03Write, n)
			sd := rapid.Uint64().Draw(t, label+"seed")
			// every k-th message of the stream is the empty message (0: none)
			empties := rapid.SampledFrom([]int{0, 0, 2, 4, 7}).Draw(t, label+"emptyEvery")
			for i := range ws {
				ws[i] = c03Write{Msg: true, Size: c03Hdr + i%3, Seed: sd + uint64(i)}
				if empties > 0 && i%empties == empties-1 {
					ws[i].Size = 0
				}
			}
			return [][]c03Write{ws}, n
		}
		var nc, ns int
		c.Yields, c.NoGap = nil, false
		c.CliW, nc = stream("cli")
		c.SrvW, ns = stream("srv")
		c.Script = rapid.SliceOfN(rapid.Custom(func(t *rapid.T) c03Action {
			a := c03Action{Dir: rapid.IntRange(0, 1).Draw(t, "dir")}
			n := nc
			if a.Dir == 1 {
				n = ns
			}
			a.Idx = rapid.IntRange(0, n-1).Draw(t, "idx")
			a.Kind = rapid.SampledFrom([]int{10, 10, 10, 10, 2, 1}).Draw(t, "kind")
			a.A = rapid.OneOf(rapid.IntRange(0, 700), rapid.SampledFrom([]int{0, 1, 62, 63, 64, 65, 127, 128, 129, 300, 446, 447, 448, 449, 450, 511, 512, 513})).Draw(t, "a")
			return a
		}), 1, 8).Draw(t, "script")
		return c
	}
	if rapid.IntRange(0, 3).Draw(t, "faithful") != 0 {
		c.Script = rapid.SliceOfN(rapid.Custom(func(t *rapid.T) c03Action {
			a := c03Action{Dir: rapid.IntRange(0, 1).Draw(t, "dir"), Idx: rapid.IntRange(0, 14).Draw(t, "idx")}
			a.Kind = rapid.IntRange(0, len(c03Kinds)-1).Draw(t, "kind")
			a.A = rapid.OneOf(rapid.IntRange(0, 70000), rapid.SampledFrom([]int{0, 1, 2, 3, 4, 5, 7, 8, 15, 16, 47, 48, 49, 447, 448, 449, 600})).Draw(t, "a")
			a.B = rapid.IntRange(0, 1<<20).Draw(t, "b")
			if a.Kind == 3 || a.Kind == 9 {
				// where the flipped bit lies: a coarse region (0) or a fine one (see c03FlipRange)
				a.Reg = rapid.SampledFrom([]int{0, 0, 1, 3, 6, 7, 2, 4, 5}).Draw(t, "region")
			}
			if a.Kind == 11 || a.Kind == 12 {
				a.Fld, a.Mask = c03GenHeaderAlteration(t)
			}
			return a
		}), 1, 10).Draw(t, "script")
	}
	return c
}

func TestVerifC03Channel(t *testing.T) {
	vlib.Drive(t, vlib.Spec[c03Case]{ID: "C03", Quick: 6000, Gen: c03Gen, Run: c03Run(t)})
}
