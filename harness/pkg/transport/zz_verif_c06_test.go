//go:build go1.25

package transport

// C06 (transport part) — the principal approves the FIRST intent of a delegate connection through the transport
// handshake's additional verify callback (hopclient.setupTargetClient installs it on the connection to the target;
// authgrants' principal only calls the callback itself from the second request on). "Nothing is delegated without
// the principal approving that exact intent" therefore needs: a client handshake whose VerifyConfig carries an
// AddVerifyCallback completes only if the callback was consulted with the peer's certificate and returned nil —
// whatever else the verification policy says (trust store, authorized keys, InsecureSkipVerify, expected name).

import (
	"errors"
	"sync/atomic"
	"testing"
	"time"

	"pgregory.net/rapid"
	"verif.local/vlib"

	"hop.computer/hop/authkeys"
	"hop.computer/hop/certs"
)

type c06tCase struct {
	Hidden   bool `json:"hidden"`
	Skip     bool `json:"skip"`     // InsecureSkipVerify (what a principal's host config for the target may say)
	Trust    int  `json:"trust"`    // 0 root store; 1 server key in the authorized-key set; 2 both; 3 neither (fails unless Skip)
	Name     int  `json:"name"`     // 0 the server's name; 1 no name; 2 another name
	Decision int  `json:"decision"` // the principal's callback: 0 approves; 1 refuses; 2 approves exactly the server's key; 3 refuses exactly the server's key
	Fam      int  `json:"fam,omitempty"`
}

var c06tErrRefused = errors.New("verif: principal refuses the intent")

func c06tScenario(c c06tCase, v *vlib.Verdict) {
	w := vGetWorld()
	env := vStartServer(w.ServerConfig(c.Hidden))
	defer env.Stop()
	cc := w.ClientConfig(c.Hidden, false)
	vc := VerifyConfig{CurrentTime: w.Now, InsecureSkipVerify: c.Skip}
	if c.Trust%4 == 0 || c.Trust%4 == 2 {
		vc.Store = w.store()
	}
	if c.Trust%4 == 1 || c.Trust%4 == 2 {
		vc.AuthKeysAllowed = true
		vc.AuthKeys = authkeys.NewSyncAuthKeySet()
		vc.AuthKeys.AddKey(w.SrvKey.Public)
	}
	switch c.Name % 3 {
	case 0:
		vc.Name = w.ServerName
	case 2:
		vc.Name = certs.RawStringName("other.verif.test")
	}
	var consulted, approved, refused, wrongLeaf atomic.Int64
	vc.AddVerifyCallback = func(leaf *certs.Certificate) error {
		consulted.Add(1)
		isServer := leaf != nil && leaf.PublicKey == w.SrvKey.Public
		if !isServer {
			wrongLeaf.Add(1)
		}
		ok := false
		switch c.Decision % 4 {
		case 0:
			ok = true
		case 2:
			ok = isServer
		case 3:
			ok = !isServer
		}
		if ok {
			approved.Add(1)
			return nil
		}
		refused.Add(1)
		return c06tErrRefused
	}
	cc.Verify = vc
	cli, _ := env.NewClient(vCliAddr, cc)
	err := cli.Handshake()
	defer cli.Close()
	mode := "discoverable"
	if c.Hidden {
		mode = "hidden"
	}
	pol := "verify"
	if c.Skip {
		pol = "insecure-skip-verify"
	}
	if err == nil {
		switch {
		case consulted.Load() == 0:
			v.Failf("C06:connection-to-target-without-consulting-the-approval-callback:"+pol, "%s handshake to the target completed although the principal's approval callback (AddVerifyCallback) was never consulted (%+v)", mode, c)
		case refused.Load() > 0:
			v.Failf("C06:connection-to-target-although-approval-callback-refused:"+pol, "%s handshake to the target completed although the principal's approval callback refused (%d of %d consultations) (%+v)", mode, refused.Load(), consulted.Load(), c)
		case wrongLeaf.Load() > 0:
			v.Failf("C06:approval-callback-shown-another-certificate", "%s handshake completed, but the approval callback was shown a certificate that does not hold the target's key (%+v)", mode, c)
		}
		v.Label("handshake:completed")
	} else {
		v.Label("handshake:failed")
		// converse, as a guard against a vacuous check: the plainly trusted configuration with an approving callback works
		if (c.Decision%4 == 0 || c.Decision%4 == 2) && (c.Trust%4 == 0 || c.Trust%4 == 2) && c.Name%3 != 2 {
			v.Failf("C06:approved-connection-to-target-fails", "%s handshake failed (%v) although the policy trusts the target and the callback approves (%+v)", mode, err, c)
		}
	}
	v.Label("mode:" + mode)
	v.Label("policy:" + pol)
	v.Labelf("decision:%d", c.Decision%4)
	v.NonTrivial = c.Decision%4 == 1 || c.Decision%4 == 3 || c.Skip
}

func c06tRun(t *testing.T) func(c c06tCase, v *vlib.Verdict) {
	return func(c c06tCase, v *vlib.Verdict) {
		defer vSetFamily(vSetFamily(c.Fam))
		res := vlib.Bubble(t, 60*time.Second, func() { c06tScenario(c, v) })
		if res.Hung {
			v.Inconclusive = "bubble hung in real time (C06 transport part)"
			return
		}
		if res.Panic != "" && v.OK() {
			if res.Leak() || res.Deadlock() {
				v.Label("goroutines-left(not-judged-here)")
				return
			}
			v.Failf(vlib.PanicSig(res.Panic, res.Stacks), "panic: %s", res.Panic)
		}
	}
}

// TestVerifC06ApprovalCallback: the whole matrix first (192 cases), then rapid-drawn repetitions.
func TestVerifC06ApprovalCallback(t *testing.T) {
	run := c06tRun(t)
	if vlib.ReplayEnumerated(t, "C06", run) {
		return
	}
	{
		rec := vlib.Open(t, "C06")
		idx := 0
		for _, hidden := range []bool{false, true} {
			for _, skip := range []bool{false, true} {
				for trust := 0; trust < 4; trust++ {
					for name := 0; name < 3; name++ {
						for dec := 0; dec < 4; dec++ {
							idx++
							if !rec.Mine(idx) {
								continue
							}
							c := c06tCase{Hidden: hidden, Skip: skip, Trust: trust, Name: name, Decision: dec}
							rec.Persist(c)
							if !vlib.Each(t, rec, c, run) {
								return
							}
						}
					}
				}
			}
		}
		rec.Extra("enumerated", "mode {discoverable, hidden} x InsecureSkipVerify x trust {store, authorized key, both, neither} x expected name {server's, none, other} x callback {approve, refuse, approve iff target key, refuse iff target key}")
		rec.Save()
	}
}

func TestVerifC06ApprovalCallbackRandom(t *testing.T) {
	vlib.Drive(t, vlib.Spec[c06tCase]{ID: "C06", Quick: 600, Run: c06tRun(t), Gen: func(t *rapid.T) c06tCase {
		return c06tCase{Hidden: rapid.Bool().Draw(t, "hidden"), Skip: rapid.Bool().Draw(t, "skip"), Trust: rapid.IntRange(0, 3).Draw(t, "trust"),
			Name: rapid.IntRange(0, 2).Draw(t, "name"), Decision: rapid.IntRange(0, 3).Draw(t, "decision"), Fam: rapid.IntRange(0, 2).Draw(t, "fam")}
	}})
}
